#!/venv/bin/python
"""Runs the repository's pinned baseline (hooks off) on a repo dir and compares
with BASELINE.json's stable_pass list.  usage: tools/baseline.py [repo_dir] [-n N]"""
import json, os, subprocess, sys, tempfile, xml.etree.ElementTree as ET

repo = sys.argv[1] if len(sys.argv) > 1 and not sys.argv[1].startswith("-") else "/repo"
n = "8"
if "-n" in sys.argv:
    n = sys.argv[sys.argv.index("-n") + 1]
base = json.load(open("/root/.vp/BASELINE.json"))
want = set(base["stable_pass"])
out = tempfile.mktemp(suffix=".xml")
env = dict(os.environ)
env.pop("NEMO_GUARDRAILS_VERIF", None)
cmd = ["/venv/bin/python", "-m", "pytest", "-ra", "-q", "-p", "no:cacheprovider", "--timeout=900",
       "--continue-on-collection-errors", "--junitxml=" + out, "-n", n]
r = subprocess.run(cmd, cwd=repo, env=env, stdout=subprocess.PIPE, stderr=subprocess.STDOUT)
passed = set()
for tc in ET.parse(out).getroot().iter("testcase"):
    if not any(ch.tag in ("failure", "error", "skipped") for ch in tc):
        passed.add(tc.get("classname") + "::" + tc.get("name"))
os.unlink(out)
missing = sorted(want - passed)
retried = []
if 0 < len(missing) <= 5:
    # the suite has order-dependent tests (tests.test_threads::test_get fails whenever test_api.py ran before it in the same
    # xdist worker, on the unchanged tree too): a missing test is run once more on its own before it counts as missing
    for m in list(missing):
        mod, name = m.split("::", 1)
        path = mod.replace(".", "/") + ".py"
        r2 = subprocess.run(["/venv/bin/python", "-m", "pytest", "-q", "-p", "no:cacheprovider", "--timeout=900", path + "::" + name],
                            cwd=repo, env=env, stdout=subprocess.PIPE, stderr=subprocess.STDOUT)
        if r2.returncode == 0:
            missing.remove(m)
            passed.add(m)
            retried.append(m)
print("baseline: %d expected, %d of them passed, %d missing; total passed %d" % (len(want), len(want & passed), len(missing), len(passed)))
for m in retried:
    print("  passed when run on its own (order-dependent in the full run):", m)
for m in missing[:40]:
    print("  MISSING", m)
sys.exit(1 if missing else 0)
