#!/venv/bin/python
"""Self-validation helper: apply a textual mutation to a scratch copy of the repo
and run the quick tier of the given checks against it.
usage: tools/mut.py <relpath> <old> <new> <Cxx> [<Cyy> ...]   (old must occur exactly once unless prefixed with 'ALL:')
"""
import os, subprocess, sys, tempfile, shutil

rel, old, new = sys.argv[1:4]
checks = sys.argv[4:]
tmp = tempfile.mkdtemp(prefix="vpmut_")
try:
    subprocess.check_call(["rsync", "-a", "--exclude", ".git", "--exclude", "__pycache__", "/repo/", tmp + "/"])
    p = os.path.join(tmp, rel)
    s = open(p).read()
    allm = old.startswith("ALL:")
    if allm:
        old = old[4:]
    old = old.encode().decode("unicode_escape"); new = new.encode().decode("unicode_escape")
    n = s.count(old)
    if n == 0 or (n != 1 and not allm):
        print("MUTATION NOT APPLICABLE: %d occurrences" % n); sys.exit(3)
    open(p, "w").write(s.replace(old, new))
    env = dict(os.environ, VERIF_REPO=tmp)
    for c in checks:
        r = subprocess.run(["./check", c, "--no-evidence"] + (["--jobs", os.environ["MUT_JOBS"]] if os.environ.get("MUT_JOBS") else []), cwd="/verif", env=env, stdout=subprocess.PIPE, stderr=subprocess.STDOUT, text=True)
        lines = [l for l in r.stdout.splitlines() if l.startswith(("VIOLATION", "INCONCLUSIVE", "KNOWN", c))]
        print("== %s exit=%d" % (c, r.returncode)); print("\n".join(l[:300] for l in lines))
finally:
    shutil.rmtree(tmp, ignore_errors=True)
