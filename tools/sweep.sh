#!/bin/sh
# usage: tools/sweep.sh <tier> <seed> <ids...>   (run from a checkout of /verif; prints one summary line per check)
tier=$1; seed=$2; shift 2
for c in "$@"; do
  s=$(date +%s)
  VERIF_SEED=$seed ./check $c --tier $tier --no-evidence > sweep_$c.$tier.$seed.log 2>&1; rc=$?
  e=$(date +%s)
  echo "$c tier=$tier seed=$seed rc=$rc secs=$((e-s)) $(grep -E '^(VIOLATION|INCONCLUSIVE)' sweep_$c.$tier.$seed.log | head -4 | cut -c1-200 | tr '\n' ' ')"
done
