#!/venv/bin/python
"""Evaluate a seeded change: apply <patch> to a scratch copy of /repo, run the demo
both ways (must fail with the change, pass without) and the quick tier of the given
checks against the copy.  usage: tools/seedrun.py <seed_dir> <Cxx> [<Cyy> ...] [--thorough]"""
import glob, os, shutil, subprocess, sys, tempfile

sd = sys.argv[1]
checks = [a for a in sys.argv[2:] if not a.startswith("--")]
tier = "thorough" if "--thorough" in sys.argv else "quick"
patch = os.path.join(sd, "patch.diff")
demos = sorted(glob.glob(os.path.join(sd, "demo.py")) + glob.glob(os.path.join(sd, "test_demo.py")))
tmp = tempfile.mkdtemp(prefix="vpseed_")
rc_all = 0
try:
    subprocess.check_call(["rsync", "-a", "--exclude", ".git", "--exclude", "__pycache__", "/repo/", tmp + "/"])
    def demo(repo):
        out = []
        for d in demos:
            env = dict(os.environ, SEED_REPO=repo, PYTHONDONTWRITEBYTECODE="1")
            cmd = ["/venv/bin/python", d] if d.endswith("demo.py") and not d.endswith("test_demo.py") else ["/venv/bin/python", "-m", "pytest", "-q", "-p", "no:cacheprovider", d]
            try:
                r = subprocess.run(cmd, cwd=repo, env=env, stdout=subprocess.PIPE, stderr=subprocess.STDOUT, timeout=900)
                out.append(r.returncode)
            except subprocess.TimeoutExpired:
                out.append("timeout")
        return out
    before = demo(tmp)
    r = subprocess.run(["patch", "-p1", "-s", "-i", os.path.abspath(patch)], cwd=tmp, stdout=subprocess.PIPE, stderr=subprocess.STDOUT, text=True)
    if r.returncode != 0:
        print("PATCH FAILED:", r.stdout); sys.exit(3)
    after = demo(tmp)
    print("demo without change:", before, " with change:", after)
    env = dict(os.environ, VERIF_REPO=tmp)
    for c in checks:
        cmd = ["./check", c, "--no-evidence", "--tier", tier]
        if os.environ.get("MUT_JOBS"):
            cmd += ["--jobs", os.environ["MUT_JOBS"]]
        r = subprocess.run(cmd, cwd="/verif", env=env, stdout=subprocess.PIPE, stderr=subprocess.STDOUT, text=True)
        lines = [l for l in r.stdout.splitlines() if l.startswith(("VIOLATION", "INCONCLUSIVE", "KNOWN", c))]
        print("== %s exit=%d" % (c, r.returncode)); print("\n".join(l[:260] for l in lines))
finally:
    shutil.rmtree(tmp, ignore_errors=True)
