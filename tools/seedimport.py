#!/venv/bin/python
"""Confirm a seeded change (patch applies; demo passes without / fails with it; the pinned
baseline suite still passes with it) and store it as /verif/seeded/<name>/ with meta.json.
usage: tools/seedimport.py <seed_out_dir> <property> "<needs>" "<caught by: ...>" [--skip-baseline]"""
import glob, json, os, shutil, subprocess, sys, tempfile

sd, prop, needs, caught = sys.argv[1:5]
name = os.path.basename(sd.rstrip("/"))
tmp = tempfile.mkdtemp(prefix="vpseedimp_")
try:
    subprocess.check_call(["rsync", "-a", "--exclude", ".git", "--exclude", "__pycache__", "/repo/", tmp + "/"])
    demos = sorted(glob.glob(os.path.join(sd, "demo.py")) + glob.glob(os.path.join(sd, "test_demo.py")))
    def demo():
        out = []
        for d in demos:
            env = dict(os.environ, SEED_REPO=tmp, PYTHONDONTWRITEBYTECODE="1")
            cmd = ["/venv/bin/python", d] if os.path.basename(d) == "demo.py" else ["/venv/bin/python", "-m", "pytest", "-q", "-p", "no:cacheprovider", d]
            try:
                out.append(subprocess.run(cmd, cwd=tmp, env=env, stdout=subprocess.PIPE, stderr=subprocess.STDOUT, timeout=900).returncode)
            except subprocess.TimeoutExpired:
                out.append("timeout")
        return out
    before = demo()
    r = subprocess.run(["patch", "-p1", "-s", "-i", os.path.abspath(os.path.join(sd, "patch.diff"))], cwd=tmp)
    assert r.returncode == 0, "patch failed"
    after = demo()
    base = "skipped"
    if "--skip-baseline" not in sys.argv:
        r = subprocess.run(["/verif/tools/baseline.py", tmp, "-n", "6"], stdout=subprocess.PIPE, stderr=subprocess.STDOUT, text=True)
        base = r.stdout.strip().splitlines()
    ok = all(b == 0 for b in before) and all(a != 0 for a in after)
    print("demo before", before, "after", after, "baseline", base if isinstance(base, str) else base[:4])
    dst = os.path.join("/verif/seeded", name)
    os.makedirs(dst, exist_ok=True)
    for f in ["patch.diff", "NOTES.md"] + [os.path.basename(d) for d in demos]:
        if os.path.exists(os.path.join(sd, f)):
            shutil.copy(os.path.join(sd, f), os.path.join(dst, f))
    meta = {
        "property": prop,
        "name": name,
        "needs_to_manifest": needs,
        "confirmed": {
            "demo_exit_without_change": before,
            "demo_exit_with_change": after,
            "baseline_with_change": base,
            "how": "patch applied to an rsync copy of /repo (HEAD incl. fix: commits); demo run with SEED_REPO=<copy>; /verif/tools/baseline.py <copy> compares the pinned suite with BASELINE.json stable_pass",
        },
        "demo_ok": ok,
        "caught_by": caught,
        "author": "fresh sub-agent given only the property text and a scratch worktree",
    }
    json.dump(meta, open(os.path.join(dst, "meta.json"), "w"), indent=1)
finally:
    shutil.rmtree(tmp, ignore_errors=True)
