"""C09 — after each event the interpreter is quiescent and its dispatch index is exact.

Invariant at a hook: after every `run_to_completion` (both bindings: the
statemachine function and the by-name copy in runtime.py) `inv_c09.check_state`
scans all flow instances from scratch and compares with the incremental index.
Workload: generated hierarchies (forks/merges, groups, conflicts, activation
restarts, failures), and/or formula programs (C07), parameterised calls (C08),
conflict programs (C05), small-alphabet exhaustive histories, and the shipped
library driven by synthetic UMIM events.
"""
import copy
import itertools
import random

PROPERTY = "C09"
LEVEL = "exploration"
RULE = (
    "case = (program, event history, tie-break seed) from seven families: generated flow hierarchies with random histories (len 8-30); "
    "the same with ALL histories over a 3-letter alphabet up to length 5 (thorough 7) enumerated inside the case; C07 and/or formula programs; "
    "C08 call-binding programs; C05 conflict programs; reference programs (one `match $ref.Finished()/Started()` statement, in a loop and in a shared helper flow, revisited while $ref holds actions of different types and flows); shipped library (core, timing, guardrails, llm, avatars + rails) under random UMIM event streams. "
    "Every quiescent state reached is checked. non-trivial = some checked state had >=2 listening flows and (a forked flow or >=3 index entries); "
    "distinct = (family, program, history)"
)
MIN_HELD = {"quick": 1500, "thorough": 15000}
ASSUMPTIONS = [
    "the from-scratch scan uses the repository's own is_match_op_element / get_event_name_from_element to name what a head waits for, "
    "but never reads the incremental index while scanning",
    "a `started` instance without heads is legitimate (activated flow that finished without ever waiting)",
]
SAMPLE_EVERY = 307
CASE_WALL_S = 120

LIB_CO = '''
import core
import timing
import guardrails
import llm
import avatars

flow main
  activate llm continuation
  activate greeting
  activate tracking bot talking state
  activate tracking user talking state
  activate notification of colang errors
  activate notification of undefined flow start
  activate polling llm request response

flow greeting
  user said "hi"
  bot say "Hello world!"
  user said something
  bot say something like "how are you"

flow input rails $input_text
  $ok = await CheckAAction(text=$input_text)
  if not $ok
    bot say "no"
    abort

flow output rails $output_text
  $ok = await CheckBAction(text=$output_text)
  if not $ok
    bot say "no out"
    abort
'''


def cases(tier, seed):
    q = tier == "quick"
    base = seed * 1_000_003
    i = 0
    for k in range(1500 if q else 20000):
        i += 1
        yield {"id": i, "fam": "hier", "seed": base + k, "hlen": 8 if k % 4 else 30}
    for k in range(500 if q else 6000):
        i += 1
        yield {"id": i, "fam": "hier", "seed": base + 5_000_000 + k, "hlen": 8 if k % 4 else 20, "api": True}
    for k in range(600 if q else 8000):
        # the state is saved to JSON and restored between events (at random points of the history)
        i += 1
        yield {"id": i, "fam": ("hier", "formula", "refs")[k % 3], "seed": base + 9_000_000 + k, "hlen": 12, "rt": True}
    L = 5 if q else 7
    nprog = 12 if q else 40
    for k in range(nprog):
        for prefix in itertools.product("123", repeat=2 if q else 3):
            i += 1
            yield {"id": i, "fam": "exh", "seed": base + k, "prefix": "".join(prefix), "len": L}
    for k in range(400 if q else 6000):
        i += 1
        yield {"id": i, "fam": "formula", "seed": base + k}
    for k in range(300 if q else 5000):
        i += 1
        yield {"id": i, "fam": "bind", "seed": base + k}
    for k in range(300 if q else 5000):
        i += 1
        yield {"id": i, "fam": "conflict", "seed": base + k}
    for k in range(64 if q else 600):
        i += 1
        yield {"id": i, "fam": "lib", "seed": base + k}
    for k in range(300 if q else 4000):
        i += 1
        yield {"id": i, "fam": "refs", "seed": base + k, "api": k % 3 == 2}


def gen_refs_program(rng):
    """The same `match $ref.<Event>()` statement reached again and again - in a loop, and through one helper flow called
    with different references - while $ref holds objects of different kinds (actions of 2-3 types, flows)."""
    kinds = rng.sample(["A0Action", "A1Action", "A2Action", "fa", "fb"], rng.randint(2, 4))
    waits = ["match $ref.Finished()", "await wait ref $ref", "match $ref.Finished() or E3()", "match $ref.Started()\n    match $ref.Finished()",
             "when $ref.Finished()\n      $w = 1\n    or when E3()\n      $w = 2"]
    wait = rng.choice(waits)
    starts = []
    for j, k in enumerate(kinds):
        head = ("if" if j == 0 else "else if") + " $i %% %d == %d" % (len(kinds), j)
        what = "start %s(n=$i) as $ref" % k if k.endswith("Action") else "start %s as $ref" % k
        starts.append("    %s\n      %s" % (head, what))
    n = rng.randint(2, 6)
    extra = rng.choice(["", "  activate side\n", "  start side\n"])
    bad = ""
    if rng.random() < 0.25:
        # a flow with an invalid reference pattern (the interpreter raises a plain Python exception while parking the head):
        # it fails alone; everything else stays exactly indexed
        extra += "  start bad watcher\n"
        bad = "flow bad watcher\n  match E3()\n  start A0Action(n=7) as $b\n  match $b.%s()\n\n" % rng.choice(["Foo", "Paused"])
        if rng.random() < 0.5:
            bad = "flow bad watcher\n  match E3()\n  start fb as $b\n  match $b.%s()\n\n" % rng.choice(["Foo", "Paused", "Resumed"])
    src = (
        "flow fa\n  match E1()\n\nflow fb\n  match E2()\n\n"
        "flow wait ref $r\n  match $r.Finished()\n\n"
        "flow side\n  start A%dAction(n=99) as $s\n  await wait ref $s\n  match E3()\n\n" % rng.randint(0, 2)
        + bad
        + "flow main\n" + extra + "  $i = 0\n  while $i < %d\n" % n + "\n".join(starts) + "\n    " + wait + "\n    $i = $i + 1\n  match Never()\n"
    )
    hist = []
    for _ in range(rng.randint(6, 24)):
        x = rng.random()
        hist.append("FIN" if x < 0.55 else "E%d" % rng.randint(1, 3))
    return src, hist, len(kinds)


_W = {"states": 0, "problems": [], "facts": [], "hooked": 0}


def setup_worker():
    from . import inv_c09, v2h

    L = v2h.load()
    sm = L["sm"]
    from nemoguardrails.colang.v2_x.runtime import runtime as rt

    if not hasattr(rt, "run_to_completion") or not hasattr(sm, "run_to_completion"):
        raise RuntimeError("run_to_completion binding missing")
    orig = sm.run_to_completion

    def hooked(state, ev):
        try:
            r = orig(state, ev)
        except Exception:
            # RuntimeV2_x.process_events catches this and goes on with the very same state: it must be as consistent as
            # after a normal return (checked only when the run is driven through that API)
            if _W.get("api_drive"):
                pr, facts = inv_c09.check_state(state)
                _W["states"] += 1
                _W["facts"].append(facts)
                for k_, d_ in pr:
                    _W["problems"].append((k_ + "@after-exception-swallowed-by-process_events", d_))
            raise
        _W["hooked"] += 1
        pr, facts = inv_c09.check_state(state)
        _W["states"] += 1
        _W["facts"].append(facts)
        for p in pr:
            _W["problems"].append(p)
        return r

    sm.run_to_completion = hooked
    rt.run_to_completion = hooked


def _begin():
    _W["states"] = 0
    _W["problems"] = []
    _W["facts"] = []
    _W["roundtrips"] = 0


def _finish(base, prog, history):
    from . import inv_c09

    shapes = sorted({inv_c09.index_shape(f) for f in _W["facts"]})
    nontrivial = any(f["listening_flows"] >= 2 and (f["forked_flows"] >= 1 or f["index_entries"] >= 3) for f in _W["facts"])
    obs = {
        "states_checked": _W["states"],
        "index_shapes": shapes,
        "max_active_heads": max([f["active_heads"] for f in _W["facts"]] or [0]),
        "max_index_entries": max([f["index_entries"] for f in _W["facts"]] or [0]),
        "fam_" + base["fam"]: 1,
        "cases_through_process_events": int(bool(base.get("api"))),
        "state_roundtrips_between_events": _W.get("roundtrips", 0),
    }
    res = dict(base, observed=obs, nontrivial=nontrivial)
    if _W["problems"]:
        kinds = sorted({k for k, _ in _W["problems"]})
        return dict(res, verdict="violated", kinds=kinds, witness={"program": prog, "history": history, "problems": _W["problems"][:6]})
    if _W["states"] == 0:
        return dict(res, verdict="inconclusive", reason="monitor-not-reached")
    return dict(res, verdict="held")


def _drive(src, history, seed, base):
    """history: list of event names or dicts; 'FIN' entries finish a random live action"""
    from . import steps, v2h

    L = v2h.load()
    L["random"].reset(seed=seed)
    L["clock"].reset()
    rng = random.Random(seed ^ 0x5EED)
    _begin()
    _W["api_drive"] = bool(base.get("api"))
    fed = []
    api = None
    try:
        if base.get("api"):
            api = v2h.ApiSession(src)  # every run_to_completion round inside process_events is checked by the same hook
            st = api.st
            first_out = api.out
        else:
            st = v2h.mk(src)
            first_out = st.outgoing_events
    except v2h.LoaderReject as e:
        return dict(base, verdict="inconclusive", reason="loader-reject", detail=str(e)[:200])
    except steps.StepBudgetExceeded:
        return dict(base, verdict="inconclusive", reason="expected:nonterminating(C10)")
    live = []
    try:
        for e in first_out:
            if e["type"].startswith("Start") and e["type"].endswith("Action"):
                live.append((e["type"][5:], e["action_uid"]))
        for h in history:
            if h == "FIN":
                if not live:
                    continue
                name, uid = live.pop(rng.randrange(len(live)))
                ev = {"type": name + "Finished", "action_uid": uid, "is_success": True, "return_value": None}
            elif isinstance(h, dict):
                ev = h
            else:
                ev = {"type": h}
            fed.append(ev["type"])
            if base.get("rt") and api is None and rng.random() < 0.4:
                # the caller keeps the conversation as JSON between two events (what LLMRails.generate(state=...) does on
                # every call): the restored state's index must be as exact as the live one's, now and after later events
                from nemoguardrails.colang.v2_x.runtime import serialization as ser

                try:
                    st = ser.json_to_state(ser.state_to_json(st))
                except Exception as e_:  # C11's subject; the states reached so far were checked
                    r = _finish(base, src, fed)
                    if r["verdict"] == "violated":
                        return r
                    return dict(base, verdict="inconclusive", reason="expected:state-not-serialisable(C11):%s" % type(e_).__name__)
                _W["roundtrips"] = _W.get("roundtrips", 0) + 1
            out = api.run(ev) if api is not None else v2h.run(st, ev)
            for e in out:
                if e["type"].startswith("Start") and e["type"].endswith("Action"):
                    live.append((e["type"][5:], e["action_uid"]))
    except steps.StepBudgetExceeded:
        r = _finish(base, src, fed)
        if r["verdict"] == "violated":
            return r
        return dict(base, verdict="inconclusive", reason="expected:nonterminating(C10)")
    except Exception as e:
        # an exception escaping run_to_completion is C10's subject; the states reached before it were checked
        r = _finish(base, src, fed)
        if r["verdict"] == "violated":
            return r
        r.setdefault("observed", {})["escaped_exceptions"] = 1
        if _W["states"] == 0:
            return dict(base, verdict="inconclusive", reason="expected:exception-escaped(C10):%s" % type(e).__name__)
        return r
    return _finish(base, src, fed)


def run_case(case):
    from . import gen_v2

    fam = case["fam"]
    rng = random.Random(case["seed"])
    base = {"fam": fam}
    if case.get("api"):
        base["api"] = True
    if case.get("rt"):
        base["rt"] = True
    if fam == "hier":
        g = gen_v2.gen_hierarchy(rng, max_flows=6, with_vars=rng.random() < 0.3, loops=rng.random() < 0.3, depth_bias=rng.random() < 0.5, ext_end=rng.random() < 0.4)
        hist = []
        for _ in range(case["hlen"]):
            hist.append("FIN" if rng.random() < 0.3 else "E%d" % rng.randint(1, 3))
        base.update(key="hier:%d:%d:%s" % (case["seed"], case["hlen"], bool(case.get("api"))), sample={"family": fam, "program": g["src"], "history": hist})
        return _drive(g["src"], hist, case["seed"], base)
    if fam == "exh":
        g = gen_v2.gen_hierarchy(rng, max_flows=4, with_vars=False, loops=False, ext_end=rng.random() < 0.4)
        total = {"states": 0, "hist": 0}
        agg_facts = []
        rest = case["len"] - len(case["prefix"])
        for suffix in itertools.product("123", repeat=rest):
            hist = ["E" + c for c in case["prefix"] + "".join(suffix)]
            r = _drive(g["src"], hist, case["seed"], dict(base, key="x", sample=None))
            if r["verdict"] == "violated":
                r.update(key="exh:%d:%s" % (case["seed"], "".join(hist)), sample={"family": fam, "program": g["src"], "history": hist})
                return r
            if r["verdict"] == "inconclusive":
                r.update(key="exh:%d" % case["seed"])
                return r
            total["states"] += _W["states"]
            total["hist"] += 1
            agg_facts += _W["facts"]
        _W["facts"] = agg_facts
        _W["states"] = total["states"]
        _W["problems"] = []
        base.update(key="exh:%d:%s" % (case["seed"], case["prefix"]), sample={"family": fam, "program": g["src"], "prefix": case["prefix"], "histories_enumerated": total["hist"]})
        r = _finish(base, g["src"], case["prefix"])
        r["observed"]["exhaustive_histories"] = total["hist"]
        return r
    if fam == "formula":
        from . import mon_c07

        nl = rng.randint(2, 5)
        leaves = ["E%d" % j for j in range(nl)]
        t = mon_c07._rand_tree(rng, leaves)
        kind = rng.choice(mon_c07.KINDS)
        src = mon_c07.program(t, kind)
        hist = [rng.choice(leaves + ["X"]) for _ in range(rng.randint(3, 8))]
        base.update(key="formula:%s:%s" % (src, hist), sample={"family": fam, "program": src, "history": hist})
        return _drive(src, hist, case["seed"], base)
    if fam == "bind":
        from . import mon_c08

        g = mon_c08.gen_program(rng)
        hist = ["Release", "Release", "Other"]
        base.update(key="bind:%s" % g["src"], sample={"family": fam, "program": g["src"], "history": hist})
        return _drive(g["src"], hist, case["seed"], base)
    if fam == "conflict":
        try:
            from . import mon_c05
        except ImportError:
            return dict(base, verdict="inconclusive", reason="expected:conflict-generator-not-built")
        g = mon_c05.gen_program(rng)
        hist = [g["event"], g["event"], {"type": "Other"}]
        base.update(key="conflict:%s" % g["src"], sample={"family": fam, "program": g["src"], "history": [g["event"]]})
        return _drive(g["src"], hist, case["seed"], base)
    if fam == "lib":
        return run_lib(case, base)
    if fam == "refs":
        src, hist, nk = gen_refs_program(rng)
        base.update(key="refs:%s:%s" % (src, hist), sample={"family": fam, "program": src, "history": hist})
        r = _drive(src, hist, case["seed"], base)
        r.setdefault("observed", {})["reference_programs"] = 1
        return r
    raise ValueError(fam)


_LIB = {}


def run_lib(case, base):
    from . import steps, v2h

    L = v2h.load()
    if not _LIB:
        from nemoguardrails import RailsConfig

        cfg = RailsConfig.from_content(LIB_CO, 'colang_version: "2.x"\nmodels: []\n')
        _LIB["cfg"] = cfg
        _LIB["fc"] = L["mkcfg"](cfg.flows)
    rng = random.Random(case["seed"])
    L["random"].reset(seed=case["seed"])
    L["clock"].reset()
    _begin()
    st = L["fl"].State(flow_states=[], flow_configs=copy.deepcopy(_LIB["fc"]), rails_config=_LIB["cfg"])
    L["sm"].initialize_state(st)
    fed = []
    try:
        v2h.run(st, L["sm"].InternalEvent(name="StartFlow", arguments={"flow_id": "main"}), budget=v2h.budget_for(st) * 4)
        pending = []
        for step in range(25):
            for e in st.outgoing_events:
                if e["type"].startswith("Start") and e["type"].endswith("Action"):
                    pending.append((e["type"][5:], e["action_uid"], dict(e)))
            r = rng.random()
            if pending and r < 0.6:
                name, uid, se = pending.pop(rng.randrange(len(pending)))
                kind = rng.choice(["Finished", "Finished", "Started"])
                ev = {"type": name + kind, "action_uid": uid, "is_success": True}
                if kind == "Finished":
                    ev["return_value"] = rng.choice([True, False, None, "user asked x", {"name": "f", "body": 'flow f\n  bot say "x"'}])
                    if name == "UtteranceBotAction":
                        ev["final_script"] = se.get("script", "")
                else:
                    pending.append((name, uid, se))
            elif r < 0.85:
                ev = {"type": "UtteranceUserActionFinished", "final_transcript": rng.choice(["hi", "what", "hello there"]), "action_uid": "u%d" % step, "is_success": True}
            elif r < 0.95:
                ev = {"type": "UtteranceUserActionTranscriptUpdated", "interim_transcript": "h", "action_uid": "u%d" % step}
            else:
                ev = {"type": rng.choice(["TimerBotActionFinished", "Unknown", "ContextUpdate"]), "action_uid": "zz", "data": {"a": 1}}
            fed.append(ev["type"])
            v2h.run(st, ev, budget=v2h.budget_for(st) * 4)
    except steps.StepBudgetExceeded:
        pass
    except Exception:
        # event validation errors for synthetic payloads escape run_to_completion (C10's class); states before were checked
        pass
    base.update(key="lib:%d" % case["seed"], sample={"family": "lib", "events": fed})
    return _finish(base, "<shipped library: core, timing, guardrails, llm, avatars + rails>", fed)


def classify(r):
    return "+".join(r.get("kinds", ["unknown"]))
