"""C20 — the server loads configurations only from its root, and threads keep the exact history.

Runtime monitor on the real FastAPI app (`nemoguardrails.server.api.app`, driven through
`fastapi.testclient.TestClient`).  Observation points:

* `api.RailsConfig.from_path` is wrapped: every path the server asks to load is recorded
  (lexical abspath + realpath);
* `api._get_rails` is wrapped (reach counter: the request got as far as config resolution);
* `api.LLMRails` is replaced (in 1 of 20 thread cases: sub-classed, see ASSUMPTIONS) by a stub that records the config it was built from (marker
  tokens of the config directories that went into it), records a deep copy of the `messages`
  handed to `generate_async`, and answers with a unique deterministic reply (as a plain dict
  or as a `GenerationResponse`, or raises — chosen by the case);
* the registered `MemoryStore` is read after every request.

Two case families:

(1) `fam=id`   one hostile/benign id string (grammar over names, `/`, `\\`, `.`, `..`, %-encodings,
    unicode look-alikes, absolute paths, NUL/control chars, very long strings, `.yml` suffixes …)
    is sent as `config_id`, as the only / first / second member of `config_ids`, and again
    after the config cache has been warmed by legitimate requests.  Server modes: multi-config
    root, single-config root, multi-config root with a default config id.
(2) `fam=thr`  a sequence of <=12 requests over <=3 thread ids (plus thread-less requests,
    short/over-long ids, failing generations, hostile config ids in between).

Layout built once per worker under the worker's private cwd (removed by the parent):
    <base>/root/{cfg_a,cfg_b,cfg_a_evil}/config.yml   loadable configs (cfg_a_evil = prefix bait in single mode)
    <base>/root/emptydir/  notes.txt  file.yml  dir.yml/config.yml
    <base>/root/link_out -> ../outside                  (operator-placed symlink, see ASSUMPTIONS)
    <base>/root_evil/config.yml                         string-prefix bait (sibling of the root)
    <base>/outside/config.yml
"""
import json
import os
import random
import zlib

PROPERTY = "C20"
LEVEL = "exploration"
RULE = (
    "id family: case = (id string built from a grammar of atoms, optional second id, server mode in "
    "{multi, single, default}); each case sends the id in 7-11 placements (config_id, config_ids alone/first/second/"
    "pair, and again after legitimate requests warmed the config cache); non-trivial = the id contains a path separator, a dot sequence, a %-encoding, a unicode "
    "look-alike, a control character, an absolute prefix or a yaml suffix; distinct = (atoms, second id, mode). "
    "thread family: case = sequence of <=12 requests over <=3 thread ids with/without context, stream flag, "
    "reply shape, failing generations, hostile config ids; non-trivial = >=2 valid threads whose requests interleave "
    "(A..B..A); distinct = the request sequence"
)
MIN_HELD = {"quick": 500, "thorough": 5000}
MAX_INCONCLUSIVE = 0.03
EXHAUSTIVE = {"quick": False, "thorough": False}
ASSUMPTIONS = [
    "the LLMRails class is replaced by a recording stub (non-streaming: main_llm_supports_streaming=False); "
    "RailsConfig.from_path, RailsConfig.__add__, the request model, chat_completion, _get_rails and MemoryStore run unmodified; "
    "every 20th thread sequence instead runs the unmodified LLMRails (offline fake LLM + fake embedding engine, config cfg_r) "
    "with only generate_async wrapped for recording — this also checks that generation does not mutate the list it is handed",
    "a generated reply is accepted for ANY id spelling provided every directory handed to from_path lies inside the root and "
    "loaded successfully, or the very same id list was already loaded and served since the caches were last reset; "
    "a failure AFTER all loads succeeded inside the root (RailsConfig.__add__ / rails construction on operator content) "
    "is outside the statement and only counted (post_load_errors)",
    "startup events are not run (no static UI mount); single_config_mode/default_config_id are set directly on the app",
    "'located inside the root' is judged on the realpath of the directory entry handed to RailsConfig.from_path, "
    "component-wise against realpath(root); the root itself is allowed. The one symlink in the layout (root/link_out -> "
    "../outside) is operator-placed: loading it through its own in-root name `link_out` is accepted and counted "
    "(operator_symlink_loads); reaching its target by any other spelling is a violation",
    "an empty/absent config id with no default configured is the documented \"No 'config_id' provided\" error "
    "(GuardrailsConfigurationError re-raised by TestClient); accepted and counted as noid_errors",
    "non-string ids / config_id together with config_ids / thread ids shorter than 16 or longer than 255 chars are "
    "documented request-validation errors (HTTP 422); accepted when nothing was loaded, generated or stored",
    "plain names of the real configs (cfg_a, cfg_b) must load; if they do not the confinement monitor was not exercised "
    "(monitor-not-reached, hard inconclusive) — a server that loads nothing satisfies the statement vacuously",
    "thread + stream=true with a streaming-capable LLM is NOT explored (api.py documents 'TODO: Add support for "
    "thread_ids in streaming mode'); stream=true is only sent against the non-streaming stub (fallback path)",
    "a failing generation (stub raises; 'Internal server error.' reply) must leave the store unchanged",
    "oracle: _expect() + _inside() for ids, _thread_step() (10 lines) for threads",
]
SAMPLE_EVERY = 211
CASE_WALL_S = 60
HARD_INCONCLUSIVE = ("hook-missing", "monitor-not-reached")

WARM_CACHE_PLACEMENTS = True  # placements that do not clear the per-config cache between a legitimate and the probed request

# ----------------------------------------------------------------------------------------------
# id grammar (parent side, light)
# ----------------------------------------------------------------------------------------------
GOOD = ("cfg_a", "cfg_b")
NAMES = [
    "cfg_a", "cfg_b", "cfg_a_evil", "emptydir", "file.yml", "notes.txt", "dir.yml", "link_out", "root", "root_evil",
    "outside", "nonexistent", "etc", "config.yml", "cfg_a-cfg_b", "cfg_a-cfg_a", "cfg_b-cfg_a", "CFG_A", "cfg_a.yml",
    "nonexistent.yml", "x.yaml", "cfg", "_a", "-",
]
SEPS = ["/", "\\", "//", "/./", "\\\\", "/\\"]
DOTS = [".", "..", "...", "....", ". .", ".. ", "..;", " .."]
ENC = ["%2e", "%2E", "%2e%2e", "%2f", "%2F", "%5c", "%5C", "%252e%252e", "%252f", "%c0%ae", "%c0%af", "%00", "&#46;",
       "\\u002e", "%u002e", "%2e.", ".%2e", "+"]
UNI = ["\uff0e", "\u2025", "\u2024", "\u3002", "\uff0f", "\u2215", "\u2044", "\uff3c", "\u29f8", "\u200b", "\u202e",
       "\ud800", "\udc80", "\u0130", "\u00a0", "\ufeff", "\u0338"]
ABS = ["/", "{ROOT}", "{OUT}", "{EVIL}", "{BASE}", "{ROOT}/cfg_a", "{ROOT}/../outside", "/etc", "/tmp", "//etc", "file://",
       "file://{OUT}", "C:\\", "\\\\host\\share", "~", "~root", "$HOME", "${HOME}", "{REALROOT}"]
CTRL = ["\x00", " ", "\t", "\n", "\r", "\x7f", "\x1b", "\x01"]
LONG = ["{A300}", "{A5000}", "{UP200}", "{UPB200}", "{DOT1000}", "{A70000}"]
YML = [".yml", ".yaml", ".YML", ".yml ", ".yml\x00", ".yml/", ".yaml.", "..yml"]
UPS = ["..", "%2e%2e", "\uff0e\uff0e", "\u2025", ".%2e", "%2e.", "..;", "...", "%252e%252e", ". .", "..\x00", ".\u200b.",
       "%c0%ae%c0%ae", "\\u002e\\u002e"]
TARGETS = ["outside", "root_evil", "root/cfg_a", "root_evil/", "etc/passwd", "cfg_b", "outside/config.yml", "root", ""]
ALL_ATOMS = NAMES + SEPS + DOTS + ENC + UNI + ABS + CTRL + LONG + YML

CURATED = [
    ["cfg_a"], ["cfg_b"], ["../outside"], [".."], [""], ["."], ["/etc"], ["cfg_a/../cfg_b"], ["%2e%2e/outside"],
    ["cfg_a\x00"], ["..\\outside"], ["nonexistent"], ["../root_evil"], ["emptydir"], ["file.yml"], ["notes.txt"],
    ["link_out"], ["link_out/.."], ["link_out/../outside"], ["cfg_a/"], ["/cfg_a"], ["./cfg_a"], ["cfg_a/."],
    ["cfg_a/../../outside"], ["cfg_a/../../root_evil"], ["{OUT}"], ["{EVIL}"], ["{ROOT}"], ["{ROOT}/cfg_a"], ["{BASE}"],
    ["{REALROOT}/../outside"], ["{ROOT}_evil"], ["../root"], ["../root/cfg_a"], ["..%2foutside"], ["..%5coutside"],
    ["\uff0e\uff0e/outside"], ["..\uff0foutside"], ["\u2025/outside"], ["cfg_a "], [" cfg_a"], ["CFG_A"], ["cfg_a."],
    ["~"], ["$HOME"], ["cfg_a\n"], ["\ud800"], ["cfg_a\udc80"], ["{A300}"], ["{A5000}"], ["{UP200}", "outside"],
    ["{UPB200}", "outside"], ["{A70000}"], ["cfg_a-cfg_b"], ["cfg_b-cfg_a"], ["cfg_a-cfg_a"], ["cfg_a-"], ["-cfg_a"],
    ["nonexistent.yml"], ["x.yaml"], [".yml"], ["dir.yml"], ["cfg_a.yml"], ["{A300}", ".yml"], ["../outside/config.yml"],
    ["config.yml"], ["cfg_a/config.yml"], ["..."], ["...."], [". ."], ["..;/outside"], ["%00"], ["\x00"], ["\x00../outside"],
    ["../outside\x00"], ["cfg_a\x00/../../outside"], ["file://{OUT}"], ["\\\\host\\share"], ["C:\\outside"], ["//"], ["/"],
    ["\\"], ["cfg_a_evil"], ["cfg_a_evil/../cfg_a"], ["root_evil"], ["outside"],
]
SPECIALS = [  # (label, body fragment, expectation)
    ("absent", {}, "noid"),
    ("null", {"config_id": None}, "noid"),
    ("both-null", {"config_id": None, "config_ids": None}, "noid"),
    ("empty-list", {"config_ids": []}, "noid"),
    ("both", {"config_id": "cfg_a", "config_ids": ["cfg_b"]}, "validation"),
    ("both-hostile", {"config_id": "../outside", "config_ids": ["../root_evil"]}, "validation"),
    ("int", {"config_id": 5}, "validation"),
    ("bool", {"config_id": True}, "validation"),
    ("list-as-id", {"config_id": ["cfg_a"]}, "validation"),
    ("dict-as-id", {"config_id": {"a": "../outside"}}, "validation"),
    ("str-as-ids", {"config_ids": "../outside"}, "validation"),
    ("int-in-ids", {"config_ids": ["cfg_a", 5]}, "validation"),
    ("null-in-ids", {"config_ids": ["cfg_a", None]}, "validation"),
    ("nested-ids", {"config_ids": [["..", "outside"]]}, "validation"),
]


def _gen_parts(rng):
    t = rng.random()
    if t < 0.28:
        sep = rng.choice(SEPS)
        prefix = rng.choice(["", "", "cfg_a" + sep, "." + sep, sep, "nonexistent" + sep, "link_out" + sep, "cfg_a\x00" + sep])
        parts = [prefix] if prefix else []
        for _ in range(rng.randint(1, 4)):
            parts += [rng.choice(UPS) if rng.random() < 0.6 else "..", sep if rng.random() < 0.8 else rng.choice(SEPS + ENC[3:9])]
        parts.append(rng.choice(TARGETS))
        return parts
    if t < 0.42:
        parts = [rng.choice(ABS)]
        if rng.random() < 0.5:
            parts += [rng.choice(SEPS), rng.choice(NAMES + DOTS)]
        if rng.random() < 0.2:
            parts.insert(0, rng.choice(CTRL + UNI + ["cfg_a"]))
        return parts
    if t < 0.56:
        parts = [rng.choice(NAMES)]
        parts.insert(rng.randint(0, 1), rng.choice(CTRL + UNI + ENC + DOTS))
        if rng.random() < 0.3:
            parts.append(rng.choice(CTRL + UNI + ENC + DOTS + SEPS))
        return parts
    if t < 0.68:
        return [rng.choice(NAMES + DOTS + UPS + LONG + ["cfg_a/..", "../outside/config", "../root_evil/config"]), rng.choice(YML)]
    return [rng.choice(ALL_ATOMS) for _ in range(rng.randint(1, 6))]


def _mode(rng):
    x = rng.random()
    return "multi" if x < 0.72 else ("single" if x < 0.88 else "default")


def cases(tier, seed):
    n = 0
    seen = set()
    for parts in CURATED:
        for mode in ("multi", "single", "default"):
            n += 1
            yield {"id": n, "fam": "id", "parts": parts, "id2": None, "mode": mode}
    for label, frag, exp in SPECIALS:
        for mode in ("multi", "single", "default"):
            n += 1
            yield {"id": n, "fam": "special", "label": label, "frag": frag, "expect": exp, "mode": mode}
    rng = random.Random(2000 + seed)
    n_id = 4000 if tier == "quick" else 30000
    n_thr = 800 if tier == "quick" else 6000
    # interleave the two families so that --limit runs see both
    ratio = max(1, n_id // n_thr)
    made_id = made_thr = 0
    while made_id < n_id or made_thr < n_thr:
        for _ in range(ratio):
            if made_id >= n_id:
                break
            parts = _gen_parts(rng)
            id2 = None
            if rng.random() < 0.3:
                id2 = _gen_parts(rng) if rng.random() < 0.6 else [rng.choice(NAMES)]
            mode = _mode(rng)
            k = (tuple(parts), tuple(id2) if id2 else None, mode)
            made_id += 1
            if k in seen:
                continue
            seen.add(k)
            n += 1
            yield {"id": n, "fam": "id", "parts": parts, "id2": id2, "mode": mode}
        if made_thr < n_thr:
            made_thr += 1
            n += 1
            if made_thr % 20 == 10:
                yield _gen_shared_prefix_case(n, rng)
            elif made_thr % 20 == 15:
                yield _gen_passthrough_case(n, rng)
            else:
                yield _gen_thread_case(n, rng, real=(made_thr % 20 == 0))


# ----------------------------------------------------------------------------------------------
# thread sequences (parent side)
# ----------------------------------------------------------------------------------------------
_ALNUM = "abcdefghijklmnopqrstuvwxyzABCDEFGHIJKLMNOPQRSTUVWXYZ0123456789-_"


def _thread_pool(rng):
    def rnd(nch):
        return "".join(rng.choice(_ALNUM) for _ in range(nch))

    a = rnd(rng.choice([16, 16, 17, 24, 40]))
    style = rng.random()
    if style < 0.25:
        b = a + rng.choice(["x", "0", " ", "/"])  # a is a prefix of b
    elif style < 0.4:
        b = "thread-" + a  # looks like a's datastore key
    elif style < 0.5:
        b = a[:-1] + ("A" if a[-1] != "A" else "B")
    elif style < 0.6:
        b = a.swapcase() if a.swapcase() != a else rnd(16)
    else:
        b = rnd(rng.choice([16, 20, 64]))
    c = rng.choice([
        "\u00e9" * 16, rnd(255), "../../" + rnd(12), rnd(8) + "\x00" + rnd(8), " " * 16, a + "\n", "thread-" * 3,
        rnd(16), "\U0001f9f5" * 16, a[::-1] if a[::-1] != a else rnd(18),
    ])
    pool = []
    for t in (a, b, c):
        if t not in pool:
            pool.append(t)
    return pool[: rng.choice([1, 2, 2, 3, 3, 3])]


def _gen_thread_case(n, rng, real=False):
    pool = _thread_pool(rng)
    nreq = rng.randint(2, 12)
    reqs = []
    for i in range(nreq):
        x = rng.random()
        if x < 0.12:
            tid = None
        elif x < 0.16:
            tid = rng.choice(["short", "", "t" * 15, "x" * 256, "\u00e9" * 15, "y" * 4000])
        else:
            tid = rng.choice(pool)
        x = rng.random()
        if x < 0.70:
            cfg = {"config_id": "cfg_a"}
        elif x < 0.82:
            cfg = {"config_id": "cfg_b"}
        elif x < 0.88:
            cfg = {"config_ids": ["cfg_a", "cfg_b"]}
        elif x < 0.94:
            cfg = {"config_id": rng.choice(["../outside", "../root_evil", "nonexistent", "cfg_a/../cfg_b", "emptydir"])}
        else:
            cfg = {"config_ids": ["cfg_b", "cfg_a"]}
        msgs = []
        for k in range(rng.choice([0, 1, 1, 1, 1, 2, 2, 3])):
            role = rng.choice(["user", "user", "user", "assistant", "system", "context", "tool"])
            content = "M-%d-%d-%d" % (n, i, k)
            if role == "context":
                content = {"k%d" % k: content}
            elif rng.random() < 0.15:
                content += rng.choice([" \u00e9\u4e2d\U0001f600", ' "quoted" \\ back', "\n\nnew\tline", " \x00nul", " ]}[{"])
            m = {"role": role, "content": content}
            if rng.random() < 0.1:
                m["extra"] = rng.choice([None, 7, [1, {"a": None}], True, 1.5])
            msgs.append(m)
        x = rng.random()
        ctx = None if x < 0.55 else ({} if x < 0.65 else {"user_name": "N-%d-%d" % (n, i), "n": i})
        r = {"cfg": cfg, "thread_id": tid, "messages": msgs, "context": ctx, "shape": rng.choice(["dict", "gr", "gr"])}
        if rng.random() < 0.12:
            r["stream"] = True
        if rng.random() < 0.1:
            r["options"] = rng.choice([{"llm_params": {"temperature": 0.2}}, {"log": {"activated_rails": True}}, {"rails": {"input": False}}])
        if rng.random() < 0.06:
            r["fail"] = True
        if real:
            r.pop("fail", None)
            if r["cfg"].get("config_id") in ("cfg_a", "cfg_b") or "config_ids" in r["cfg"]:
                r["cfg"] = {"config_id": "cfg_r"}
        reqs.append(r)
    c = {"id": n, "fam": "thr", "reqs": reqs}
    if real:
        c["real"] = True
    return c


SHARED_TEXTS = ["hi", "hello there", "tell me more", "and then?", "thanks"]


def _gen_shared_prefix_case(n, rng):
    """Unmodified LLMRails; 2-3 threads (and sometimes a thread-less client) whose user texts come from a pool of five, so
    that histories of different threads are textually identical for a while; the requests of the threads interleave.
    Judged additionally by non-interference: every thread is afterwards replayed alone on a fresh server state and must
    have got the same replies and the same stored history."""
    pool = _thread_pool(rng)[: rng.choice([2, 2, 3])]
    cfg = rng.choice(["cfg_r", "cfg_ms"])
    same_first = rng.random() < 0.6
    first = rng.choice(SHARED_TEXTS)
    turn = {}
    reqs = []
    for i in range(rng.randint(4, 10)):
        tid = None if rng.random() < 0.08 else rng.choice(pool)
        k = turn.get(tid, 0)
        turn[tid] = k + 1
        text = first if (k == 0 and same_first and rng.random() < 0.85) else rng.choice(SHARED_TEXTS)
        reqs.append({"cfg": {"config_id": cfg}, "thread_id": tid, "messages": [{"role": "user", "content": text}],
                     "context": None, "shape": "dict"})
    return {"id": n, "fam": "thr", "reqs": reqs, "real": True, "alone": True}


def _gen_passthrough_case(n, rng):
    """Unmodified LLMRails in passthrough mode (the server as a guarded proxy): the message list of the turn IS the LLM's
    input, so "the messages used for a turn are exactly the stored thread followed by the new messages" is observable at the
    LLM call. Clients that resend their system prompt with every request, system messages in the middle of a list, repeated
    user texts; 1-2 threads interleaved."""
    pool = _thread_pool(rng)[: rng.choice([1, 2])]
    sys_texts = ["SYS-%d be brief" % n, "SYS-%d answer in German" % n]
    reqs = []
    for i in range(rng.randint(3, 7)):
        tid = None if rng.random() < 0.1 else rng.choice(pool)
        msgs = []
        x = rng.random()
        if x < 0.5:
            msgs.append({"role": "system", "content": sys_texts[0]})  # the client's fixed system prompt, resent with every request
        elif x < 0.7:
            msgs.append({"role": "system", "content": rng.choice(sys_texts)})
        if rng.random() < 0.3:
            msgs.append({"role": "user", "content": rng.choice(SHARED_TEXTS)})
            msgs.append({"role": "assistant", "content": "EARLIER-%d-%d" % (n, i)})
            if rng.random() < 0.5:
                msgs.append({"role": "system", "content": rng.choice(sys_texts + ["SYS-%d-%d new rule" % (n, i)])})
        msgs.append({"role": "user", "content": rng.choice(SHARED_TEXTS + ["Q-%d-%d" % (n, i)])})
        reqs.append({"cfg": {"config_id": "cfg_pt"}, "thread_id": tid, "messages": msgs, "context": None, "shape": "dict"})
    return {"id": n, "fam": "thr", "reqs": reqs, "real": True, "pt": True}


# ----------------------------------------------------------------------------------------------
# worker side
# ----------------------------------------------------------------------------------------------
W = {}
FIXED_PREFIX = "Could not load the "
FIXED_SUFFIX = "guardrails configuration. An internal error has occurred."


def _mark(name):
    return "MARK<%s>" % name


def _write_cfg(d, name):
    os.makedirs(d, exist_ok=True)
    with open(os.path.join(d, "config.yml"), "w") as f:
        f.write('models: []\ninstructions:\n  - type: general\n    content: "%s"\n' % _mark(name))


def setup_worker():
    import shutil

    from fastapi.testclient import TestClient

    from nemoguardrails.rails.llm.options import GenerationResponse
    from nemoguardrails.server import api
    from nemoguardrails.server.datastore.memory_store import MemoryStore

    for sym in ("_get_rails", "RailsConfig", "LLMRails", "llm_rails_instances", "llm_rails_events_history_cache",
                "register_datastore", "chat_completion", "app", "GuardrailsConfigurationError"):
        if not hasattr(api, sym):
            raise RuntimeError("nemoguardrails.server.api.%s no longer exists" % sym)
    if not hasattr(api.RailsConfig, "from_path"):
        raise RuntimeError("RailsConfig.from_path no longer exists")

    base = os.path.join(os.getcwd(), "c20w")
    shutil.rmtree(base, ignore_errors=True)
    root = os.path.join(base, "root")
    for nm in ("cfg_a", "cfg_b", "cfg_a_evil", "dir.yml"):
        _write_cfg(os.path.join(root, nm), nm)
    _write_cfg(os.path.join(base, "root_evil"), "root_evil")
    _write_cfg(os.path.join(base, "outside"), "outside")
    os.makedirs(os.path.join(root, "emptydir"))
    with open(os.path.join(root, "notes.txt"), "w") as f:
        f.write("not a config\n")
    with open(os.path.join(root, "file.yml"), "w") as f:
        f.write('models: []\ninstructions:\n  - type: general\n    content: "%s"\n' % _mark("file.yml"))
    os.symlink("../outside", os.path.join(root, "link_out"))
    os.makedirs(os.path.join(root, "cfg_r"))
    with open(os.path.join(root, "cfg_r", "config.yml"), "w") as f:
        f.write("models:\n  - type: main\n    engine: c20fake\n    model: x\n  - type: embeddings\n    engine: c20emb\n    model: m\n"
                'instructions:\n  - type: general\n    content: "%s"\n' % _mark("cfg_r"))

    # multi-step generation: no flow handles the user intent, the LLM writes the next steps as a small flow that the (per-config,
    # i.e. shared by all threads) runtime registers
    os.makedirs(os.path.join(root, "cfg_ms"))
    with open(os.path.join(root, "cfg_ms", "config.yml"), "w") as f:
        f.write("models:\n  - type: main\n    engine: c20fake\n    model: x\n  - type: embeddings\n    engine: c20emb\n    model: m\n"
                "enable_multi_step_generation: True\n"
                'instructions:\n  - type: general\n    content: "%s"\n' % _mark("cfg_r"))
    with open(os.path.join(root, "cfg_ms", "flows.co"), "w") as f:
        f.write('define user ask something\n  "hi"\n  "hello there"\n\ndefine user ask other\n  "tell me more"\n  "and then?"\n  "thanks"\n')

    # passthrough: the LLM is called with the message list of the turn itself
    os.makedirs(os.path.join(root, "cfg_pt"))
    with open(os.path.join(root, "cfg_pt", "config.yml"), "w") as f:
        f.write("models:\n  - type: main\n    engine: c20fake\n    model: x\n  - type: embeddings\n    engine: c20emb\n    model: m\n"
                "passthrough: True\n"
                'instructions:\n  - type: general\n    content: "%s"\n' % _mark("cfg_r"))

    rec = {"paths": [], "get_rails": [], "gen": [], "built": [], "ctl": {}, "llm": []}
    real_rc = api.RailsConfig
    real_from_path = real_rc.from_path

    class RCProxy(object):
        """Stands in for the RailsConfig *name* inside api.py; everything is delegated to the real class."""

        def __getattr__(self, name):
            return getattr(real_rc, name)

        @staticmethod
        def from_path(p, *a, **kw):
            try:
                entry = {"raw": p, "abs": os.path.abspath(p), "real": os.path.realpath(p)}
            except Exception as e:  # NUL / surrogates: cannot even be resolved
                entry = {"raw": p, "abs": None, "real": None, "unresolvable": type(e).__name__}
            rec["paths"].append(entry)
            try:
                res = real_from_path(p, *a, **kw)
            except BaseException as e:
                entry["error"] = type(e).__name__
                raise
            entry["ok"] = True
            return res

    real_get_rails = api._get_rails

    def get_rails_wrapper(config_ids):
        rec["get_rails"].append(list(config_ids) if isinstance(config_ids, list) else config_ids)
        return real_get_rails(config_ids)

    class StubRails(object):
        def __init__(self, config=None, llm=None, verbose=False, **kw):
            self.config = config
            self.events_history_cache = {}
            self.main_llm_supports_streaming = False
            text = json.dumps([getattr(i, "content", str(i)) for i in (config.instructions or [])]) if config is not None else ""
            self.marks = sorted(set(m for m in W["all_marks"] if m in text))
            rec["built"].append(self.marks)

        async def generate_async(self, prompt=None, messages=None, options=None, state=None, streaming_handler=None, **kw):
            ctl = rec["ctl"]
            rec["gen"].append({"messages": json.loads(json.dumps(messages)), "marks": self.marks,
                               "streaming_handler": streaming_handler is not None})
            if ctl.get("fail"):
                raise RuntimeError("C20 stub: generation failed on purpose")
            reply = dict(ctl["reply"])
            if ctl.get("shape") == "gr":
                return GenerationResponse(response=[reply])
            return reply

    RealRails, real_err = None, None
    try:
        RealRails = _make_real_rails(rec)
    except Exception as e:  # the real-LLMRails variant is an extra; its absence is reported per case
        real_err = "%s: %s" % (type(e).__name__, str(e)[:120])
    api.RailsConfig = RCProxy()
    api._get_rails = get_rails_wrapper
    api.LLMRails = StubRails
    api.app.disable_chat_ui = True
    W.update(
        api=api, base=base, root=root, rec=rec, MemoryStore=MemoryStore, StubRails=StubRails, RealRails=RealRails, real_err=real_err,
        client=TestClient(api.app, raise_server_exceptions=True),
        all_marks=[_mark(x) for x in ("cfg_a", "cfg_b", "cfg_r", "cfg_a_evil", "dir.yml", "file.yml", "root_evil", "outside")],
        in_marks=set(_mark(x) for x in ("cfg_a", "cfg_b", "cfg_r", "cfg_a_evil", "dir.yml", "file.yml")),
        counter=0,
    )


_SAMPLING_KEY = [""]
_MULTI_STEP = [False]


def _c20_answer(prompt):
    """the offline LLM: a function of the prompt - and, where the prompt shows no text at all (the next-steps prompt of
    multi-step generation lists intents only), of a sampling key set per request from the conversation's first user message"""
    tail = prompt.rstrip("\n").split("\n")[-1]
    crc = zlib.crc32(prompt.encode("utf-8", "replace"))
    if _MULTI_STEP[0]:  # the request is served by the multi-step config (cfg_ms)
        if tail.startswith('user "'):
            return "  ask other" if crc % 2 else "  ask something"
        if tail.startswith("user ask"):
            return "bot answer k%s\nbot add k%s" % (_SAMPLING_KEY[0], _SAMPLING_KEY[0][::-1])
        if tail.startswith("bot "):
            return '  "REAL-REPLY %d %08x"' % (len(prompt), crc)
        # the verbose prompt format used for engines without a dedicated template
        if tail.startswith("User message:"):
            return "User intent: ask other" if crc % 2 else "User intent: ask something"
        if tail.startswith("User intent:"):
            return "Bot intent: answer k%s\nBot intent: add k%s" % (_SAMPLING_KEY[0], _SAMPLING_KEY[0][::-1])
        if tail.startswith("Bot intent:"):
            return 'Bot message: "REAL-REPLY %d %08x"' % (len(prompt), crc)
    return "REAL-REPLY %d %08x" % (len(prompt), crc)


def _make_real_rails(rec):
    """The unmodified LLMRails driven by an offline fake LLM + fake embedding engine (config root/cfg_r); only
    generate_async is wrapped to record what it is handed."""
    from langchain.llms.base import LLM

    from nemoguardrails import LLMRails
    from nemoguardrails.embeddings.providers import register_embedding_provider
    from nemoguardrails.embeddings.providers.base import EmbeddingModel
    from nemoguardrails.llm.providers import register_llm_provider

    class C20LLM(LLM):
        @property
        def _llm_type(self):
            return "c20fake"

        def _call(self, prompt, stop=None, run_manager=None, **kw):
            rec["llm"].append(prompt)
            return _c20_answer(prompt)

        async def _acall(self, prompt, stop=None, run_manager=None, **kw):
            rec["llm"].append(prompt)
            return _c20_answer(prompt)

    class C20Emb(EmbeddingModel):
        engine_name = "c20emb"

        def __init__(self, embedding_model=None, **kw):
            self.model = embedding_model

        def encode(self, documents):
            return [[float(len(d) % 7), 1.0, float(sum(map(ord, d)) % 11)] for d in documents]

        async def encode_async(self, documents):
            return self.encode(documents)

    register_llm_provider("c20fake", C20LLM)
    register_embedding_provider(C20Emb, "c20emb")

    class RealRails(LLMRails):
        def __init__(self, config=None, llm=None, verbose=False, **kw):
            super().__init__(config=config, verbose=False)
            text = json.dumps([getattr(i, "content", str(i)) for i in (config.instructions or [])])
            self.marks = sorted(set(m for m in W["all_marks"] if m in text))
            rec["built"].append(self.marks)

        async def generate_async(self, prompt=None, messages=None, options=None, state=None, streaming_handler=None, **kw):
            before = json.dumps(messages)
            first_user = next((m_.get("content") for m_ in (messages or []) if isinstance(m_, dict) and m_.get("role") == "user"), "")
            _SAMPLING_KEY[0] = "%08x" % zlib.crc32(json.dumps(first_user).encode())
            _MULTI_STEP[0] = bool(getattr(self.config, "enable_multi_step_generation", False))
            g = {"messages": json.loads(before), "marks": self.marks, "streaming_handler": streaming_handler is not None}
            rec["gen"].append(g)
            try:
                return await super().generate_async(prompt=prompt, messages=messages, options=options, state=state,
                                                    streaming_handler=streaming_handler, **kw)
            finally:
                g["mutated_in_place"] = json.dumps(messages) != before

    return RealRails


def _resolve(parts):
    base, root = W["base"], W["root"]
    rep = {
        "{ROOT}": root, "{BASE}": base, "{OUT}": os.path.join(base, "outside"), "{EVIL}": os.path.join(base, "root_evil"),
        "{REALROOT}": os.path.realpath(root), "{A300}": "a" * 300, "{A5000}": "a" * 5000, "{A70000}": "a" * 70000,
        "{UP200}": "../" * 200, "{UPB200}": "..\\" * 200, "{DOT1000}": "." * 1000,
    }
    s = "".join(parts)
    for k, v in rep.items():
        if k in s:
            s = s.replace(k, v)
    return s


def _reset(mode):
    api = W["api"]
    api.llm_rails_instances.clear()
    api.llm_rails_events_history_cache.clear()
    store = W["MemoryStore"]()
    api.register_datastore(store)
    W["store"] = store
    app = api.app
    if mode == "single":
        app.rails_config_path = os.path.join(W["root"], "cfg_a")
        app.single_config_mode = True
        app.single_config_id = "cfg_a"
        app.default_config_id = None
    else:
        app.rails_config_path = W["root"]
        app.single_config_mode = False
        app.single_config_id = None
        app.default_config_id = "cfg_b" if mode == "default" else None
    W["mode"] = mode
    W["served"] = []
    W["cfg_root"] = os.path.realpath(app.rails_config_path)


def _inside(path, root):
    """component-wise: path == root or path below root (both realpaths)."""
    if path is None:
        return False
    p = [c for c in path.split(os.sep) if c]
    r = [c for c in root.split(os.sep) if c]
    return p[: len(r)] == r


# ---- the id oracle (independent of the server code) ---------------------------------------------
def _expect(ids, mode):
    """ids: the effective list of id strings of the request (None/[] = no id).  Returns one of
      noid       the documented "No 'config_id' provided" error, nothing loaded
      must_load  plain name(s) of real configs: a generated reply is required (reach obligation)
      any        either a generated reply whose every load succeeded inside the root (or which repeats an id list
                 already served since the last reset), or the fixed reply; nothing else."""
    if not ids:
        return "must_load" if mode == "default" else "noid"
    if mode == "single":
        return "must_load" if ids == ["cfg_a"] else "any"
    return "must_load" if all(i in GOOD for i in ids) else "any"


def _is_plain_entry(ids):
    return all(isinstance(i, str) and not any(ch in i for ch in "/\\\x00%") and ".." not in i for i in (ids or []))


def _effective_ids(frag):
    """What the documented request model makes of config_id / config_ids."""
    cid, cids = frag.get("config_id"), frag.get("config_ids")
    if cids is not None:
        return list(cids)
    if cid:
        return [cid]
    return None


def _post(body):
    """-> dict(status, json, exc) ; never raises for server-side failures."""
    rec = W["rec"]
    rec["paths"], rec["get_rails"], rec["gen"], rec["built"], rec["llm"] = [], [], [], [], []
    W["counter"] += 1
    out = {"status": None, "json": None, "exc": None, "exc_msg": None}
    try:
        r = W["client"].post("/v1/chat/completions", content=json.dumps(body).encode("ascii"),
                             headers={"content-type": "application/json"})
        out["status"] = r.status_code
        try:
            out["json"] = r.json()
        except Exception:
            out["json"] = {"_text": r.text[:200]}
    except Exception as e:  # TestClient re-raises what escaped the endpoint
        out["exc"] = type(e).__name__
        out["exc_mro"] = [c.__name__ for c in type(e).__mro__]
        out["exc_msg"] = str(e)[:200]
    out["paths"] = rec["paths"]
    out["get_rails"] = rec["get_rails"]
    out["gen"] = rec["gen"]
    out["built"] = rec["built"]
    out["llm"] = rec["llm"]
    return out


def _reply_kind(out, reply):
    """success | fixed | internal-error | validation | noid | error:<Type> | other"""
    if out["exc"]:
        if out["exc"] == "GuardrailsConfigurationError" and "No 'config_id' provided" in (out["exc_msg"] or ""):
            return "noid"
        return "error:" + out["exc"]
    if out["status"] == 422:
        return "validation"
    if out["status"] != 200:
        return "error:http%s" % out["status"]
    msgs = (out["json"] or {}).get("messages")
    if not isinstance(msgs, list) or len(msgs) != 1 or not isinstance(msgs[0], dict):
        return "other"
    c = msgs[0].get("content")
    if reply is not None and msgs[0] == reply:
        return "success"
    if isinstance(c, str) and msgs[0].get("role") == "assistant":
        if c.startswith(FIXED_PREFIX) and c.endswith(FIXED_SUFFIX):
            return "fixed"
        if c == "Internal server error.":
            return "internal-error"
        if reply is None and out["gen"]:
            return "success"  # real LLMRails: the reply text is whatever the fake LLM produced
    return "other"


def _short(s, n=120):
    s = s if isinstance(s, str) else json.dumps(s, default=str)
    return s if len(s) <= n else s[:n] + "...(%d chars)" % len(s)


def _check_paths(out, ids, obs):
    """Confinement: every path handed to from_path lies in the configured root.  Returns a problem dict or None."""
    root = W["cfg_root"]
    link_target = os.path.realpath(os.path.join(W["base"], "outside"))
    for e in out["paths"]:
        obs["from_path_calls"] += 1
        if e.get("unresolvable"):
            obs["paths_unresolvable"] += 1  # cannot name any directory at all (NUL, lone surrogate)
            if e.get("ok"):
                return {"kind": "load-outside-root", "path": _short(repr(e["raw"])), "why": "unresolvable path loaded"}
            continue
        if _inside(e["real"], root):
            obs["paths_in_root"] += 1
            if e["real"] == root:
                obs["loads_of_root_itself"] += 1
            continue
        # operator-placed symlink, addressed by its own in-root name only
        lexical_ok = W["mode"] != "single" and e["abs"] == os.path.join(os.path.abspath(W["root"]), "link_out")
        if lexical_ok and "link_out" in (ids or []) and e["real"] == link_target:
            obs["operator_symlink_loads"] += 1
            continue
        return {"kind": "load-outside-root", "path": _short(e["real"]), "raw": _short(repr(e["raw"])), "root": root,
                "loaded_ok": bool(e.get("ok"))}
    return None


def _check_marks(out, ids):
    allowed = set(W["in_marks"])
    if W["mode"] != "single" and any(i in ("link_out", ".", "") for i in (ids or [])):
        allowed.add(_mark("outside"))  # via the operator symlink (the root walk follows links)
    for g in out["gen"]:
        bad = [m for m in g["marks"] if m not in allowed]
        if bad:
            return {"kind": "load-outside-root", "why": "generation ran on a config containing out-of-root content", "marks": bad}
    return None


def _new_obs():
    return {k: 0 for k in (
        "requests", "get_rails_calls", "from_path_calls", "paths_in_root", "loads_of_root_itself", "paths_unresolvable",
        "operator_symlink_loads", "fixed_replies", "success_replies", "noid_errors", "validation_422", "generation_calls",
        "warm_cache_requests", "served_from_cache", "thread_requests", "thread_store_checks", "failed_generations",
        "internal_error_replies", "hostile_in_thread_sequence", "post_load_errors", "inroot_loads_via_nonplain_id",
        "real_rails_turns", "real_rails_cases")}


def _judge_id_request(label, frag, ids, expect, obs):
    """One request of the id family.  Returns (problem or None, reached: bool, trace)."""
    reply = {"role": "assistant", "content": "C20-REPLY-%d" % (W["counter"] + 1)}
    W["rec"]["ctl"] = {"reply": reply, "shape": "gr" if (W["counter"] % 2) else "dict"}
    body = dict(frag)
    body["messages"] = [{"role": "user", "content": "hello %d" % W["counter"]}]
    out = _post(body)
    obs["requests"] += 1
    obs["get_rails_calls"] += len(out["get_rails"])
    obs["generation_calls"] += len(out["gen"])
    kind = _reply_kind(out, reply)
    trace = {"placement": label, "ids": _short(ids), "expect": expect, "got": kind,
             "paths": [_short(p["real"] or repr(p["raw"]), 80) for p in out["paths"]][:4]}
    prob = _check_paths(out, ids, obs) or _check_marks(out, ids)
    if prob:
        return dict(prob, placement=label, reply=kind), True, trace
    base = {"placement": label, "ids": _short(ids, 300), "expect": expect, "reply": kind,
            "paths_attempted": [_short(p["real"] or repr(p["raw"]), 200) for p in out["paths"]][:4],
            "path_errors": [p.get("error") for p in out["paths"]][:4]}
    if expect == "validation":
        if kind != "validation" or out["paths"] or out["gen"]:
            return dict(base, kind="validation-expected"), True, trace
        obs["validation_422"] += 1
        return None, True, trace
    if expect == "noid":
        if kind != "noid" or out["paths"] or out["gen"]:
            return dict(base, kind="noid-expected", exc=out["exc"], exc_msg=out["exc_msg"]), True, trace
        obs["noid_errors"] += 1
        return None, True, trace
    reached = len(out["get_rails"]) == 1
    if kind == "success":
        obs["success_replies"] += 1
        if len(out["gen"]) != 1:
            return dict(base, kind="reply-without-generation"), reached, trace
        eff = list(ids) if ids else ["cfg_b"]  # no id: only reachable in default mode, where the default is cfg_b
        if any(not p.get("ok") for p in out["paths"]):
            return dict(base, kind="served-after-failed-load"), reached, trace
        if not out["paths"]:
            # nothing was loaded for this request: only legitimate if exactly this id list was loaded and served before
            obs["served_from_cache"] += 1
            if eff not in W["served"]:
                k = "served-without-load"
                joined = ["-".join(x) for x in W["served"]]
                if "-".join(eff) in joined:
                    k = "cache-key-join-collision"  # structural: some other served id list has the same "-".join()
                return dict(base, kind=k, served_config_marks=out["gen"][0]["marks"],
                            id_lists_served_before=[_short(x, 80) for x in W["served"]][:8]), reached, trace
        elif expect == "any" and not _is_plain_entry(ids):
            obs["inroot_loads_via_nonplain_id"] += 1
        W["served"].append(eff)
        return None, reached, trace
    if kind == "fixed":
        obs["fixed_replies"] += 1
        if out["gen"]:
            return dict(base, kind="generation-despite-fixed-reply"), reached, trace
        if expect == "must_load":
            return dict(base, kind="monitor-not-reached"), reached, trace
        return None, reached, trace
    # anything else: neither a generated reply nor the fixed reply
    if (kind.startswith("error:") and expect == "any" and out["paths"] and len(out["paths"]) == len(ids)
            and all(p.get("ok") for p in out["paths"]) and not out["gen"]):
        # every id named an in-root entry and every load succeeded; what failed afterwards is the combination of
        # the loaded objects (RailsConfig.__add__ / rails construction) - operator content, not id handling
        obs["post_load_errors"] += 1
        trace["got"] = "post-load-" + kind
        return None, reached, trace
    k = "id-request-" + kind
    if kind.startswith("error:") and "OSError" in (out.get("exc_mro") or []) and any(
            isinstance(i, str) and i.endswith((".yml", ".yaml")) for i in (ids or [])):
        k = "yaml-suffix-id-oserror-escapes"
    elif kind.startswith("error:") and "OSError" in (out.get("exc_mro") or []):
        k = "unloadable-id-oserror-escapes"
    return dict(base, kind=k, exc=out["exc"], exc_msg=_short(out["exc_msg"] or "", 160)), reached, trace


def _nontrivial_id(s):
    if not isinstance(s, str):
        return False
    if any(ch in s for ch in "/\\%\x00") or ".." in s or s.startswith(("~", "$")):
        return True
    if s.endswith((".yml", ".yaml")):
        return True
    return any(ord(ch) > 126 or ord(ch) < 32 for ch in s)


def _run_id_case(case):
    obs = _new_obs()
    mode = case["mode"]
    if case["fam"] == "special":
        _reset(mode)
        frag = case["frag"]
        expect = case["expect"]
        if expect == "noid":
            expect = _expect(None, mode)
        prob, reached, trace = _judge_id_request(case["label"], frag, _effective_ids(frag) if expect != "validation" else None, expect, obs)
        res = {"key": "special:%s:%s" % (case["label"], mode), "nontrivial": False, "observed": obs,
               "sample": {"family": "special", "mode": mode, "body": frag, "trace": [trace]}}
        if prob:
            return dict(res, verdict="violated", kind=prob["kind"], witness=dict(prob, mode=mode, body=frag))
        return dict(res, verdict="held")

    s1 = _resolve(case["parts"])
    s2 = _resolve(case["id2"]) if case.get("id2") else None
    valid = "cfg_a" if mode == "single" else "cfg_b"
    placements = [
        ("config_id", {"config_id": s1}),
        ("config_ids[only]", {"config_ids": [s1]}),
        ("config_ids[valid,id]", {"config_ids": [valid, s1]}),
        ("config_ids[id,valid]", {"config_ids": [s1, valid]}),
    ]
    if s2 is not None:
        placements += [("config_ids[id,id2]", {"config_ids": [s1, s2]}), ("config_ids[id2,id]", {"config_ids": [s2, s1]}),
                       ("config_id=id2", {"config_id": s2})]
    traces = []
    reached_any = False
    res = {"key": repr((case["parts"], case.get("id2"), mode)), "nontrivial": _nontrivial_id(s1) or _nontrivial_id(s2),
           "observed": obs}

    def finish(prob):
        res["sample"] = {"family": "id", "mode": mode, "id": _short(s1, 200), "id2": _short(s2, 200) if s2 else None, "trace": traces[:12]}
        if prob:
            if prob["kind"] == "monitor-not-reached":
                return dict(res, verdict="inconclusive", reason="monitor-not-reached: valid id %s did not load" % prob["ids"], nontrivial=False)
            return dict(res, verdict="violated", kind=prob["kind"],
                        witness=dict(prob, mode=mode, id=_short(s1, 400), id_atoms=case["parts"], root=W["cfg_root"]))
        if not reached_any:
            return dict(res, verdict="inconclusive", reason="monitor-not-reached: _get_rails never called", nontrivial=False)
        return dict(res, verdict="held")

    for label, frag in placements:
        _reset(mode)
        ids = _effective_ids(frag)
        prob, reached, trace = _judge_id_request(label, frag, ids, _expect(ids, mode), obs)
        traces.append(trace)
        reached_any = reached_any or reached
        if prob:
            return finish(prob)

    if WARM_CACHE_PLACEMENTS:
        # the per-config cache is warmed by legitimate requests and NOT cleared before the probed ones
        _reset(mode)
        warm = [["cfg_a"]] if mode == "single" else [["cfg_a"], ["cfg_b"], ["cfg_a", "cfg_b"], ["cfg_b", "cfg_a"], ["cfg_a", "cfg_a"]]
        for w in warm:
            prob, reached, trace = _judge_id_request("warm-up", {"config_ids": w}, w, _expect(w, mode), obs)
            if prob:
                traces.append(trace)
                return finish(prob)
        probes = [("warm:config_id", {"config_id": s1}), ("warm:config_ids[valid,id]", {"config_ids": ["cfg_a", s1]}),
                  ("warm:config_ids[id,valid]", {"config_ids": [s1, "cfg_b"]})]
        if s2 is not None:
            probes.append(("warm:config_ids[id,id2]", {"config_ids": [s1, s2]}))
        for label, frag in probes:
            ids = _effective_ids(frag)
            obs["warm_cache_requests"] += 1
            prob, reached, trace = _judge_id_request(label, frag, ids, _expect(ids, mode), obs)
            traces.append(trace)
            reached_any = reached_any or reached
            if prob:
                return finish(prob)
    return finish(None)


# ---- the thread oracle ---------------------------------------------------------------------------
def _thread_step(model, req, reply):
    """-> (messages the generation must see, model after a successful turn). Pure; 10 lines."""
    new = ([{"role": "context", "content": req["context"]}] if req.get("context") else []) + list(req["messages"])
    tid = req.get("thread_id")
    if tid is None:
        return new, model
    seen = list(model.get(tid, [])) + new
    after = dict(model)
    after[tid] = seen + [reply]
    return seen, after


def _store_snapshot():
    snap = {}
    for k, v in W["store"].data.items():
        try:
            snap[k] = json.loads(v)
        except Exception:
            snap[k] = {"_unparsable": _short(repr(v))}
    return snap


def _run_thread_case(case):
    obs = _new_obs()
    _reset("multi")
    model = {}
    order = []
    trace = []
    res = {"key": json.dumps(case["reqs"], sort_keys=True), "observed": obs, "nontrivial": False}
    checked = 0

    def viol(kind, i, req, **kw):
        w = {"kind": kind, "request_index": i, "request": json.loads(_short(json.dumps(req), 10 ** 6)),
             "requests_so_far": [{"thread_id": _short(r.get("thread_id") or "", 60) if r.get("thread_id") is not None else None,
                                  "cfg": r["cfg"], "n_messages": len(r["messages"]), "context": bool(r.get("context"))}
                                 for r in case["reqs"][: i + 1]]}
        w.update(kw)
        return dict(res, verdict="violated", kind=kind, witness=w,
                    sample={"family": "thread", "trace": trace[-12:]})

    real = bool(case.get("real"))
    if real:
        if W.get("RealRails") is None:
            return dict(res, verdict="inconclusive", reason="real-rails-unavailable: %s" % W.get("real_err"), nontrivial=False)
        obs["real_rails_cases"] = 1
    for i, req in enumerate(case["reqs"]):
        reply = None if real else {"role": "assistant", "content": "C20-REPLY-%d-%d" % (case["id"], i)}
        W["rec"]["ctl"] = {"reply": reply, "shape": req.get("shape", "dict"), "fail": bool(req.get("fail"))}
        body = dict(req["cfg"])
        body["messages"] = json.loads(json.dumps(req["messages"]))
        for f in ("thread_id", "context", "stream", "options"):
            if req.get(f) is not None:
                body[f] = req[f]
        tid = req.get("thread_id")
        before = _store_snapshot()
        out = _post(body)
        after = _store_snapshot()
        obs["requests"] += 1
        obs["generation_calls"] += len(out["gen"])
        obs["get_rails_calls"] += len(out["get_rails"])
        kind = _reply_kind(out, reply)
        if real and kind == "success":
            reply = out["json"]["messages"][0]  # whatever the real LLMRails answered
        ids = _effective_ids(req["cfg"])
        prob = _check_paths(out, ids, obs)
        if prob:
            return viol(prob["kind"], i, req, **{k: v for k, v in prob.items() if k != "kind"})
        expected_store = {"thread-" + t: m for t, m in model.items()}
        trace.append({"i": i, "thread": _short(tid, 24) if tid is not None else None, "cfg": ids, "got": kind,
                      "reply": (out["json"]["messages"][0].get("content") if real and kind == "success" else None),
                      "seen_by_generation": len(out["gen"][0]["messages"]) if out["gen"] else None,
                      "stored_len": len(after.get("thread-" + tid, [])) if tid is not None else None})
        bad_tid = tid is not None and not (16 <= len(tid) <= 255)
        if bad_tid:
            # documented validation error: nothing generated, nothing stored
            if kind != "validation" or out["gen"] or after != before:
                return viol("thread-id-validation", i, req, reply=kind, store_changed=after != before)
            obs["validation_422"] += 1
            continue
        if kind == "fixed":
            if all(x in GOOD or x in ("cfg_r", "cfg_ms", "cfg_pt") for x in ids):
                return viol("thread-request-fixed", i, req, reply=kind, why="a real config was refused")
            obs["hostile_in_thread_sequence"] += 1
            if out["gen"]:
                return viol("generation-despite-fixed-reply", i, req, reply=kind)
            obs["fixed_replies"] += 1
            if after != before:
                return viol("store-changed-by-rejected-request", i, req, before=_lens(before), after=_lens(after))
            continue
        if kind == "validation" or kind.startswith("error:") or kind == "noid" or kind == "other":
            return viol("thread-request-" + kind, i, req, reply=kind, exc=out["exc"], exc_msg=out["exc_msg"], body=out["json"])
        if tid is not None:
            obs["thread_requests"] += 1
            order.append(tid)
        seen_expected, model_after = _thread_step(model, req, reply)
        if len(out["gen"]) != 1:
            return viol("generation-count", i, req, generation_calls=len(out["gen"]), reply=kind)
        if out["gen"][0]["messages"] != seen_expected:
            return viol("thread-input-mismatch", i, req, expected=seen_expected, handed_to_generation=out["gen"][0]["messages"])
        if out["gen"][0]["streaming_handler"]:
            return viol("unexpected-streaming", i, req)
        if real:
            obs["real_rails_turns"] += 1
            if out["gen"][0].get("mutated_in_place"):
                obs["real_rails_mutated_messages"] = obs.get("real_rails_mutated_messages", 0) + 1
        if req.get("fail") or (real and kind == "internal-error"):
            obs["failed_generations"] += 1
            if kind != "internal-error":
                return viol("failed-generation-reply", i, req, reply=kind)
            obs["internal_error_replies"] += 1
            if after != before:
                return viol("store-changed-by-failed-turn", i, req, before=_lens(before), after=_lens(after))
            continue
        if kind != "success":
            return viol("thread-request-" + kind, i, req, reply=kind, body=out["json"])
        obs["success_replies"] += 1
        if case.get("pt"):
            # passthrough: what the LLM was called with is the message list of the turn, message by message and in order
            from langchain_core.messages import AIMessage, HumanMessage, SystemMessage, get_buffer_string

            cls = {"user": HumanMessage, "assistant": AIMessage, "system": SystemMessage}
            want = get_buffer_string([cls[m_["role"]](content=m_["content"]) for m_ in seen_expected])
            obs["passthrough_turns"] = obs.get("passthrough_turns", 0) + 1
            if len(seen_expected) > len(req["messages"]):
                obs["passthrough_turns_with_stored_history"] = obs.get("passthrough_turns_with_stored_history", 0) + 1
            if any(m_["role"] == "system" for m_ in seen_expected[1:]):
                obs["passthrough_turns_with_a_system_message_not_in_front"] = obs.get("passthrough_turns_with_a_system_message_not_in_front", 0) + 1
            if out["llm"] != [want]:
                return viol("llm-input-is-not-the-thread-plus-new-messages", i, req, expected_llm_input=want, llm_inputs=out["llm"][:3])
        model = model_after
        expected_store = {"thread-" + t: m for t, m in model.items()}
        obs["thread_store_checks"] += 1
        checked += 1
        if after != expected_store:
            own = "thread-" + tid if tid is not None else None
            others_changed = sorted(k for k in set(after) | set(before) if k != own and after.get(k) != before.get(k))
            if tid is None:
                k = "store-touched-without-thread"
            elif others_changed:
                k = "other-thread-changed"
            else:
                k = "thread-store-mismatch"
            return viol(k, i, req, expected_stored=expected_store.get(own), stored=after.get(own), other_keys_changed=[_short(x, 60) for x in others_changed],
                        store_keys=[_short(x, 60) for x in sorted(after)])
        obs["max_thread_len"] = max(obs.get("max_thread_len", 0), max([len(v) for v in after.values()] or [0]))
        obs["max_threads_in_store"] = max(obs.get("max_threads_in_store", 0), len(after))
    if checked == 0:
        return dict(res, verdict="inconclusive", reason="expected: no successful turn in the sequence", nontrivial=False)
    if case.get("alone"):
        # non-interference: each thread replayed alone on a fresh server state (new rails instance, empty caches and store)
        together = {}
        for j, t in enumerate(trace):
            together.setdefault(case["reqs"][t["i"]].get("thread_id"), []).append((t["i"], t.get("reply")))
        final_store = _store_snapshot()
        for tid, seq in together.items():
            if tid is None:
                continue
            _reset("multi")
            alone = []
            for i, _r in seq:
                req = case["reqs"][i]
                W["rec"]["ctl"] = {"reply": None, "shape": "dict", "fail": False}
                out = _post({"config_id": req["cfg"]["config_id"], "thread_id": tid, "messages": json.loads(json.dumps(req["messages"]))})
                obs["requests"] += 1
                alone.append(out["json"]["messages"][0].get("content") if isinstance(out.get("json"), dict) and out["json"].get("messages") else None)
            obs["threads_replayed_alone"] = obs.get("threads_replayed_alone", 0) + 1
            obs["turns_replayed_alone"] = obs.get("turns_replayed_alone", 0) + len(seq)
            got = [r for _i, r in seq]
            if got != alone or _store_snapshot().get("thread-" + tid) != final_store.get("thread-" + tid):
                k = next((x for x in range(len(got)) if x >= len(alone) or got[x] != alone[x]), None)
                return viol("thread-differs-from-the-same-thread-alone", seq[k][0] if k is not None else seq[-1][0], case["reqs"][seq[-1][0]],
                            thread=_short(tid, 40), replies_with_other_threads=got, replies_alone=alone,
                            stored_alone=_store_snapshot().get("thread-" + tid), stored_together=final_store.get("thread-" + tid))
        shared = len(set(json.dumps(final_store[k][:2]) for k in final_store)) < len(final_store)
        obs["sequences_with_identical_first_turns"] = obs.get("sequences_with_identical_first_turns", 0) + (1 if shared else 0)
    inter = _interleaved(order)
    obs["interleaved_sequences"] = 1 if inter else 0
    res["nontrivial"] = inter
    return dict(res, verdict="held", sample={"family": "thread", "trace": trace[-12:]})


def _lens(snap):
    return {_short(k, 40): (len(v) if isinstance(v, list) else v) for k, v in snap.items()}


def _interleaved(order):
    """some thread is used, then another one, then the first again"""
    for i, a in enumerate(order):
        for j in range(i + 1, len(order)):
            if order[j] != a and a in order[j + 1:]:
                return True
    return False


def run_case(case):
    if case["fam"] == "thr":
        api = W["api"]
        try:
            if case.get("real") and W.get("RealRails") is not None:
                api.LLMRails = W["RealRails"]
            return _run_thread_case(case)
        finally:
            api.LLMRails = W["StubRails"]
            api.llm_rails_instances.clear()
    return _run_id_case(case)


def classify(r):
    return r.get("kind") or (r.get("witness") or {}).get("kind") or "unclassified"


def finalize(tier, seed, observed, counts):
    need = ["paths_in_root", "fixed_replies", "success_replies", "noid_errors", "validation_422", "thread_store_checks",
            "served_from_cache", "interleaved_sequences", "failed_generations", "threads_replayed_alone",
            "sequences_with_identical_first_turns"]
    missing = [k for k in need if not observed.get(k)]
    out = {"coverage": {"reach_counters_required": need}}
    if missing:
        out["inconclusive"] = "monitor-not-reached: counters never incremented: %s" % ",".join(missing)
    return out
