"""Seeded generators of Colang 2 programs (source text) shared by C06/C09/C10/C11.

gen_hierarchy: a tree of flow definitions f1..fn under main; every flow starts /
awaits / activates its children (also inside when/else and and/or groups), waits
on events E1..E3 and starts actions whose names encode the starting flow and
statement (F<i>S<j>Action) so an observed Start/Stop event identifies its owner.
"""
import collections


def gen_hierarchy(rng, max_flows=5, depth_bias=False, with_groups=True, with_when=True, alphabet=3, with_vars=False, loops=False, main_kids_first=False, ext_end=False):
    n = rng.randint(2, max_flows)
    children = collections.defaultdict(list)
    for i in range(1, n + 1):
        p = rng.randint(max(0, i - 2), i - 1) if depth_bias else rng.randint(0, i - 1)
        children[p].append(i)
    src = []
    meta = {"flows": ["main"] + ["f%s" % _nm(i) for i in range(1, n + 1)], "how": {}, "n": n}

    def fname(i):
        return "main" if i == 0 else "f" + _nm(i)

    def body(i):
        lines = []
        acts = 0
        kids = list(children[i])
        k = rng.randint(1, 4) + len(kids)
        kinds = ["match", "act", "actwait", "match"] + (["actor"] if with_groups else [])
        if ext_end:
            kinds.append("extend")  # a flow ends ANOTHER (possibly waiting) flow from the outside: FinishFlow / StopFlow
        slots = ["kid"] * len(kids) + [rng.choice(kinds) for _ in range(k - len(kids))]
        rng.shuffle(slots)
        if i == 0 and main_kids_first:
            slots.sort(key=lambda x: x != "kid")
        if with_vars and rng.random() < 0.5:
            lines.append("  $v%d = %s" % (i, rng.choice(['{"a", "b"}', "[1, [2, {\"k\": [3]}]]", '{"k": {"z": 1}}', '"s%d"' % i, "%d" % i])))
        pending_group = []
        for sl in slots:
            if sl == "kid":
                if not kids:
                    continue
                c = kids.pop(0)
                how = rng.choice(["start", "start", "activate", "await", "when" if with_when else "await", "group" if with_groups else "start"])
                meta["how"][fname(c)] = how
                if how == "group" and kids:
                    c2 = kids.pop(0)
                    op = rng.choice(["and", "or"])
                    meta["how"][fname(c2)] = "group"
                    lines.append("  await %s %s %s" % (fname(c), op, fname(c2)))
                elif how == "group":
                    lines.append("  await %s" % fname(c))
                elif how == "when":
                    ev = "E%d" % rng.randint(1, alphabet)
                    lines.append("  when %s" % fname(c))
                    lines.append("    match %s()" % ev)
                    if rng.random() < 0.5:
                        lines.append("  or when %s()" % ("E%d" % rng.randint(1, alphabet)))
                        acts += 1
                        lines.append("    start F%dS%dAction() as $a%d" % (i, acts, acts))
                    if rng.random() < 0.5:
                        lines.append("  else")
                        lines.append("    match %s()" % ("E%d" % rng.randint(1, alphabet)))
                else:
                    lines.append("  %s %s" % (how, fname(c)))
                    if how == "activate" and rng.random() < 0.25:
                        # the same flow activates the same child once more (reference counting)
                        lines.append("  match E%d()" % rng.randint(1, alphabet))
                        lines.append("  activate %s" % fname(c))
            elif sl == "match":
                if with_groups and rng.random() < 0.2:
                    a, b = rng.sample(range(1, alphabet + 1), 2) if alphabet >= 2 else (1, 1)
                    lines.append("  match E%d() %s E%d()" % (a, rng.choice(["and", "or"]), b))
                else:
                    lines.append("  match E%d()" % rng.randint(1, alphabet))
            elif sl == "act":
                acts += 1
                lines.append("  start F%dS%dAction() as $a%d" % (i, acts, acts))
            elif sl == "actor":
                # or-/and-group written directly over actions: forked heads sit on actionable elements themselves
                acts += 2
                lines.append("  await F%dS%dAction() %s F%dS%dAction()" % (i, acts - 1, rng.choice(["or", "or", "and"]), i, acts))
            elif sl == "extend":
                others = [j for j in range(1, n + 1) if j != i]
                if others:
                    lines.append("  match E%d()" % rng.randint(1, alphabet))
                    lines.append('  send %s(flow_id="%s")' % (rng.choice(["FinishFlow", "FinishFlow", "StopFlow"]), fname(rng.choice(others))))
            elif sl == "actwait":
                acts += 1
                lines.append("  start F%dS%dAction() as $a%d" % (i, acts, acts))
                lines.append("  match $a%d.Finished()" % acts)
        if loops and i != 0 and rng.random() < 0.3:
            lines = ["  while True"] + ["  " + l for l in lines] + ["    match E%d()" % rng.randint(1, alphabet)]
        if i == 0:
            lines.append("  match Never()")
        return lines

    for i in range(0, n + 1):
        src.append("flow " + fname(i))
        src += body(i)
        src.append("")
    meta["src"] = "\n".join(src)
    return meta


def _nm(i):
    # flow names: lower-case letters only (digits would be number tokens)
    return "abcdefghij"[i]


def owner_of_action(name):
    """F3S2Action -> 'fd' (flow index 3), F0S1Action -> 'main'"""
    idx = int(name[1 : name.index("S")])
    return "main" if idx == 0 else "f" + _nm(idx)


def gen_history(rng, length, alphabet=3, extra=("X",)):
    out = []
    for _ in range(length):
        r = rng.random()
        if r < 0.1 and extra:
            out.append(rng.choice(list(extra)))
        else:
            out.append("E%d" % rng.randint(1, alphabet))
    return out
