"""C15 — conversations served by one LLMRails instance do not influence each other.

Differential monitor (shared instance vs. isolated replay on fresh instances).

Workload "seq": a set of <=3 conversations x 2-3 turns is served on ONE instance in
one interleaving of the turns (all interleavings for small sets, sampled above), every
turn as its own request (its own asyncio task, the way a server handles requests).
Workload "conc": the conversations run concurrently (one task per conversation) on a
GatedLLM: every LLM call (and, optionally, every rail action) records what it sees
and parks on a Future; the driver starts the tasks in a prescribed order and releases
the parked calls in a prescribed order. Conversations carry their own
`options={"llm_params": ...}`.
Every conversation is then replayed ALONE on a fresh instance. The LLM answers are a
function of the prompt only (table keyed by the last user utterance found in the
prompt, else a hash of the prompt / a constant), so the replay is told the same things.

Refuted by: a reply, the list of prompts, the LLM attributes (temperature, max_tokens,
model_kwargs, stop, per-call kwargs) recorded at one of the conversation's calls, or the
text shown to a rail action differing between the shared run and the isolated replay;
LLM attributes != configured whenever no request is in flight (after every turn of the
sequential workload, after the gather of the concurrent one, and in the replay itself);
a request replayed on a fresh instance AFTER the shared run differing from the same
request on a fresh instance BEFORE it (instances share nothing).
"""
import asyncio
import hashlib
import itertools
import json
import random

PROPERTY = "C15"
LEVEL = "exploration"
RULE = (
    "case = (pipeline mode in {general, dialog, single_call, passthrough, multi-step generation; a few Colang 2.x `llm continuation`} x rails, conversation set of 2-3 conversations x 1-3 turns from an "
    "adversarial text family (cache-key separator, role mimicry, JSON-looking texts, empty strings, legit shared prefixes, equal replies, plain), "
    "and EITHER one sequential interleaving of the turns (all interleavings when <=20, sampled above) OR a concurrent schedule = (task start order, "
    "release order of the parked LLM/rail calls; all orders when <=4 parked calls, sampled above) with per-conversation llm_params); "
    "non-trivial = sequential: some conversation has a foreign turn between two of its turns; concurrent: >=2 calls parked at the same time; "
    "distinct = (mode, rails, conversation set, answers, interleaving / schedule)"
)
MIN_HELD = {"quick": 150, "thorough": 1500}
MAX_INCONCLUSIVE = 0.10
EXHAUSTIVE = {"quick": False, "thorough": False}
ASSUMPTIONS = [
    "LLM answers are prompt-keyed (table on the last user utterance in the prompt, else sha1(prompt) or a constant): the isolated replay is told the same answers",
    "LLM attributes are judged at the instant _acall is entered (when a real client builds its request), and at rest",
    "each request runs in its own asyncio task with a copy of a clean context (a server's request handler); request message lists are deep-copied per call",
    "a conversation is identified by its message list: two conversations with IDENTICAL prefixes legitimately share cached events (family `prefix` checks that this sharing is harmless)",
    "Colang 2.x (no implicit cache; the caller threads the state object) is covered by a small plain-text workload only: llm continuation, 2 conversations",
    "classifier: cache-key-join only when an independent 8-line model of the role-free ':'-join says the violating request's longest cached prefix belongs to a DIFFERENT message list; "
    "llmparams-overlap only in the concurrent workload when a 15-line save/restore model fed with the observed LLMParams enter/exit order and the CORRECT per-call parameters reproduces every observed value",
]
SAMPLE_EVERY = 53
CASE_WALL_S = 120

CONFIGURED = {"temperature": 0.37, "max_tokens": 111, "model_kwargs": {"top_p": 0.93}}
LOWEST_T = 0.001
MODES = ("general", "dialog", "single_call", "passthrough", "multi_step")
LLM_CALLS_PER_TURN = {"general": 1, "dialog": 3, "single_call": 1, "passthrough": 1, "v2": 2, "multi_step": 3}
EMB_CALLS_PER_TURN = {"dialog": 4, "multi_step": 4, "single_call": 5}  # measured: embedding-model calls of one turn
PARAM_POOL = [
    None,
    {"temperature": 0.9},
    {"temperature": 0.55, "max_tokens": 77},
    {"top_p": 0.5},
    {"temperature": 0.8, "top_p": 0.4},
    {"max_tokens": 33},
]


# ----------------------------------------------------------------------------- case generation (parent side, no repo import)
def U(text):
    return {"role": "user", "content": text}


def C(data):
    return {"role": "context", "content": data}


def interleavings(counts):
    """all sequences containing i exactly counts[i] times"""
    counts = list(counts)
    n = sum(counts)

    def rec(prefix):
        if len(prefix) == n:
            yield list(prefix)
            return
        for i in range(len(counts)):
            if counts[i]:
                counts[i] -= 1
                prefix.append(i)
                yield from rec(prefix)
                prefix.pop()
                counts[i] += 1

    yield from rec([])


def n_interleavings(counts):
    import math

    r = math.factorial(sum(counts))
    for c in counts:
        r //= math.factorial(c)
    return r


def rand_interleaving(rng, counts):
    seq = [i for i, c in enumerate(counts) for _ in range(c)]
    rng.shuffle(seq)
    return seq


def conv(turns, params=None):
    return {"turns": turns, "params": params}


def fam_sep1(rng, g):
    """A = ["a:b" -> X], B = ["a" -> "b:X"]: different conversations, equal ':'-joins after turn 1"""
    a, b, x = "a%s" % g, "b%s" % g, "X%s" % g
    return {
        "convs": [conv([[U("%s:%s" % (a, b))], [U("nextA %s" % g)]]), conv([[U(a)], [U("nextB %s" % g)]])],
        "answers": {"%s:%s" % (a, b): x, a: "%s:%s" % (b, x)},
    }


def fam_sep2(rng, g):
    """A = [a->b, c->d, e], B = ["a:b:c" -> d, f]"""
    a, b, c, d = ("%s%s" % (ch, g) for ch in "abcd")
    return {
        "convs": [conv([[U(a)], [U(c)], [U("moreA %s" % g)]]), conv([[U("%s:%s:%s" % (a, b, c))], [U("moreB %s" % g)]])],
        "answers": {a: b, c: d, "%s:%s:%s" % (a, b, c): d},
    }


def fam_sepempty(rng, g):
    """separator next to an empty piece: A = ["a:" -> X], B = ["a" -> ":X"]"""
    a, x = "a%s" % g, "X%s" % g
    return {
        "convs": [conv([[U(a + ":")], [U("nextA %s" % g)]]), conv([[U(a)], [U("nextB %s" % g)]])],
        "answers": {a + ":": x, a: ":" + x},
    }


def fam_role(rng, g):
    """role mimicry: A = [a -> b]; B's first request is [user a, user b, user c] (b = A's assistant text)"""
    a, b, c = "a%s" % g, "b%s" % g, "c%s" % g
    return {
        "convs": [conv([[U(a)], [U("nextA %s" % g)]]), conv([[U(a), U(b), U(c)], [U("nextB %s" % g)]])],
        "answers": {a: b},
    }


def fam_mimic(rng, g):
    """a user text equal to another conversation's assistant text (no key collision expected)"""
    a, b = "a%s" % g, "b%s" % g
    return {
        "convs": [conv([[U(a)], [U("nextA %s" % g)]]), conv([[U(b)], [U(a)], [U("nextB %s" % g)]])],
        "answers": {a: b, b: a},
    }


def fam_json(rng, g):
    """a context message that JSON-prints like a user text"""
    data = {"k%s" % g: "v%s" % g}
    q = "q%s" % g
    return {
        "convs": [conv([[C(data), U(q)], [U("nextA %s" % g)]]), conv([[U(json.dumps(data)), U(q)], [U("nextB %s" % g)]])],
        "answers": {q: "r%s" % g},
        "modes": ("general", "dialog", "single_call"),  # passthrough forwards the raw messages: a context message is an error there
    }


def fam_empty(rng, g):
    """empty strings as pieces: A = [a -> r, "" -> s, ..], B = ["a:r:" -> s, ..]: both histories join to "a:r::s" """
    a, r, s = "a%s" % g, "r%s" % g, "s%s" % g
    return {
        "convs": [conv([[U(a)], [U("")], [U("nextA %s" % g)]]), conv([[U("%s:%s:" % (a, r))], [U("nextB %s" % g)]])],
        "answers": {a: r, "": s, "%s:%s:" % (a, r): s},
    }


def fam_prefix(rng, g):
    """legit sharing: identical first turn (same text, same reply), then the conversations diverge"""
    h = "hello %s" % g
    return {
        "convs": [conv([[U(h)], [U("xA %s" % g)], [U("yA %s" % g)]]), conv([[U(h)], [U("xB %s" % g)]])],
        "answers": {},
        "default": rng.choice(["const", "hash"]),
    }


def fam_samereply(rng, g):
    """different histories, the same assistant text everywhere"""
    n = rng.choice([2, 2, 3])
    return {
        "convs": [conv([[U("%s%d %s" % ("pqr"[i], t, g))] for t in range(rng.choice([2, 3]))]) for i in range(n)],
        "answers": {},
        "default": "const",
    }


def fam_plain(rng, g):
    n = rng.choice([2, 2, 3])
    cs = []
    for i in range(n):
        turns = []
        for t in range(rng.choice([2, 2, 3])):
            msgs = []
            if t == 0 and rng.random() < 0.3:
                msgs.append(C({"name%d" % i: "N%s%d" % (g, i)}))
            msgs.append(U("%s%d says w%d %s" % ("uvw"[i], t, rng.randint(0, 99), g)))
            turns.append(msgs)
        cs.append(conv(turns))
    return {"convs": cs, "answers": {}, "default": rng.choice(["hash", "hash", "const"])}


def fam_params(rng, g):
    """sequential, every conversation with its own llm_params"""
    d = fam_plain(rng, g)
    pool = [p for p in PARAM_POOL if p]
    rng.shuffle(pool)
    for i, c in enumerate(d["convs"]):
        c["params"] = pool[i]
    if rng.random() < 0.25:
        d["convs"][0]["params"] = {"temperature": 0.6, "top_k": 7}  # a key the LLM object does not have yet
    return d


def fam_genflows(rng, g):
    """multi-step generation only: the flows the LLM writes differ in KIND per conversation - one that spans several turns
    (waits for the user), one that fails after it has started (error in an expression / endless loop), ordinary ones."""
    kinds = ["WAITFLOW", rng.choice(["FAILFLOW", "FAILFLOW", "LOOPFLOW"])] + [rng.choice(["WAITFLOW", "FAILFLOW", "LOOPFLOW", "plain"]) for _ in range(rng.choice([0, 1]))]
    rng.shuffle(kinds)
    cs = []
    for i, kd in enumerate(kinds):
        turns = [[U("%s %s%d opens %s" % (kd, "uvw"[i], rng.randint(0, 99), g))]]
        for t in range(rng.choice([1, 1, 2]) if kd == "WAITFLOW" else rng.choice([0, 1])):
            turns.append([U("NAMEIS %s%d-%d %s" % ("uvw"[i], t, rng.randint(0, 99), g))])
        cs.append(conv(turns))
    return {"convs": cs, "answers": {}, "default": "hash", "modes": ("multi_step",)}


def fam_overflow(rng, g):
    """general mode with a length limit on the prompt (max_length 700): every conversation outgrows it, so the oldest part of
    its history is cut from the prompt - by a different amount for each conversation (many medium turns / one long message
    followed by short ones / short turns only)"""
    def medium(i, t):
        return "%s%d medium %s " % ("uvw"[i], t, g) + "lorem ipsum dolor sit amet " * rng.randint(4, 6)

    shapes = ["many-medium", "long-then-short"] + [rng.choice(["many-medium", "long-then-short", "short"]) for _ in range(rng.choice([0, 1]))]
    rng.shuffle(shapes)
    cs = []
    for i, sh in enumerate(shapes):
        if sh == "many-medium":
            turns = [[U(medium(i, t))] for t in range(rng.randint(5, 7))]
        elif sh == "long-then-short":
            turns = [[U("%s0 long %s " % ("uvw"[i], g) + "consectetur adipiscing elit " * rng.randint(10, 12))]] + [[U("%s%d short %s" % ("uvw"[i], t, g))] for t in range(1, rng.randint(4, 5))]
        else:
            turns = [[U("%s%d tiny %s" % ("uvw"[i], t, g))] for t in range(rng.randint(2, 3))]
        cs.append(conv(turns))
    return {"convs": cs, "answers": {}, "default": "hash", "modes": ("general",), "tight": True}


SEQ_FAMILIES = [
    ("overflow", fam_overflow, 3),
    ("genflows", fam_genflows, 4),
    ("sep1", fam_sep1, 3),
    ("sep2", fam_sep2, 2),
    ("sepempty", fam_sepempty, 1),
    ("role", fam_role, 2),
    ("mimic", fam_mimic, 1),
    ("json", fam_json, 2),
    ("empty", fam_empty, 1),
    ("prefix", fam_prefix, 3),
    ("samereply", fam_samereply, 3),
    ("plain", fam_plain, 3),
    ("params", fam_params, 2),
]


def _rails(rng):
    return rng.choice([(0, 0), (0, 0), (1, 0), (1, 1)])


def seq_cases(tier, seed):
    rng = random.Random(1500 + seed)
    rounds = 1 if tier == "quick" else 8
    max_per_set = 6 if tier == "quick" else 20
    gi = 0
    for rnd in range(rounds):
        for name, fam, weight in SEQ_FAMILIES:
            for _ in range(weight):
                gi += 1
                g = "g%d" % gi
                d = fam(rng, g)
                modes = d.pop("modes", MODES)
                tight = d.pop("tight", False)
                mode = modes[(gi + rnd + seed) % len(modes)] if rng.random() < 0.7 else rng.choice(modes)
                k, m = _rails(rng)
                if mode == "passthrough":
                    for c in d["convs"]:
                        c["turns"] = [[x for x in t if x["role"] != "context"] for t in c["turns"]]
                counts = [len(c["turns"]) for c in d["convs"]]
                total = n_interleavings(counts)
                if total <= max_per_set:
                    orders = list(interleavings(counts))
                    exhaustive = True
                else:
                    seen = set()
                    orders = []
                    # the two "closest" interleavings are always in: round-robin both ways
                    for o in (_round_robin(counts, False), _round_robin(counts, True)):
                        if tuple(o) not in seen:
                            seen.add(tuple(o))
                            orders.append(o)
                    while len(orders) < max_per_set:
                        o = rand_interleaving(rng, counts)
                        if tuple(o) not in seen:
                            seen.add(tuple(o))
                            orders.append(o)
                    exhaustive = False
                for o in orders:
                    yield {
                        "wl": "seq", "fam": name, "mode": mode, "k": k, "m": m, "convs": d["convs"], "answers": d["answers"],
                        "default": d.get("default", "hash"), "order": o, "tag": g, "all_orders": exhaustive, "tight": tight,
                    }


def seq_cases_v2(tier, seed):
    """Colang 2.x: no implicit cache, the caller threads each conversation's state object; the instance is still shared"""
    rng = random.Random(3500 + seed)
    nsets, per_set = (1, 3) if tier == "quick" else (6, 6)
    for i in range(nsets):
        g = "z%d" % i
        convs = [conv([[U("%s%d wonders w%d %s" % ("uv"[c], t, rng.randint(0, 99), g))] for t in range(2)]) for c in range(2)]
        orders = list(interleavings([2, 2]))
        rng.shuffle(orders)
        for o in orders[:per_set]:
            yield {"wl": "seq", "fam": "v2plain", "mode": "v2", "k": 0, "m": 0, "convs": convs, "answers": {}, "default": "hash", "order": o, "tag": g, "all_orders": per_set >= 6}


def _round_robin(counts, rev):
    left = list(counts)
    out = []
    idx = list(range(len(counts)))
    if rev:
        idx.reverse()
    while sum(left):
        for i in idx:
            if left[i]:
                left[i] -= 1
                out.append(i)
    return out


def conc_cases(tier, seed):
    rng = random.Random(2500 + seed)
    rounds = 1 if tier == "quick" else 6
    max_sched = 12 if tier == "quick" else 40
    gi = 0
    shapes = [
        # (mode, n conversations, turns, k gated input rail, m gated output rail)
        ("general", 2, 1, 0, 0),
        ("general", 2, 2, 0, 0),
        ("general", 3, 1, 0, 0),
        ("passthrough", 2, 1, 1, 0),
        ("passthrough", 2, 2, 0, 0),
        ("passthrough", 2, 2, 1, 0),  # a suspension (gated rail) between the request's set-up and its first LLM call, with history
        ("single_call", 2, 1, 0, 0),
        ("single_call", 3, 1, 0, 0),
        ("dialog", 2, 1, 0, 0),
        ("dialog", 2, 1, 1, 1),
        ("dialog", 3, 1, 0, 0),
        ("dialog", 2, 2, 0, 0),
        ("multi_step", 2, 1, 0, 0),
        # the embedding model is a suspension point too (user-message / flows / bot-messages index searches): gated like the LLM
        ("dialog", 2, 1, 0, 0, "emb"),
        ("dialog", 2, 2, 0, 0, "emb"),
        ("dialog", 2, 1, 0, 0, "emb-sametext"),
        ("dialog", 3, 1, 0, 0, "emb-sametext"),
        ("general", 2, 1, 1, 1),
        ("general", 3, 2, 1, 0),
        ("v2", 2, 1, 0, 0),
    ]
    for rnd in range(rounds):
        for shape in shapes:
            mode, n, turns, k, m = shape[:5]
            emb = shape[5] if len(shape) > 5 else None
            if mode == "v2" and rnd % 2:
                continue  # 2.x instances are an order of magnitude more expensive to build
            gi += 1
            g = "h%d" % gi
            pool = list(PARAM_POOL)
            rng.shuffle(pool)
            if rnd % 2 == 0 and None not in pool[:n]:
                pool[rng.randrange(n)] = None  # a conversation without options sees the others' parameters best
            convs = [conv([[U("%s%d asks w%d %s" % ("uvw"[i], t, rng.randint(0, 99), g))] for t in range(turns)], pool[i]) for i in range(n)]
            if emb == "emb-sametext":
                # the conversations open with the very same user text (their later turns differ)
                for cv in convs[1:]:
                    cv["turns"][0] = [U(convs[0]["turns"][0][0]["content"])]
            per_turn = k + LLM_CALLS_PER_TURN[mode] + m + (EMB_CALLS_PER_TURN.get(mode, 0) if emb else 0)
            counts = [turns * per_turn] * n
            starts = list(itertools.permutations(range(n)))
            total_calls = sum(counts)
            scheds = []
            if total_calls <= 4 and mode != "v2":
                for s in starts:
                    for r in interleavings(counts):
                        scheds.append((list(s), r))
                exhaustive = True
            else:
                seen = set()
                tries = 0
                while len(scheds) < (max_sched if mode != "v2" else max_sched // 2) and tries < 1000:
                    tries += 1
                    s = list(rng.choice(starts))
                    r = rand_interleaving(rng, counts) if tries > 2 else _round_robin(counts, tries == 2)
                    key = (tuple(s), tuple(r))
                    if key not in seen:
                        seen.add(key)
                        scheds.append((s, r))
                exhaustive = False
            for s, r in scheds:
                yield {
                    "wl": "conc", "fam": "conc", "mode": mode, "k": k, "m": m, "convs": convs, "answers": {}, "default": rng.choice(["hash", "const"]),
                    "start": s, "release": r, "tag": g, "all_orders": exhaustive, "gate_rails": True, "gate_emb": bool(emb),
                }


def cancel_cases(tier, seed):
    """a request is abandoned by its client (task cancelled) while one of its LLM calls is in flight; afterwards the instance
    serves another conversation"""
    rng = random.Random(3500 + seed)
    for n in range(24 if tier == "quick" else 240):
        mode = rng.choice(["general", "dialog", "dialog", "single_call", "passthrough"])
        g = "x%d" % n
        yield {"wl": "cancel", "fam": "cancel", "mode": mode, "k": 0, "m": 0, "cancel_at": rng.randint(0, LLM_CALLS_PER_TURN[mode] - 1),
               "convs": [conv([[U("a0 abandoned %s" % g)]], rng.choice(PARAM_POOL)), conv([[U("b0 served later %s" % g)], [U("b1 again %s" % g)]], rng.choice([None, None] + PARAM_POOL[1:3]))],
               "answers": {}, "default": "hash", "tag": g}


V2TEACH_SRC = (
    "flow main\n  activate teacher\n  activate forgetter\n  activate asker\n  match Never()\n\n"
    "flow teacher\n  match Teach()\n  $src = await FetchSourceAction()\n  await AddFlowsAction(config=$src)\n  send Learned()\n\n"
    "flow forgetter\n  match Forget()\n  await RemoveFlowsAction(flow_ids=[\"taught a\"])\n  send Forgot()\n\n"
    "flow asker\n  match Ask()\n  $d = await CheckFlowDefinedAction(flow_id=\"taught a\")\n  send Result(defined=$d)\n"
)


def v2teach_cases(tier, seed):
    """Colang 2.x, flows added / removed at run time (AddFlowsAction / RemoveFlowsAction: what the library's flow-generation flows
    do with LLM-written flows): two conversations on ONE LLMRails instance, each threading its own state through
    LLMRails.process_events_async; what one conversation learned or forgot must not show in the other."""
    rng = random.Random(3700 + seed)
    for i in range(12 if tier == "quick" else 120):
        convs = [[rng.choice(["Teach", "Ask", "Ask", "Forget"]) for _ in range(rng.randint(2, 4))] for _c in range(2)]
        if i < 4:
            convs = [["Teach", "Ask"], ["Ask", "Ask"]] if i % 2 == 0 else [["Ask", "Forget", "Ask"], ["Teach", "Ask", "Ask"]]
        order = rand_interleaving(rng, [len(c) for c in convs])
        yield {"wl": "v2teach", "fam": "v2teach", "mode": "v2", "k": 0, "m": 0, "convs": convs, "answers": {}, "default": "none", "order": order}


def run_v2teach(case):
    W = _W
    L = W["L"]
    rails = W["rails"]
    convs, order = case["convs"], case["order"]
    base = {"key": json.dumps(["v2teach", convs, order]), "wl": "v2teach", "fam": "v2teach", "mode": "v2",
            "sample": {"workload": "v2teach", "program": V2TEACH_SRC, "conversations": convs, "schedule": order}}
    obs = {"wl_v2teach": 1, "fam_v2teach": 1, "mode_v2": 1, "turns_compared": 0, "v2teach_flag_values_seen": 0}

    def mk():
        cfg = L["RailsConfig"].from_content(V2TEACH_SRC, 'colang_version: "2.x"\n' + rails.MAIN_MODELS)
        app = L["LLMRails"](cfg, llm=L["RecLLM"](script=lambda prompt: "", log=rails.Log()))

        async def fetch_source():
            return "flow taught a\n  send Bonjour()\n"

        app.register_action(fetch_source, "FetchSourceAction")
        return app

    async def turn(app, state, ev):
        out, state = await asyncio.wait_for(app.process_events_async([{"type": ev}], state), 60)
        return [(o.get("type"), o.get("defined")) for o in out if o.get("type") in ("Learned", "Forgot", "Result")], state

    async def play():
        shared = mk()
        states = [None] * len(convs)
        pos = [0] * len(convs)
        got = [[] for _ in convs]
        for who in order:
            r, states[who] = await turn(shared, states[who], convs[who][pos[who]])
            pos[who] += 1
            got[who].append(r)
        alone = []
        for c in convs:
            app, st, res = mk(), None, []
            for ev in c:
                r, st = await turn(app, st, ev)
                res.append(r)
            alone.append(res)
        return got, alone

    steps = W.get("steps")
    try:
        got, alone = _run(play())
    except Exception as e:
        return dict(base, verdict="inconclusive", reason="v2teach-run-raised:%s" % type(e).__name__, detail=str(e)[:300], observed=obs, nontrivial=False)
    flags = set()
    for who in range(len(convs)):
        for t, (a, b) in enumerate(zip(got[who], alone[who])):
            obs["turns_compared"] += 1
            flags.update(x[1] for x in b if x[0] == "Result")
            if a != b:
                return dict(base, verdict="violated", mech=["v2-runtime-flows-shared-between-conversations"], observed=obs, nontrivial=True,
                            witness={"program": V2TEACH_SRC, "conversations": convs, "schedule": order, "conversation": who, "turn": t, "event": convs[who][t],
                                     "on_shared_instance": a, "alone_on_fresh_instance": b, "driven_through": "LLMRails.process_events_async"})
    obs["v2teach_flag_values_seen"] = len(flags)
    if not flags:
        return dict(base, verdict="inconclusive", reason="expected: no Ask in the sequence", observed=obs, nontrivial=False)
    return dict(base, verdict="held", observed=obs, nontrivial=len(set(order)) > 1)


def cases(tier, seed):
    i = 0
    a, b = itertools.chain(seq_cases(tier, seed), seq_cases_v2(tier, seed), v2teach_cases(tier, seed)), itertools.chain(conc_cases(tier, seed), cancel_cases(tier, seed))
    # alternate so that a --limit run sees both workloads
    for x, y in itertools.zip_longest(a, b):
        for c in (x, y):
            if c is not None:
                i += 1
                c["id"] = i
                yield c


# ----------------------------------------------------------------------------- worker side
_W = {}


def setup_worker():
    import contextvars
    from typing import Any

    from . import rails

    L = rails.load()
    RecLLM = L["RecLLM"]
    cur = contextvars.ContextVar("vp_c15_conv", default=None)

    class GatedLLM(RecLLM):
        """records (conversation, prompt, attributes at call time), then parks until the driver releases the call"""

        gate: Any = None

        async def _acall(self, prompt, stop=None, run_manager=None, **kw):
            import asyncio

            who = cur.get()
            self.log.add(
                "llm", conv=who, prompt=prompt, stop=list(stop) if stop else None, temperature=self.temperature, max_tokens=self.max_tokens,
                model_kwargs=dict(self.model_kwargs), kw={k: v for k, v in sorted(kw.items())},
            )
            g = self.gate
            if g is not None:
                fut = asyncio.get_running_loop().create_future()
                g.park(who, "llm", fut)
                await fut
                self.log.add("released", conv=who, what="llm")
            return self.script(prompt, who)

        def _call(self, prompt, stop=None, run_manager=None, **kw):
            raise RuntimeError("sync LLM path is not part of this workload")

    # the offline embedding model becomes a gated suspension point when a case asks for it
    H = L["HashEmbedding"]
    if not getattr(H, "_vp_c15_gated", False):
        async def encode_async(self, documents):
            import asyncio

            g = _W.get("emb_gate")
            if g is not None:
                who = cur.get()
                lg = _W.get("emb_log")
                if lg is not None:
                    lg.add("emb", conv=who, texts=list(documents))
                fut = asyncio.get_running_loop().create_future()
                g.park(who, "emb", fut)
                await fut
            return self.encode(documents)

        H.encode_async = encode_async
        H._vp_c15_gated = True
    # observation hook for the classifier only: order of LLMParams enter / exit on the logical clock
    hooked = False
    try:
        from nemoguardrails.llm import params as P

        cls = P.LLMParams
        oe, ox = cls.__enter__, cls.__exit__
        counter = itertools.count(1)

        def enter(self):
            r = oe(self)
            lg = getattr(self.llm, "log", None)
            if lg is not None and hasattr(lg, "add"):
                self._vp_ctx = next(counter)
                lg.add("pe", ctx=self._vp_ctx, conv=cur.get(), altered=dict(self.altered_params))
            return r

        def exit_(self, *a):
            r = ox(self, *a)
            lg = getattr(self.llm, "log", None)
            if lg is not None and hasattr(lg, "add"):
                lg.add("px", ctx=getattr(self, "_vp_ctx", None), conv=cur.get())
            return r

        cls.__enter__, cls.__exit__ = enter, exit_
        hooked = True
    except Exception:
        hooked = False
    _W.update(L=L, GatedLLM=GatedLLM, cur=cur, rails=rails, hooked=hooked, loop=None)


class Gate:
    def __init__(self):
        self.parked = []  # [conv, what, future, released]
        self.max_in_flight = 0

    def park(self, who, what, fut):
        self.parked.append([who, what, fut, False])
        self.max_in_flight = max(self.max_in_flight, len(self.waiting()))

    def waiting(self):
        return [p for p in self.parked if not p[3]]


class DriverStuck(Exception):
    pass


def last_user(prompt):
    for line in reversed(prompt.split("\n")):
        if line.startswith('user "') and line.endswith('"'):
            return line[6:-1]
        if line.startswith("User: "):
            return line[6:]
        if line == "User:":
            return ""
        if line.startswith("Human: "):
            return line[7:]
        if line == "Human:":
            return ""
    return None


def conv_keys(case):
    """what distinguishes the LLM's sampling between conversations: a digest of everything the conversation's FIRST request
    carries - conversations that begin identically (families `prefix`, `samereply`) are told the same things, as the
    history cache, which identifies a conversation by its message list, legitimately assumes"""
    return {i: hashlib.sha1(json.dumps(c["turns"][0], sort_keys=True).encode()).hexdigest()[:10] for i, c in enumerate(case["convs"])}


def make_script(mode, answers, default, keys=None):
    keys = keys or {}
    def reply(prompt):
        u = last_user(prompt)
        if u is not None and u in answers:
            return answers[u]
        if default == "const":
            return "Sure thing."
        return "H" + hashlib.sha1(prompt.encode()).hexdigest()[:8]

    def script(prompt, who=None):
        tail = prompt.rstrip("\n").split("\n")[-1]
        if mode == "v2":
            if "user intent:" in tail:
                return "user asked something"
            return 'bot intent: bot answer\nbot action: bot say "%s"' % reply(prompt)
        if mode == "dialog":
            if tail.startswith('user "'):
                return "  ask something"
            if tail.startswith("user ask"):
                return "bot answer something"
            return '  "%s"' % reply(prompt)
        if mode == "multi_step":
            # no flow handles the intent: the LLM writes the next steps as a small flow, different for every conversation
            if tail.startswith('user "NAMEIS'):
                return "  provide name"
            for kd in ("WAITFLOW", "FAILFLOW", "LOOPFLOW"):
                if tail.startswith('user "' + kd):
                    return "  ask " + kd.lower()
            if tail.startswith('user "'):
                # two intents, chosen by the text: conversations reach the SAME intent with DIFFERENT intent histories
                return "  ask other" if int(hashlib.sha1(tail.encode()).hexdigest()[:2], 16) % 2 else "  ask something"
            if tail.startswith("user ask") and tail.endswith("flow"):
                # (the texts are not part of this prompt: the kind of flow the LLM writes is keyed on the intent)
                slug = "".join("abcdefghij"[int(c, 16) % 10] for c in hashlib.sha1(("%s|conv%s" % (prompt, keys.get(who))).encode()).hexdigest()[:6])
                if tail.endswith("waitflow"):  # a generated flow that spans several turns
                    return "bot ask %s\nuser provide name\nbot thank %s\nuser provide name\nbot bye %s" % (slug, slug, slug)
                if tail.endswith("failflow"):  # a generated flow that fails after it has started
                    return "bot answer %s\n$x = 1/0\nbot never %s" % (slug, slug)
                if tail.endswith("loopflow"):  # a generated flow that never ends
                    return "bot answer %s\n$n = 0\nwhile $n < 1\n  bot again %s" % (slug, slug)
            if tail.startswith("user ask") or tail.startswith("user provide"):
                # (the next-steps prompt shows intents only, no texts: two conversations with the same intent history would
                #  be told the same steps. A real LLM samples: the steps written for one conversation differ from those
                #  written for another - here by conversation index, the same in the shared run and in the isolated replay)
                slug = "".join("abcdefghij"[int(c, 16) % 10] for c in hashlib.sha1(("%s|conv%s" % (reply(prompt), keys.get(who))).encode()).hexdigest()[:6])
                return "bot answer %s\nbot add %s" % (slug, slug[::-1])
            return '  "%s"' % reply(prompt)
        if mode == "single_call":
            return '  ask something\nbot answer something\n  "%s"' % reply(prompt)
        return reply(prompt)

    return script


class Inst:
    """one LLMRails instance + recording LLM + recording (optionally gated) rail actions"""

    def __init__(self, case):
        W = _W
        rails = W["rails"]
        L = W["L"]
        k, m, mode = case["k"], case["m"], case["mode"]
        self.v2 = mode == "v2"
        if self.v2:
            k = m = 0
            co, y = rails.build_v2({"ver": "v2", "k": 0, "m": 0})
        else:
            spec = {"ver": "v1", "k": k, "m": m, "mode": mode, "in_shapes": ["allowed"] * k, "out_shapes": ["allowed"] * m}
            co, y = rails.build_v1(spec)
            if case.get("tight"):
                # a length limit on the general prompt: the oldest events of the history are dropped until the prompt fits
                y += ("prompts:\n  - task: general\n    models:\n      - openai/gpt-3.5-turbo-instruct\n    max_length: 700\n    content: |-\n      {{ general_instructions }}\n\n"
                      "      {{ history | user_assistant_sequence }}\n      Assistant:\n")
        cfg = L["RailsConfig"].from_content(co, y)
        self.log = rails.Log()
        self.last_state = {}
        self.gate = None
        self.gate_rails = False
        self.llm = W["GatedLLM"](script=make_script(mode, case["answers"], case["default"], conv_keys(case)), log=self.log)
        self.app = L["LLMRails"](cfg, llm=self.llm)
        if mode == "multi_step" and hasattr(self.app.runtime, "max_events"):
            # the runtime's event budget per request (500 by default; every event replays the history): an endless generated
            # flow is cut off after 100 events instead - on the shared instance and in the isolated replays alike
            self.app.runtime.max_events = 100
        for i in range(k):
            self.app.register_action(self._rail("in", i), "vin%d" % i)
        for i in range(m):
            self.app.register_action(self._rail("out", i), "vout%d" % i)

    def _rail(self, side, i):
        import asyncio
        from typing import Optional

        cur = _W["cur"]

        async def f(context: Optional[dict] = None):
            who = cur.get()
            text = (context or {}).get("user_message" if side == "in" else "bot_message")
            self.log.add("rail", conv=who, side=side, text=text)
            if self.gate is not None and self.gate_rails:
                fut = asyncio.get_running_loop().create_future()
                self.gate.park(who, "rail", fut)
                await fut
                self.log.add("released", conv=who, what="rail")
            return True

        f.__name__ = "v%s%d" % (side, i)
        return f

    def rest(self):
        return {"temperature": self.llm.temperature, "max_tokens": self.llm.max_tokens, "model_kwargs": dict(self.llm.model_kwargs)}


def _options(c):
    return {"llm_params": dict(c["params"])} if c.get("params") else None


async def _request(inst, who, messages, options, state=None):
    """one request = one task with its own copy of a clean context; returns (reply, exception[, new state for 2.x])"""
    import asyncio
    import contextvars
    import copy

    cur = _W["cur"]

    async def body():
        cur.set(who)
        try:
            if inst.v2:
                r = await inst.app.generate_async(messages=copy.deepcopy(messages), options=copy.deepcopy(options), state=copy.deepcopy(state) if state else {})
            else:
                r = await inst.app.generate_async(messages=copy.deepcopy(messages), options=copy.deepcopy(options))
        except Exception as e:
            return None, "%s: %s" % (type(e).__name__, str(e)[:160])
        if inst.v2:
            inst.last_state[who] = getattr(r, "state", None)
        if options is not None or inst.v2:
            resp = getattr(r, "response", r)
            msg = resp[0] if isinstance(resp, list) and resp else resp
        else:
            msg = r
        if not isinstance(msg, dict):
            return {"role": "?", "content": repr(msg)[:200]}, None
        return {"role": msg.get("role"), "content": msg.get("content") if isinstance(msg.get("content"), str) else repr(msg.get("content"))[:200]}, None

    t = asyncio.get_running_loop().create_task(body(), context=contextvars.Context())
    return await t


async def _serve(inst, who, history, add, c):
    """1.0: the caller resends the whole history; 2.x: the caller sends the new messages and the state object it was handed"""
    if inst.v2:
        return await _request(inst, who, add, _options(c), state=inst.last_state.get(who))
    return await _request(inst, who, history, _options(c))


def _turn_record(log_items, who, reply, exc, request):
    calls = [
        {"prompt": e["prompt"], "temperature": e["temperature"], "max_tokens": e["max_tokens"], "model_kwargs": e["model_kwargs"], "stop": e["stop"], "kw": e["kw"]}
        for e in log_items
        if e["kind"] == "llm" and e["conv"] == who
    ]
    seen = [[e["side"], e["text"]] for e in log_items if e["kind"] == "rail" and e["conv"] == who]
    return {"reply": reply, "exc": exc, "calls": calls, "rail": seen, "request": request}


async def run_alone(inst, who, c):
    """the conversation alone: list of turn records + at-rest attributes after every turn"""
    msgs = []
    out = []
    rests = []
    for t, add in enumerate(c["turns"]):
        msgs.extend(add)
        n0 = len(inst.log.items)
        reply, exc = await _serve(inst, who, msgs, add, c)
        out.append(_turn_record(inst.log.items[n0:], who, reply, exc, list(msgs)))
        rests.append(inst.rest())
        if reply is None:
            break
        msgs.append(reply)
    return out, rests


async def run_seq(inst, case):
    convs = case["convs"]
    msgs = [[] for _ in convs]
    nxt = [0] * len(convs)
    dead = set()
    out = [[] for _ in convs]
    rests = []
    served = []  # (conv, turn) in serving order
    for who in case["order"]:
        if who in dead:
            continue
        c = convs[who]
        t = nxt[who]
        nxt[who] += 1
        msgs[who].extend(c["turns"][t])
        n0 = len(inst.log.items)
        reply, exc = await _serve(inst, who, msgs[who], c["turns"][t], c)
        out[who].append(_turn_record(inst.log.items[n0:], who, reply, exc, list(msgs[who])))
        served.append([who, t])
        rests.append([who, t, inst.rest()])
        if reply is None:
            dead.add(who)
            continue
        msgs[who].append(reply)
    return out, rests, served


async def run_conc(inst, case):
    import asyncio

    convs = case["convs"]
    gate = Gate()
    inst.gate = gate
    inst.llm.gate = gate
    inst.gate_rails = bool(case.get("gate_rails"))
    _W["emb_gate"] = gate if case.get("gate_emb") else None
    _W["emb_log"] = inst.log if case.get("gate_emb") else None
    loop = asyncio.get_running_loop()
    results = {}

    async def one(who):
        c = convs[who]
        msgs = []
        recs = []
        for t, add in enumerate(c["turns"]):
            msgs.extend(add)
            reply, exc = await _serve(inst, who, msgs, add, c)
            recs.append({"reply": reply, "exc": exc, "request": list(msgs)})
            if reply is None:
                break
            msgs.append(reply)
        results[who] = recs

    tasks = {}
    for who in case["start"]:
        tasks[who] = loop.create_task(one(who))
    plan = list(case["release"])
    actual = []
    fallback = 0
    spins_total = 0

    async def settle():
        nonlocal spins_total
        spins = 0
        while True:
            live = [w for w, t in tasks.items() if not t.done()]
            waiting = {p[0] for p in gate.waiting()}
            if all(w in waiting for w in live):
                return live
            spins += 1
            spins_total += 1
            if spins > 50000:
                raise DriverStuck("tasks neither parked nor done after %d spins" % spins)
            await asyncio.sleep(0 if spins < 5000 else 0.001)

    try:
        while True:
            live = await settle()
            if not live:
                break
            waiting = gate.waiting()
            pick = None
            while plan:
                w = plan.pop(0)
                cand = [p for p in waiting if p[0] == w]
                if cand:
                    pick = cand[0]
                    break
                if w in tasks and tasks[w].done():
                    continue  # the plan had more calls for w than w made
                fallback += 1
            if pick is None:
                fallback += 1
                pick = waiting[0]
            pick[3] = True
            actual.append(pick[0])
            inst.log.add("release", conv=pick[0], what=pick[1])
            pick[2].set_result(None)
        await asyncio.gather(*tasks.values())
    finally:
        for t in tasks.values():
            if not t.done():
                t.cancel()
        inst.gate = None
        inst.llm.gate = None
        _W["emb_gate"] = None
        _W["emb_log"] = None
    out = []
    for who in range(len(convs)):
        recs = results.get(who, [])
        items = inst.log.items
        # calls of one conversation are sequential; split them per turn by the isolated call counts later (kept flat here)
        flat = _turn_record(items, who, None, None, None)
        out.append({"turns": recs, "calls": flat["calls"], "rail": flat["rail"]})
    return out, inst.rest(), {"actual": actual, "fallback": fallback, "max_in_flight": gate.max_in_flight, "spins": spins_total}


async def run_cancel(inst, case):
    """conversation 0 is started; its LLM calls park on the gate; call number `cancel_at` is not released - the task is cancelled
    instead (what a server does when the client went away / a timeout fired). Then conversation 1 is served, ungated."""
    import asyncio

    convs = case["convs"]
    gate = Gate()
    inst.gate = gate
    inst.llm.gate = gate
    loop = asyncio.get_running_loop()
    c0 = convs[0]

    async def first():
        msgs = list(c0["turns"][0])
        return await _serve(inst, 0, msgs, c0["turns"][0], c0)

    task = loop.create_task(first())
    parked = 0
    cancelled_at = None
    try:
        for _ in range(200000):
            await asyncio.sleep(0)
            if task.done():
                break
            w = gate.waiting()
            if w:
                if parked == case["cancel_at"]:
                    cancelled_at = parked
                    task.cancel()
                    try:
                        await task
                    except BaseException:
                        pass
                    break
                parked += 1
                w[0][3] = True
                w[0][2].set_result(None)
    finally:
        if not task.done():
            task.cancel()
        inst.gate = None
        inst.llm.gate = None
    rest_after_cancel = inst.rest()
    recs, rests = await run_alone(inst, 1, convs[1])
    return cancelled_at, rest_after_cancel, recs, rests


# ----------------------------------------------------------------------------- oracles and the two mechanism models
def join_key(msgs):
    """independent statement of the role-free ':'-join (NOT the repo function)"""
    items = []
    for m in msgs:
        if m["role"] in ("user", "assistant"):
            items.append(m["content"] if isinstance(m["content"], str) else json.dumps(m["content"]))
        elif m["role"] == "context":
            items.append(json.dumps(m["content"]))
    return ":".join(items)


def _norm(msgs):
    return [[m["role"], m["content"]] for m in msgs]


def taint_model(requests):
    """requests: [(conv, turn, request messages, reply or None)] in serving order -> {(conv, turn): reason} for lookups that land on a different list"""
    cache = {}
    tainted = {}
    collisions = 0
    for who, t, req, reply in requests:
        hit = None
        for p in range(len(req) - 1, 0, -1):
            e = cache.get(join_key(req[:p]))
            if e is not None:
                hit = (p, e)
                break
        bad = None
        if hit is not None:
            p, (stored, owner, st) = hit
            if stored != _norm(req[:p]):
                bad = "prefix %r of conv %d resolves to the events of conv %d's %r" % (join_key(req[:p]), who, owner, stored)
                collisions += 1
            elif st:
                bad = "prefix cached from a request that itself resolved to foreign events"
        if bad:
            tainted[(who, t)] = bad
        if reply is not None:
            full = req + [reply]
            cache[join_key(full)] = (_norm(full), who, bool(bad))
    return tainted, collisions


def llmparams_model(events, expected_altered):
    """save/restore on ONE shared object, replayed in the observed enter/exit order with the CORRECT per-context parameters.
    events: log items (pe / px / llm) in clock order. Returns (predicted attrs per llm event clock, predicted rest)."""
    st = {"temperature": CONFIGURED["temperature"], "max_tokens": CONFIGURED["max_tokens"], "model_kwargs": dict(CONFIGURED["model_kwargs"])}
    saved = {}
    pred = {}
    for e in events:
        if e["kind"] == "pe":
            s = saved[e["ctx"]] = []
            for p, v in (expected_altered.get(e["ctx"]) or {}).items():
                if p in ("temperature", "max_tokens"):
                    s.append((p, True, st[p]))
                    st[p] = v
                else:
                    s.append((p, False, st["model_kwargs"].get(p)))
                    st["model_kwargs"][p] = v
        elif e["kind"] == "px":
            for p, is_attr, old in saved.pop(e["ctx"], []):
                if is_attr:
                    st[p] = old
                elif p in st["model_kwargs"]:
                    st["model_kwargs"][p] = old
        elif e["kind"] == "llm":
            pred[e["clock"]] = {"temperature": st["temperature"], "max_tokens": st["max_tokens"], "model_kwargs": dict(st["model_kwargs"])}
    return pred, {"temperature": st["temperature"], "max_tokens": st["max_tokens"], "model_kwargs": dict(st["model_kwargs"])}


ATTR_FIELDS = ("temperature", "max_tokens", "model_kwargs", "stop", "kw")


def compare_turn(who, t, sh, iso, out):
    """append violations for one turn of conversation `who` (shared record vs isolated record)"""
    if [c["prompt"] for c in sh["calls"]] != [c["prompt"] for c in iso["calls"]]:
        i = 0
        a, b = sh["calls"], iso["calls"]
        while i < min(len(a), len(b)) and a[i]["prompt"] == b[i]["prompt"]:
            i += 1
        out.append({
            "kind": "prompt", "conv": who, "turn": t, "call": i, "n_shared": len(a), "n_isolated": len(b),
            "shared_prompt_tail": a[i]["prompt"][-400:] if i < len(a) else None, "isolated_prompt_tail": b[i]["prompt"][-400:] if i < len(b) else None,
        })
    for i, (a, b) in enumerate(zip(sh["calls"], iso["calls"])):
        da = {f: a[f] for f in ATTR_FIELDS}
        db = {f: b[f] for f in ATTR_FIELDS}
        if da != db:
            out.append({"kind": "params", "conv": who, "turn": t, "call": i, "shared": da, "isolated": db})
    if sh["rail"] != iso["rail"]:
        out.append({"kind": "rail-text", "conv": who, "turn": t, "shared": sh["rail"], "isolated": iso["rail"]})
    if sh["reply"] != iso["reply"] or sh["exc"] != iso["exc"]:
        out.append({"kind": "reply", "conv": who, "turn": t, "shared": sh["reply"] or sh["exc"], "isolated": iso["reply"] or iso["exc"]})


def _loop():
    import asyncio

    lp = _W.get("loop")
    if lp is None or lp.is_closed():
        lp = asyncio.new_event_loop()
        _W["loop"] = lp
    return lp


def _run(coro):
    lp = _loop()
    try:
        return lp.run_until_complete(coro)
    except BaseException:
        # a watchdog or an escaping error leaves the loop in an unknown state: start over
        try:
            for t in __import__("asyncio").all_tasks(lp):
                t.cancel()
            lp.close()
        except Exception:
            pass
        _W["loop"] = None
        raise


def run_case(case):
    if not _W:
        setup_worker()
    wl = case["wl"]
    if wl == "v2teach":
        return run_v2teach(case)
    convs = case["convs"]
    n = len(convs)
    sched = case["order"] if wl == "seq" else (["cancel at LLM call", case["cancel_at"]] if wl == "cancel" else [case["start"], case["release"]])
    base = {
        "key": json.dumps([wl, case["mode"], case["k"], case["m"], convs, case["answers"], case["default"], sched], sort_keys=True),
        "wl": wl,
        "fam": case["fam"],
        "nontrivial": False,
        "sample": {"workload": wl, "family": case["fam"], "mode": case["mode"], "rails": [case["k"], case["m"]], "conversations": convs, "answers": case["answers"], "schedule": sched},
    }
    obs = {"llm_calls_compared": 0, "prompts_compared": 0, "rest_checks": 0, "turns_compared": 0, "wl_" + wl: 1, "fam_" + case["fam"]: 1, "mode_" + case["mode"]: 1}
    viol = []

    # --- fresh-instance probe, part 1: conversation 0 resumed (history in the FIRST request) on a pristine instance, before anything else ran
    cold_req, pre = _cold_request(case), None
    if cold_req is not None:
        pre, _ = _run(_cold(Inst(case), cold_req, convs[0]))

    # --- isolated replays (fresh instance each)
    iso = []
    iso_pe = []
    for who, c in enumerate(convs):
        inst = Inst(case)
        recs, rests = _run(run_alone(inst, who, c))
        iso.append(recs)
        iso_pe.append([e["altered"] for e in inst.log.items if e["kind"] == "pe"])
        for t, r in enumerate(rests):
            obs["rest_checks"] += 1
            if r != CONFIGURED:
                viol.append({"kind": "rest", "scope": "isolated", "conv": who, "turn": t, "observed": r, "configured": CONFIGURED, "params": c.get("params")})
    if any(not recs or not any(r["calls"] for r in recs) for recs in iso):
        return dict(base, verdict="inconclusive", reason="monitor-not-reached", detail="an isolated replay made no LLM call", observed=obs)

    if cold_req is not None and (iso[0][0]["reply"] or {}).get("content") != cold_req[len(convs[0]["turns"][0])]["content"]:
        cold_req = None  # the predicted first reply is not what the pipeline returns: the probe would not be a resumed conversation

    # --- shared run
    shared = Inst(case)
    facts = {"asked_new_keys": sorted({p for c in convs for p in (c.get("params") or {}) if p not in ("temperature", "max_tokens") and p not in CONFIGURED["model_kwargs"]})}
    if wl == "cancel":
        cancelled_at, rest0, recs1, rests1 = _run(run_cancel(shared, case))
        obs["requests_abandoned_mid_llm_call"] = int(cancelled_at is not None)
        if cancelled_at is None:
            return dict(base, verdict="inconclusive", reason="expected:request-finished-before-the-planned-cancellation", observed=obs)
        base["nontrivial"] = True
        obs["rest_checks"] += 1
        if rest0 != CONFIGURED:
            viol.append({"kind": "rest", "scope": "shared", "after": "request abandoned while LLM call %d was in flight" % cancelled_at, "observed": rest0, "configured": CONFIGURED, "params": convs[0].get("params")})
        for t, sh in enumerate(recs1):
            if t < len(iso[1]):
                compare_turn(1, t, sh, iso[1][t], viol)
                obs["turns_compared"] += 1
                obs["llm_calls_compared"] += len(iso[1][t]["calls"])
                obs["prompts_compared"] += len(iso[1][t]["calls"])
        for t, r in enumerate(rests1):
            obs["rest_checks"] += 1
            if r != CONFIGURED:
                viol.append({"kind": "rest", "scope": "shared", "conv": 1, "turn": t, "observed": r, "configured": CONFIGURED})
    elif wl == "seq":
        out, rests, served = _run(run_seq(shared, case))
        for who, t, r in rests:
            obs["rest_checks"] += 1
            if r != CONFIGURED:
                viol.append({"kind": "rest", "scope": "shared", "conv": who, "turn": t, "observed": r, "configured": CONFIGURED, "params": convs[who].get("params")})
        first_bad = {}
        for who in range(n):
            for t, sh in enumerate(out[who]):
                if t >= len(iso[who]):
                    viol.append({"kind": "reply", "conv": who, "turn": t, "shared": sh["reply"] or sh["exc"], "isolated": "conversation ended earlier in isolation"})
                    break
                before = len(viol)
                compare_turn(who, t, sh, iso[who][t], viol)
                obs["turns_compared"] += 1
                obs["llm_calls_compared"] += len(iso[who][t]["calls"])
                obs["prompts_compared"] += len(iso[who][t]["calls"])
                if len(viol) > before:
                    first_bad[who] = t
                    break  # later turns of this conversation are consequences (the caller resends what it was told)
            if who not in first_bad and len(out[who]) != len(iso[who]) and not any(v["conv"] == who for v in viol if "conv" in v):
                viol.append({"kind": "reply", "conv": who, "turn": len(out[who]), "shared": "conversation ended", "isolated": "continued"})
        # mechanism model 1: role-free ':'-join collisions, computed from the texts
        reqs = []
        for who, t in served:
            rec = out[who][t]
            reqs.append((who, t, rec["request"], rec["reply"]))
        tainted, collisions = taint_model(reqs) if case["mode"] != "v2" else ({}, 0)
        obs["join_collisions_in_case"] = collisions
        obs["cases_with_join_collision"] = 1 if collisions else 0
        for v in viol:
            if v["kind"] in ("prompt", "reply", "rail-text") and (v["conv"], v["turn"]) in tainted:
                v["join_collision"] = tainted[(v["conv"], v["turn"])]
        o = case["order"]
        base["nontrivial"] = any(o[i] != o[i + 1] and o[i] in o[i + 2 :] for i in range(len(o) - 1))
        obs["interleavings"] = 1
        # --- cold probe, part 2
        if cold_req is not None:
            post, _ = _run(_cold(Inst(case), cold_req, convs[0]))
            obs["cold_probes"] = 1
            if [c["prompt"] for c in pre["calls"]] != [c["prompt"] for c in post["calls"]] or pre["reply"] != post["reply"]:
                i = 0
                a, b = post["calls"], pre["calls"]
                while i < min(len(a), len(b)) and a[i]["prompt"] == b[i]["prompt"]:
                    i += 1
                viol.append({
                    "kind": "fresh-instance", "conv": 0, "turn": len(convs[0]["turns"]) - 1, "request": cold_req,
                    "after_shared_run_prompt_tail": a[i]["prompt"][-400:] if i < len(a) else None, "before_prompt_tail": b[i]["prompt"][-400:] if i < len(b) else None,
                })
    else:
        try:
            out, rest, info = _run(run_conc(shared, case))
        except DriverStuck as e:
            return dict(base, verdict="inconclusive", reason="driver-stuck", detail=str(e), observed=obs)
        obs["release_orders"] = 1
        obs["max_calls_in_flight"] = info["max_in_flight"]
        obs["parked_calls_released"] = len(info["actual"])
        base["nontrivial"] = info["max_in_flight"] >= 2
        base["sample"]["actual_release_order"] = info["actual"]
        obs["rest_checks"] += 1
        if rest != CONFIGURED:
            viol.append({"kind": "rest", "scope": "shared", "observed": rest, "configured": CONFIGURED})
        for who in range(n):
            iso_calls = [c for r in iso[who] for c in r["calls"]]
            iso_rail = [x for r in iso[who] for x in r["rail"]]
            sh = {"calls": out[who]["calls"], "rail": out[who]["rail"], "reply": [r["reply"] for r in out[who]["turns"]], "exc": [r["exc"] for r in out[who]["turns"]]}
            isr = {"calls": iso_calls, "rail": iso_rail, "reply": [r["reply"] for r in iso[who]], "exc": [r["exc"] for r in iso[who]]}
            compare_turn(who, None, sh, isr, viol)
            obs["turns_compared"] += len(iso[who])
            obs["llm_calls_compared"] += len(iso_calls)
            obs["prompts_compared"] += len(iso_calls)
        # mechanism model 2: save/restore of LLMParams on the shared object
        items = shared.log.items
        pes = [e for e in items if e["kind"] == "pe"]
        requested_ok = True
        expected = {}
        seen = [0] * n
        for e in pes:
            w = e["conv"]
            if w is None or w >= n or seen[w] >= len(iso_pe[w]):
                requested_ok = False
                continue
            exp = iso_pe[w][seen[w]]
            seen[w] += 1
            expected[e["ctx"]] = exp
            if exp != e["altered"]:
                requested_ok = False
        if any(seen[w] != len(iso_pe[w]) for w in range(n)):
            requested_ok = False
        pred, pred_rest = llmparams_model(items, expected)
        llm_events = [e for e in items if e["kind"] == "llm"]
        model_ok = bool(pes) and all(
            pred.get(e["clock"]) == {"temperature": e["temperature"], "max_tokens": e["max_tokens"], "model_kwargs": e["model_kwargs"]} for e in llm_events
        ) and pred_rest == rest
        # overlap in time of two contexts of different conversations, one of which changes a parameter
        span = {}
        for e in items:
            if e["kind"] == "pe":
                span[e["ctx"]] = [e["clock"], None, e["conv"], e["altered"]]
            elif e["kind"] == "px" and e["ctx"] in span:
                span[e["ctx"]][1] = e["clock"]
        sp = [s for s in span.values() if s[1] is not None]
        overlap = any(
            a[2] != b[2] and a[0] < b[1] and b[0] < a[1] and (a[3] or b[3]) for a, b in itertools.combinations(sp, 2)
        )
        facts.update({"pe_events": len(pes), "requested_params_as_isolated": requested_ok, "save_restore_model_reproduces": model_ok, "contexts_overlap": overlap})
        obs["llmparams_contexts_seen"] = len(pes)
        obs["schedules_with_overlapping_param_contexts"] = 1 if overlap else 0
        if info["fallback"] and not viol:
            return dict(base, verdict="inconclusive", reason="schedule-model-mismatch", detail="planned release order did not fit the calls made: %r" % (info,), observed=obs)

    if obs["llm_calls_compared"] == 0:
        return dict(base, verdict="inconclusive", reason="monitor-not-reached", observed=obs)
    if not viol:
        return dict(base, verdict="held", observed=obs)
    kinds = sorted({_vkey(v, wl, facts) for v in viol})
    obs["violations_" + "+".join(kinds)] = 1
    return dict(
        base, verdict="violated", observed=obs, mech=kinds, facts=facts,
        witness={"mode": case["mode"], "rails": [case["k"], case["m"]], "conversations": convs, "answers": case["answers"], "default": case["default"], "schedule": sched, "violations": viol[:4], "facts": facts},
    )


def _cold_request(case):
    """conversation 0's second request, written down from the case texts alone (needs a predictable first reply)"""
    c = case["convs"][0]
    if case["wl"] != "seq" or len(c["turns"]) < 2 or case["mode"] == "v2":
        return None
    first = c["turns"][0]
    u = first[-1]["content"] if first[-1]["role"] == "user" else None
    if u in case["answers"]:
        r = case["answers"][u]
    elif case["default"] == "const":
        r = "Sure thing."
    else:
        return None
    return list(first) + [{"role": "assistant", "content": r}] + list(c["turns"][1])


async def _cold(inst, req, c):
    n0 = len(inst.log.items)
    reply, exc = await _request(inst, 0, req, _options(c))
    return _turn_record(inst.log.items[n0:], 0, reply, exc, req), None


def _vkey(v, wl, facts):
    """mechanism of ONE violation, from structural facts only"""
    k = v["kind"]
    if k in ("prompt", "reply", "rail-text") and v.get("join_collision"):
        return "cache-key-join"
    if wl == "conc" and k in ("params", "rest") and v.get("scope") != "isolated":
        if facts.get("pe_events") and facts.get("requested_params_as_isolated") and facts.get("save_restore_model_reproduces") and facts.get("contexts_overlap"):
            return "llmparams-overlap"
        return "%s-unexplained-by-save-restore" % k
    # a parameter name the LLM object did not have is left behind as `name: None` in model_kwargs (sequential, even alone)
    asked = set(facts.get("asked_new_keys") or [])
    if k == "rest" and _residue_only(v.get("observed") or {}, v.get("configured") or {}, asked):
        return "model-kwargs-new-key-left-as-none"
    if k == "params" and _residue_only(v["shared"], v["isolated"], asked) and all(v["shared"].get(f) == v["isolated"].get(f) for f in ("stop", "kw")):
        return "model-kwargs-new-key-left-as-none"
    if k == "rest":
        return "rest-%s" % v.get("scope")
    return "%s-%s" % (wl, k)


def _residue_only(ob, cf, asked):
    """ob differs from cf only by model_kwargs entries `key: None` for keys some llm_params of the case introduced"""
    mk, cmk = dict(ob.get("model_kwargs") or {}), dict(cf.get("model_kwargs") or {})
    extra = {p: x for p, x in mk.items() if p not in cmk or (cmk[p] != x and x is None)}
    rest_same = {p: x for p, x in mk.items() if p not in extra} == {p: x for p, x in cmk.items() if p not in extra}
    return bool(extra) and all(x is None for x in extra.values()) and set(extra) <= asked and rest_same and all(ob.get(f) == cf.get(f) for f in ("temperature", "max_tokens"))


def finalize(tier, seed, observed, counts):
    """cross-case obligations: a run in which a workload went blind must not pass"""
    n = sum(counts.values())
    cov = {
        "sequential_cases": observed.get("wl_seq", 0),
        "concurrent_cases": observed.get("wl_conc", 0),
        "max_calls_in_flight": observed.get("max_calls_in_flight", 0),
        "cases_whose_texts_collide_under_the_role_free_join": observed.get("cases_with_join_collision", 0),
        "fresh_instance_probes": observed.get("cold_probes", 0),
    }
    if n < 100:  # --limit / replay-sized runs
        return {"coverage": cov}
    missing = [k for k, v in cov.items() if not v]
    if cov["max_calls_in_flight"] < 2:
        missing.append("no schedule with >=2 calls in flight")
    return {"coverage": cov, "inconclusive": ("workload blind: " + ", ".join(missing)) if missing else None}


def classify(r):
    m = r.get("mech") or ["unclassified"]
    return m[0] if len(m) == 1 else "+".join(m)
