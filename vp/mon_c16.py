"""C16 — generation options run exactly the selected rail categories.

Table-driven model check. A cell = (configuration with k input / m output / r retrieval
rails, Colang 1.0, general or dialog pipeline) x (subset of {input, dialog, retrieval,
output} written as list / dict / partial dict / GenerationOptions object / per-rail name
lists) x (one verdict in {ok, rewrite, block} per input and output rail) x (user text,
supplied bot text). Every rail is a flow around a harness-registered recording action
(`vin<i>`, `vout<i>`, `vret<i>`); the LLM is the recording RecLLM; `retrieve_relevant_chunks`
(the step right before the retrieval gate of `generate bot message`) is re-registered
with a counting pass-through so that "the retrieval rails were reached" is an
observation, not an inference.

Oracle (`model`, ~30 lines): the documented table of docs/user_guides/advanced/generation-options.md
  a. input only            -> reply = user text / rewritten text / refusal, 0 LLM calls
  b. (input+)output + a trailing assistant message -> reply = message / rewritten / refusal
  c. wrappers of a category fire  =>  category selected;  selected & reached => fire
     (in configured order, each shown the text left by its predecessor); dialog off => 0 LLM calls
  d. log.activated_rails: the input/output entries are exactly the rails whose wrappers ran
     (names, order); stop=True on exactly the rail whose wrapper answered "block".
"""
import itertools
import json
import random

PROPERTY = "C16"
LEVEL = "exploration"
CATS = ("input", "dialog", "retrieval", "output")
VERDICTS = ("ok", "rewrite", "block")
RULE = (
    "cell = (config: k<=2 input, m<=2 output, r<=1 retrieval rails, pipeline in {general, dialog with intents+flows}, rail exceptions on/off) x "
    "(ALL 16 subsets of {input,dialog,retrieval,output}) x (option form in {list, dict}; thorough adds partial dict, GenerationOptions object) x "
    "(ALL verdict vectors {ok,rewrite,block}^(k+m)) x (2 user/bot text pairs incl. one with quotes/braces/$; thorough: 6 pairs, a prior turn in the history, "
    "assistant message also supplied when output is off) + per-rail name lists. Every cell is non-trivial (the table is the scope); distinct = the cell"
)
MIN_HELD = {"quick": 20000, "thorough": 80000}
MAX_INCONCLUSIVE = 0.01
EXHAUSTIVE = {"quick": True, "thorough": True}
ASSUMPTIONS = [
    "rail verdicts are scripted in harness-registered actions; refusals are predefined bot messages (so no LLM call and no output rail on a refusal)",
    "the trailing bot message is passed with role `assistant` (the role the code and the repo tests use; the user guide's example says `bot`)",
    "oracle: sequential model of the documented table; `retrieval reached` = observed executions of retrieve_relevant_chunks (the statement right before the retrieval gate)",
    "dialog-off + output-on without a supplied assistant message is outside the documented table and not generated",
    "a category given as a non-empty list of rail names counts as selected (the user guide lists per-rail selection as unsupported): all rails of the category are expected; "
    "cells where that differs from `only the named rails` are counted in observed.named_selection_ran_unnamed_rail",
    "one LLMRails instance per configuration is reused for many cells (fresh unique texts per cell); an alarm is re-judged on a fresh instance before it is reported",
]
SAMPLE_EVERY = 1999
CASE_WALL_S = 60

# ----------------------------------------------------------------------------- texts
USER_TEXTS = [
    "SECRET-%s plain question about cheese",
    'SECRET-%s say "hi" {{ 7*7 }} $user_message {%% if x %%} it\'s <b>&amp;</b> cheese',
    "SECRET-%s fixedq",
    "",
    "SECRET-%s ünïcödé 你好 \U0001f9c0 cheese",
    "SECRET-%s line one\nline two cheese\n  indented: bot refuse in a",
    "SECRET-%s " + "long cheese " * 150,
]
BOT_TEXTS = [
    "GIVEN-%s plain answer",
    'GIVEN-%s "quoted" {{ 7*7 }} $bot_message {%% raw %%} it\'s\nsecond line',
    "GIVEN-%s REFUSED-OUT-9 lookalike",
    "GIVEN-%s ünïcödé 你好",
    "GIVEN-%s " + "long answer " * 150,
    "GIVEN-%s  trailing space ",
]
# (user text index, bot text index) pairs
PAIRS_QUICK = {"general": [(0, 0), (1, 1)], "dialog": [(0, 0), (2, 1)]}
PAIRS_THOROUGH = {"general": [(0, 0), (1, 1), (3, 2), (4, 3), (5, 4), (6, 5)], "dialog": [(0, 0), (2, 1), (1, 2), (4, 3), (5, 4), (3, 5)]}


def letters(i):
    return "abcdefgh"[i]


def in_name(i):
    return "in rail %s" % letters(i)


def out_name(i):
    return "out rail %s" % letters(i)


def ret_name(i):
    return "ret rail %s" % letters(i)


# ----------------------------------------------------------------------------- configuration
def build(spec):
    from . import rails

    k, m, r, mode, exc = spec["k"], spec["m"], spec["r"], spec["mode"], spec.get("exc", False)
    y = rails.MAIN_MODELS
    if exc:
        y += "enable_rails_exceptions: True\n"
    if k or m or r:
        y += "rails:\n"
    if k:
        y += "  input:\n    flows: [" + ", ".join(in_name(i) for i in range(k)) + "]\n"
    if m:
        y += "  output:\n    flows: [" + ", ".join(out_name(i) for i in range(m)) + "]\n"
    if r:
        y += "  retrieval:\n    flows: [" + ", ".join(ret_name(i) for i in range(r)) + "]\n"
    co = ""
    if mode == "dialog":
        co += 'define user ask cheese\n  "cheese"\n\ndefine user ask fixed\n  "fixedq"\n\ndefine bot answer fixed\n  "FIXED-ANSWER"\n\n'
        co += "define flow answering cheese\n  user ask cheese\n  bot answer cheese\n\n"
        co += "define flow answering fixed\n  user ask fixed\n  bot answer fixed\n\n"
    for i in range(k):
        L = letters(i)
        refuse = ('    create event InputRailException(message="INEXC-%d")\n' % i) if exc else ("    bot refuse in %s\n" % L)
        co += 'define bot refuse in %s\n  "REFUSED-IN-%d"\n\ndefine flow in rail %s\n' % (L, i, L)
        co += '  $v = execute vin%d\n  if $v == "block"\n%s    stop\n  if $v == "rewrite"\n    $user_message = $rewritten\n\n' % (i, refuse)
    for i in range(m):
        L = letters(i)
        refuse = ('    create event OutputRailException(message="OUTEXC-%d")\n' % i) if exc else ("    bot refuse out %s\n" % L)
        co += 'define bot refuse out %s\n  "REFUSED-OUT-%d"\n\ndefine flow out rail %s\n' % (L, i, L)
        co += '  $v = execute vout%d\n  if $v == "block"\n%s    stop\n  if $v == "rewrite"\n    $bot_message = $rewritten_bot\n\n' % (i, refuse)
    for i in range(r):
        co += "define flow ret rail %s\n  $rv = execute vret%d\n\n" % (letters(i), i)
    return co, y


class App:
    """One LLMRails instance with recording rail actions, a recording LLM and a counting retrieve_relevant_chunks."""

    def __init__(self, spec):
        from . import rails

        L = rails.load()
        self.spec = spec
        self.log = rails.Log()
        self.cid = "c0"
        self.V = {}
        self.co, self.yaml = build(spec)
        cfg = L["RailsConfig"].from_content(self.co, self.yaml)
        self.llm = L["RecLLM"](script=self._script, log=self.log)
        self.app = L["LLMRails"](cfg, llm=self.llm)
        AR = L["ActionResult"]

        def mk(side, i):
            async def f(context=None):
                ctx = context or {}
                text = ctx.get({"in": "user_message", "out": "bot_message", "ret": "relevant_chunks"}[side])
                v = self.V.get((side, i), "ok") if side != "ret" else "ok"
                self.log.add(side, idx=i, text=text, verdict=v)
                if v == "rewrite":
                    key = "rewritten" if side == "in" else "rewritten_bot"
                    return AR(return_value="rewrite", context_updates={key: rw_text(side, self.cid, i)})
                return v

            f.__name__ = "v%s%d" % (side, i)
            return f

        for side, n in (("in", spec["k"]), ("out", spec["m"]), ("ret", spec["r"])):
            for i in range(n):
                self.app.register_action(mk(side, i), "v%s%d" % (side, i))
        disp = self.app.runtime.action_dispatcher
        orig = disp.get_action("retrieve_relevant_chunks")
        if orig is None or not hasattr(orig, "action_meta"):
            raise RuntimeError("retrieve_relevant_chunks is no longer a registered system action")

        async def retrieve_relevant_chunks(context=None, kb=None, is_colang_2=False):
            self.log.add("chunks")
            return await orig(context=context, kb=kb, is_colang_2=is_colang_2)

        retrieve_relevant_chunks.action_meta = orig.action_meta
        disp.register_action(retrieve_relevant_chunks, "retrieve_relevant_chunks")

    def _script(self, prompt):
        """prompt-keyed: the task is recognised by the section header of the v1 prompt templates."""
        if self.spec["mode"] == "dialog":
            cur = prompt[prompt.rfind("# This is the current conversation") :]
            if "# This is how the user talks:" in prompt:
                return "  ask fixed" if "fixedq" in cur else "  ask cheese"
            if "# This is how the bot thinks:" in prompt:
                return "bot answer cheese"
            return '  "%s"' % llm_text(self.cid)
        return llm_text(self.cid)


def llm_text(cid):
    return "LLMBOT-%s generated" % cid


def rw_text(side, cid, i):
    return ("RWIN-%s-%d masked" if side == "in" else "RWOUT-%s-%d masked") % (cid, i)


_APPS = {}


def get_app(spec, fresh=False):
    key = json.dumps(spec, sort_keys=True)
    if fresh:
        return App(spec)
    a = _APPS.get(key)
    if a is None:
        if len(_APPS) >= 48:
            _APPS.clear()
        a = _APPS[key] = App(spec)
    return a


# ----------------------------------------------------------------------------- cells
def selected(case):
    """category -> truthy iff the options select it (a non-empty name list selects the category)."""
    return {c: (c in case["subset"]) for c in CATS}


def make_options(case):
    sel = selected(case)
    form = case["form"]
    log = {"activated_rails": True}
    if form == "list":
        return {"rails": [c for c in CATS if sel[c]], "log": log}
    if form == "dict":
        return {"rails": {c: sel[c] for c in CATS}, "log": log}
    if form == "partial":
        return {"rails": {c: False for c in CATS if not sel[c]}, "log": log}
    if form == "names":
        d = {c: sel[c] for c in CATS}
        for c, names in (case.get("names") or {}).items():
            d[c] = list(names)
        return {"rails": d, "log": log}
    if form == "object":
        from nemoguardrails.rails.llm.options import GenerationLogOptions, GenerationOptions, GenerationRailsOptions

        return GenerationOptions(rails=GenerationRailsOptions(**{c: sel[c] for c in CATS}), log=GenerationLogOptions(activated_rails=True))
    raise ValueError(form)


def texts(case):
    u = USER_TEXTS[case["ut"]]
    g = BOT_TEXTS[case["bt"]]
    return (u % case["cid"]) if "%s" in u else u, g % case["cid"]


def messages(case):
    u, g = texts(case)
    msgs = []
    if case.get("hist"):
        msgs += [{"role": "user", "content": "EARLIER-%s question" % case["cid"]}, {"role": "assistant", "content": "EARLIER-%s answer" % case["cid"]}]
    msgs.append({"role": "user", "content": u})
    if case["supply"]:
        msgs.append({"role": "assistant", "content": g})
    return msgs


# ----------------------------------------------------------------------------- the oracle (executable spec of the documented table)
def model(case):
    spec, sel = case["spec"], selected(case)
    k, m, exc, cid = spec["k"], spec["m"], spec.get("exc", False), case["cid"]
    u, g = texts(case)
    text, rails_, blocker, bot, skip_out, entries = u, [], None, None, False, []
    if sel["input"]:
        for i in range(k):
            rails_.append(("input", in_name(i), text))
            if case["vin"][i] == "block":
                blocker = ("input", in_name(i), i)
                break
            if case["vin"][i] == "rewrite":
                text = rw_text("in", cid, i)
    entries += [(t, n) for t, n, _ in rails_]
    if blocker is None:
        if sel["dialog"]:
            if spec["mode"] == "general":
                bot = llm_text(cid)
                entries.append(("generation", "generate user intent"))
            else:
                fixed = "fixedq" in text
                bot, skip_out = ("FIXED-ANSWER", True) if fixed else (llm_text(cid), False)
                entries += [("dialog", "generate user intent"), ("dialog", "answering fixed" if fixed else "answering cheese"), ("generation", "generate bot message")]
        elif sel["output"]:
            bot = g if case["supply"] else None
        if bot is not None and sel["output"] and not skip_out:
            for j in range(m):
                rails_.append(("output", out_name(j), bot))
                entries.append(("output", out_name(j)))
                if case["vout"][j] == "block":
                    blocker = ("output", out_name(j), j)
                    break
                if case["vout"][j] == "rewrite":
                    bot = rw_text("out", cid, j)
    if blocker is not None:
        tag = "IN" if blocker[0] == "input" else "OUT"
        reply = ("exception", "%sEXC-%d" % (tag, blocker[2])) if exc else ("assistant", "REFUSED-%s-%d" % (tag, blocker[2]))
    elif bot is not None:
        reply = ("assistant", bot)
    else:
        reply = ("assistant", text)  # neither dialog nor output: the (possibly rewritten) user text comes back
    return {"rails": rails_, "blocker": blocker and blocker[:2], "reply": reply, "entries": entries, "llm_allowed": sel["dialog"], "llm_expected": sel["dialog"] and not (blocker and blocker[0] == "input")}


# ----------------------------------------------------------------------------- observation + judgement
SIDE2CAT = {"in": "input", "out": "output", "ret": "retrieval"}
NAMEOF = {"in": in_name, "out": out_name, "ret": ret_name}


def execute(case, fresh=False):
    app = get_app(case["spec"], fresh=fresh)
    app.cid = case["cid"]
    app.V = {("in", i): v for i, v in enumerate(case["vin"])}
    app.V.update({("out", i): v for i, v in enumerate(case["vout"])})
    app.log.clear()
    res, raised = None, None
    try:
        res = app.app.generate(messages=messages(case), options=make_options(case))
    except Exception as e:  # an escaping exception is an observation
        raised = "%s: %s" % (type(e).__name__, str(e)[:300])
    return app, res, raised, list(app.log.items)


def judge(case, res, raised, items):
    """returns (problems, obs). problems = list of (what, detail)"""
    spec, sel = case["spec"], selected(case)
    mt = model(case)
    P = []
    obs = {"cells": 1, "cells_form_" + case["form"]: 1, "cells_subset_" + ("+".join(c for c in CATS if sel[c]) or "none"): 1}
    calls = [e for e in items if e["kind"] in SIDE2CAT]
    llms = [e for e in items if e["kind"] == "llm"]
    reach = len([e for e in items if e["kind"] == "chunks"])
    obs["rail_calls"] = len(calls)
    obs["llm_calls"] = len(llms)
    obs["max_llm_calls_per_cell"] = len(llms)
    obs["retrieval_points_reached"] = reach
    if raised is not None:
        return [("generate-raised:" + raised.split(":")[0], raised)], obs, mt
    # ---- (c) categories
    got = {c: [(NAMEOF[e["kind"]](e["idx"]), e["text"]) for e in calls if SIDE2CAT[e["kind"]] == c] for c in ("input", "output", "retrieval")}
    exp = {c: [(n, t) for ty, n, t in mt["rails"] if ty == c] for c in ("input", "output")}
    for c in ("input", "output", "retrieval"):
        if got[c] and not sel[c]:
            P.append(("unselected-category-ran:" + c, got[c]))
    for c in ("input", "output"):
        if sel[c] and exp[c] and not got[c]:
            P.append(("selected-category-not-run:" + c, {"expected": exp[c]}))
        elif sel[c] and got[c] != exp[c]:
            P.append(("rail-calls-differ:" + c, {"got": got[c], "expected": exp[c]}))
        if got[c]:
            obs["cells_%s_rails_fired" % c] = 1
    if sel["retrieval"]:
        exp_ret = [ret_name(i) for _ in range(reach) for i in range(spec["r"])]
        if [n for n, _ in got["retrieval"]] != exp_ret:
            P.append(("selected-category-not-run:retrieval" if not got["retrieval"] else "rail-calls-differ:retrieval", {"got": got["retrieval"], "reached": reach, "expected": exp_ret}))
        if got["retrieval"]:
            obs["cells_retrieval_rails_fired"] = 1
    if reach and spec["r"]:
        obs["cells_retrieval_reached_" + ("selected" if sel["retrieval"] else "unselected")] = 1
    if llms and not mt["llm_allowed"]:
        P.append(("llm-call-with-dialog-off", [e["prompt"][-200:] for e in llms][:2]))
    if mt["llm_expected"] and not llms:
        P.append(("no-generation-although-dialog-selected", ""))
    if not sel["dialog"]:
        obs["cells_dialog_off_zero_llm_checked"] = 1
    # ---- (a)/(b) reply
    resp = getattr(res, "response", None)
    msg = resp[0] if isinstance(resp, list) and len(resp) == 1 and isinstance(resp[0], dict) else None
    if msg is None:
        P.append(("malformed-response", repr(resp)[:300]))
    else:
        role, content = mt["reply"]
        if role == "exception":
            ok = msg.get("role") == "exception" and isinstance(msg.get("content"), dict) and msg["content"].get("message") == content
        else:
            ok = msg.get("role") == "assistant" and msg.get("content") == content
        if not ok:
            P.append(("reply-differs:" + table_row(case), {"got": msg, "expected": {"role": role, "content": content}}))
        obs["replies_checked_" + table_row(case)] = 1
    # ---- (d) log
    glog = getattr(res, "log", None)
    if glog is None or getattr(glog, "activated_rails", None) is None:
        P.append(("log-missing", ""))
    else:
        ents = [(a.type, a.name, bool(a.stop), [x.action_name for x in a.executed_actions]) for a in glog.activated_rails]
        ran = [(SIDE2CAT[e["kind"]], NAMEOF[e["kind"]](e["idx"])) for e in calls if e["kind"] != "ret"]
        listed = [(t, n) for t, n, s, acts in ents if t in ("input", "output")]
        if listed != ran:
            P.append(("log-rails-differ", {"log": listed, "ran": ran}))
        blockers = [(SIDE2CAT[e["kind"]], NAMEOF[e["kind"]](e["idx"])) for e in calls if e["verdict"] == "block"]
        stops = [(t, n) for t, n, s, acts in ents if s]
        if stops != blockers:
            P.append(("log-stop-wrong:" + ("missing" if not stops else "spurious" if not blockers else "misplaced"), {"stop_on": stops, "blocked": blockers, "log": [e[:3] for e in ents]}))
        if blockers:
            obs["stop_flags_checked_on_block"] = 1
        other = [(t, n) for t, n, s, acts in ents if t not in ("input", "output")]
        if [(t, n) for t, n, s, acts in ents] != mt["entries"]:
            if not sel["dialog"] and other:
                P.append(("log-lists-dialog-rail-with-dialog-off", other))
            elif listed == ran:
                P.append(("log-dialog-entries-differ", {"log": [e[:2] for e in ents], "expected": mt["entries"]}))
        # every executed rail action is listed under the rail that ran it; nothing else is
        acts_logged = [a for t, n, s, acts in ents for a in acts if a.startswith(("vin", "vout", "vret"))]
        acts_ran = ["v%s%d" % (e["kind"], e["idx"]) for e in calls]
        if acts_logged != acts_ran:
            P.append(("log-executed-actions-differ", {"log": acts_logged, "ran": acts_ran}))
        obs["log_entries_checked"] = len(ents)
    if case["form"] == "names":
        named_only = False
        for c, names in (case.get("names") or {}).items():
            if any(n not in names for n, _ in got.get(c, [])):
                named_only = True
        if named_only:
            obs["named_selection_ran_unnamed_rail"] = 1
    return P, obs, mt


def table_row(case):
    s = "+".join(c for c in CATS if c in case["subset"]) or "none"
    if s == "input":
        return "input-only"
    if s == "input+output":
        return "input+output"
    if s == "output":
        return "output-only"
    return "dialog-on" if "dialog" in case["subset"] else "other-dialog-off"


# ----------------------------------------------------------------------------- framework interface
def setup_worker():
    from . import rails

    rails.load()
    from nemoguardrails.rails.llm import options as o

    for name in ("GenerationOptions", "GenerationRailsOptions", "GenerationLogOptions"):
        if not hasattr(o, name):
            raise RuntimeError("options.%s vanished" % name)


def run_case(case):
    sample = {"spec": case["spec"], "subset": case["subset"], "form": case["form"], "names": case.get("names"), "vin": case["vin"], "vout": case["vout"], "messages": None}
    key = repr((sorted(case["spec"].items()), case["subset"], case["form"], case.get("names"), case["vin"], case["vout"], case["ut"], case["bt"], case.get("hist", 0), case["supply"]))
    base = {"key": key, "nontrivial": True, "sample": sample, "row": table_row(case), "form": case["form"], "mode": case["spec"]["mode"]}
    try:
        app, res, raised, items = execute(case)
    except Exception as e:
        import traceback

        return dict(base, verdict="inconclusive", reason="app-build-failed:%s" % type(e).__name__, detail=traceback.format_exc()[-800:], nontrivial=False)
    problems, obs, mt = judge(case, res, raised, items)
    if problems:
        # re-judge on a fresh instance: an alarm must not depend on the reuse of the instance
        app2, res2, raised2, items2 = execute(case, fresh=True)
        problems2, obs2, mt = judge(case, res2, raised2, items2)
        if not problems2:
            return dict(base, verdict="inconclusive", reason="instance-reuse-dependent", detail=json.dumps(problems, default=str)[:800], nontrivial=False)
        app, res, raised, items, problems, obs = app2, res2, raised2, items2, problems2, obs2
    msgs = messages(case)
    sample["messages"] = [{"role": x["role"], "content": x["content"][:120]} for x in msgs]
    sample["reply"] = getattr(res, "response", None) if raised is None else "RAISED " + raised
    sample["rail_calls"] = [(e["kind"], e["idx"], e["verdict"]) for e in items if e["kind"] in SIDE2CAT]
    sample["llm_calls"] = len([e for e in items if e["kind"] == "llm"])
    if problems:
        what, detail = problems[0]
        glog = getattr(res, "log", None)
        return dict(
            base,
            verdict="violated",
            what=what,
            observed=obs,
            witness={
                "config_colang": app.co,
                "config_yaml": app.yaml,
                "options": repr(make_options(case)),
                "messages": msgs,
                "verdicts": {"input": case["vin"], "output": case["vout"]},
                "problem": what,
                "detail": json.loads(json.dumps(detail, default=str)),
                "all_problems": [p[0] for p in problems],
                "reply": sample["reply"],
                "rail_calls": [(e["kind"], e["idx"], (e["text"] or "")[:80] if isinstance(e["text"], str) else e["text"], e["verdict"]) for e in items if e["kind"] in SIDE2CAT],
                "llm_calls": sample["llm_calls"],
                "log": [(a.type, a.name, a.stop) for a in glog.activated_rails] if glog is not None else None,
                "expected": {"reply": mt["reply"], "rails": [(t, n) for t, n, _ in mt["rails"]], "blocker": mt["blocker"]},
            },
        )
    if getattr(res, "log", None) is None:
        return dict(base, verdict="inconclusive", reason="monitor-not-reached", observed=obs, nontrivial=False)
    return dict(base, verdict="held", observed=obs)


def classify(r):
    return str(r.get("what"))


# ----------------------------------------------------------------------------- case enumeration
def _grid(spec, pairs, forms, i0, seed, hist=(0,), also_supply_when_output_off=False):
    k, m = spec["k"], spec["m"]
    for bits in range(16):
        subset = [c for j, c in enumerate(CATS) if bits >> j & 1]
        doc_supply = "dialog" not in subset and "output" in subset
        supplies = [doc_supply]
        if also_supply_when_output_off and "dialog" not in subset and "output" not in subset:
            supplies.append(True)
        for form in forms:
            for vin in itertools.product(VERDICTS, repeat=k):
                for vout in itertools.product(VERDICTS, repeat=m):
                    for ut, bt in pairs:
                        for h in hist:
                            for sup in supplies:
                                yield {"id": 0, "spec": spec, "subset": subset, "form": form, "vin": list(vin), "vout": list(vout), "ut": ut, "bt": bt, "hist": h, "supply": sup, "cid": ""}


def _names_cells(spec, pairs, i0, seed, rng, n):
    """per-rail name lists: a category is given as a (non-empty) list of its rails' names."""
    k, m, r = spec["k"], spec["m"], spec["r"]
    for _ in range(n):
        subset = [c for c in CATS if rng.random() < 0.6]
        names = {}
        for c, cnt, nm in (("input", k, in_name), ("output", m, out_name), ("retrieval", r, ret_name)):
            if c in subset and cnt and rng.random() < 0.8:
                pick = [nm(j) for j in range(cnt) if rng.random() < 0.5] or [nm(rng.randrange(cnt))]
                names[c] = pick
        if not names:
            continue
        ut, bt = rng.choice(pairs)
        yield {
            "id": 0, "spec": spec, "subset": subset, "form": "names", "names": names,
            "vin": [rng.choice(VERDICTS) for _ in range(k)], "vout": [rng.choice(VERDICTS) for _ in range(m)],
            "ut": ut, "bt": bt, "hist": 0, "supply": "dialog" not in subset and "output" in subset, "cid": "",
        }


def cases(tier, seed):
    quick = tier == "quick"
    pairs = PAIRS_QUICK if quick else PAIRS_THOROUGH
    rng = random.Random(1600 + seed)
    i = 0
    for mode in ("general", "dialog"):
        for k in (0, 1, 2):
            for m in (0, 1, 2):
                spec = {"k": k, "m": m, "r": 1, "mode": mode, "exc": False}
                grids = [_grid(spec, pairs[mode], ("list", "dict"), i, seed)]
                if not quick:
                    # the other two spellings of the option; a prior turn in the history; an assistant message although output is off
                    grids.append(_grid(spec, pairs[mode][:2], ("partial", "object"), None, seed))
                    grids.append(_grid(spec, pairs[mode][:2], ("list",), None, seed, hist=(1,), also_supply_when_output_off=True))
                grids.append(_names_cells(spec, pairs[mode], None, seed, rng, 12 if quick else 120))
                for g in grids:
                    for c in g:
                        i += 1
                        c["id"] = i
                        c["cid"] = "s%dn%d" % (seed, i)
                        yield c
        # rail exceptions instead of refusals; configuration without retrieval rails
        for k, m, r, exc in ((1, 1, 1, True), (2, 1, 0, False)) if quick else ((1, 1, 1, True), (2, 2, 1, True), (2, 1, 0, False), (1, 2, 0, True)):
            spec = {"k": k, "m": m, "r": r, "mode": mode, "exc": exc}
            for c in _grid(spec, pairs[mode][:2], ("list", "dict"), None, seed):
                i += 1
                c["id"] = i
                c["cid"] = "s%dn%d" % (seed, i)
                yield c


def finalize(tier, seed, observed, counts):
    total = sum(1 for _ in cases(tier, seed))
    done = counts["held"] + counts["violated"]
    out = {"coverage": {"cells_in_scope": total, "cells_conclusive": done}}
    if done < total:
        out["inconclusive"] = "only %d of %d table cells were conclusive" % (done, total)
    return out
