"""Colang 2 state-machine micro harness (real parser, expander, interpreter).

parse_colang_file(version="2.x") -> create_flow_configs_from_flow_list -> State
-> initialize_state -> run_to_completion(StartFlow main) -> events as dicts.

Every run is wrapped in the logical step budget (the unchanged tree contains
genuine non-terminating executions) and random/datetime of the interpreter are
replaced by controlled fakes.
"""
import datetime as _dt
import random as _random

from . import steps

_L = {}


def load():
    """Import the repository modules once per worker; patch random/clock."""
    if _L:
        return _L
    from nemoguardrails.colang import parse_colang_file
    from nemoguardrails.colang.v2_x.runtime import flows as fl
    from nemoguardrails.colang.v2_x.runtime import statemachine as sm
    from nemoguardrails.colang.v2_x.runtime import eval as ev
    from nemoguardrails.colang.v2_x.runtime.runtime import (
        create_flow_configs_from_flow_list,
    )

    _L.update(
        parse=parse_colang_file,
        fl=fl,
        sm=sm,
        ev=ev,
        mkcfg=create_flow_configs_from_flow_list,
    )
    _L["codes"] = steps.install([sm, ev])
    # the interpreter looks both names up through its module globals
    if not hasattr(sm, "random") or not hasattr(sm, "datetime") or not hasattr(fl, "datetime"):
        raise RuntimeError("hook-missing: statemachine.random/datetime or flows.datetime")
    _L["clock"] = FakeClock()
    sm.datetime = _L["clock"]
    fl.datetime = _L["clock"]
    _L["random"] = ControlledRandom()
    sm.random = _L["random"]
    return _L


class FakeClock:
    """Stands in for the `datetime` class inside statemachine.py / flows.py."""

    def __init__(self):
        self.t = _dt.datetime(2030, 1, 1, 0, 0, 0)

    def now(self, tz=None):
        return self.t

    def advance(self, seconds):
        self.t = self.t + _dt.timedelta(seconds=seconds)

    def reset(self):
        self.t = _dt.datetime(2030, 1, 1, 0, 0, 0)

    def __call__(self, *a, **k):
        return _dt.datetime(*a, **k)

    def __getattr__(self, name):
        return getattr(_dt.datetime, name)


class ControlledRandom:
    """`random.choice` replacement: consumes a decision script (list of indices),
    falls back to a seeded PRNG, records (len, picked) for replay/enumeration."""

    def __init__(self):
        self.reset()

    def reset(self, script=None, seed=0, default_first=False):
        self.script = list(script or [])
        self.pos = 0
        self.rng = _random.Random(seed)
        self.default_first = default_first
        self.log = []

    def choice(self, seq):
        n = len(seq)
        if self.pos < len(self.script):
            i = self.script[self.pos] % n
        elif self.default_first:
            i = 0
        else:
            i = self.rng.randrange(n)
        self.pos += 1
        self.log.append((n, i))
        return seq[i]

    def __getattr__(self, name):  # anything else -> real module
        return getattr(_random, name)


class LoaderReject(Exception):
    pass


def compile_program(content):
    L = load()
    try:
        parsed = L["parse"](filename="", content=content, include_source_mapping=False, version="2.x")
        cfg = L["mkcfg"](parsed["flows"])
    except steps.StepBudgetExceeded:
        raise
    except Exception as e:
        raise LoaderReject("%s: %s" % (type(e).__name__, str(e)[:300]))
    return cfg


def program_size(st):
    return sum(len(c.elements) for c in st.flow_configs.values()) + len(st.flow_configs)


def budget_for(st):
    return 400 * (program_size(st) + 10)


def mk(content, start_main=True, budget=True, after_init=None):
    """Compile and initialise; returns the State (main started)."""
    L = load()
    cfg = compile_program(content)
    st = L["fl"].State(flow_states=[], flow_configs=cfg)
    try:
        L["sm"].initialize_state(st)
    except steps.StepBudgetExceeded:
        raise
    except Exception as e:
        raise LoaderReject("init %s: %s" % (type(e).__name__, str(e)[:300]))
    if after_init:
        after_init(st)
    if start_main:
        ev = L["sm"].InternalEvent(name="StartFlow", arguments={"flow_id": "main"})
        run(st, ev, budget=budget)
    return st


def run(st, event, budget=True):
    """One run_to_completion under the logical step budget. Returns the list of
    outgoing event dicts (copies)."""
    L = load()
    b = budget_for(st) if budget is True else budget
    steps.start(b or None)
    try:
        L["sm"].run_to_completion(st, event)
    finally:
        used = steps.stop()
        st._vp_last_steps = used
        st._vp_max_ratio = max(getattr(st, "_vp_max_ratio", 0.0), used / float(b)) if b else 0.0
    return [dict(e) for e in st.outgoing_events]


def types(events):
    return [e["type"] for e in events]


class ApiSession:
    """The same program driven through the public event-processing API: RuntimeV2_x.process_events (which feeds the
    outgoing events back as input events, executes runtime-level actions and applies its own event budget).
    `out` / `run()` give the outgoing event dicts of one API call; `st` is the State the call returned."""

    def __init__(self, content, budget=3_000_000):
        load()
        from nemoguardrails import RailsConfig
        from nemoguardrails.colang.v2_x.runtime.runtime import RuntimeV2_x

        self.budget = budget
        try:
            self.rt = RuntimeV2_x(RailsConfig.from_content(content, 'colang_version: "2.x"\nmodels: []\n'))
        except steps.StepBudgetExceeded:
            raise
        except Exception as e:
            raise LoaderReject("runtime %s: %s" % (type(e).__name__, str(e)[:300]))
        self.st = None
        self.out = self._feed([])

    def _feed(self, events):
        import asyncio

        steps.start(self.budget)
        try:
            out, self.st = asyncio.run(self.rt.process_events(events, self.st, blocking=True))
        finally:
            steps.stop()
        return [dict(e) for e in out]

    def run(self, event):
        return self._feed([event])
