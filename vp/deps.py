"""Third-party tooling (icontract, deal) installed offline next to the checks.

/verif/.deps is git-ignored; setup_cmd creates it and every check re-creates it
if it is missing (fresh restores only contain committed files).
"""
import fcntl
import os
import subprocess
import sys

from . import VERIF

DEPS = os.path.join(VERIF, ".deps")
WHEELS = "/opt/veriftools/wheels"


def ensure(verbose=False):
    marker = os.path.join(DEPS, ".ok")
    if not os.path.exists(marker):
        os.makedirs(DEPS, exist_ok=True)
        with open(os.path.join(DEPS, ".lock"), "w") as lk:
            fcntl.flock(lk, fcntl.LOCK_EX)
            if not os.path.exists(marker):
                cmd = [
                    sys.executable, "-m", "pip", "install", "--quiet", "--no-index",
                    "--find-links", WHEELS, "--target", DEPS, "--no-deps",
                    "icontract", "asttokens", "six", "typing_extensions",
                ]
                r = subprocess.run(cmd, stdout=subprocess.PIPE, stderr=subprocess.STDOUT)
                if r.returncode != 0:
                    # asttokens/six may already be importable from /venv; retry minimal
                    r = subprocess.run(cmd[:-3], stdout=subprocess.PIPE, stderr=subprocess.STDOUT)
                if r.returncode == 0:
                    open(marker, "w").write("ok\n")
                elif verbose:
                    sys.stderr.write(r.stdout.decode(errors="replace"))
    if DEPS not in sys.path:
        sys.path.append(DEPS)
    return os.path.exists(marker)


if __name__ == "__main__":
    ok = ensure(verbose=True)
    import compileall  # noqa

    print("deps ok" if ok else "deps FAILED")
    sys.exit(0 if ok else 1)
