"""C10 — event processing terminates and a faulty flow fails alone.

(T) termination: logical step counter (function entries into statemachine.py and
    eval.py, sys.monitoring) per run_to_completion must stay below
    B(program) = 400 * (compiled elements + flows + 10).
(I) isolation: twin runs through RuntimeV2_x.process_events of a valid program P
    and of P' = P with one erroneous statement injected at a statement position of
    the victim flow after its first wait. Refuted by: an exception escaping
    process_events; no ColangError seen by the error-watch flow; the outputs of
    witness flows (own loops, no shared state) differing from P's.
"""
import asyncio
import random

PROPERTY = "C10"
LEVEL = "fault_enumeration"
RULE = (
    "termination cases = (generated program with loops/recursion each containing a wait, activated flows that finish or fail immediately, "
    "mutual activation, hierarchies with loops; random event history); isolation cases = (victim body seed, injection position after the "
    "victim's first wait, error kind in {undefined function, 1/0, str+int, attribute of None, invalid regex in match, unknown variable reference "
    "match, non-flow reference match, bad expression in send argument, bad expression in if condition}) - every position x kind is enumerated per victim; "
    "non-trivial = (T) program has a loop, recursion or an activated flow / (I) a witness event is delivered after the fault; distinct = (program, history)"
)
MIN_HELD = {"quick": 500, "thorough": 8000}
ASSUMPTIONS = [
    "termination is decided on the logical step counter, never on wall-clock; B depends only on program size",
    "witness flows live in their own @loop, share nothing with the victim and are activated by main before the victim is started",
    "fault positions before the victim's first wait are excluded: a flow failing while being started fails its starter by design",
]
SAMPLE_EVERY = 97
CASE_WALL_S = 120

ERRS = {
    "undef-func": "$z = foo(1)",
    "div0": "$z = 1/0",
    "type": '$z = "a" + 1',
    "attr-none": "$z = $nothing.x",
    "send-bad-expr": "send OutX(x=1/0)",
    "send-undef-var-member": "send OutX(x=$nothing.y)",
    "start-action-bad-arg": "start OutXAction(x=1/0)",
    "start-flow-bad-arg": "start vhelper2 1/0",
    "umim-param-wrong-type": "start UtteranceBotAction(script=5)",
    "if-bad-cond": "if 1/0 > 0\n{ind}  $z = 1",
    # invalid patterns that make the interpreter raise plain Python exceptions (AttributeError, AssertionError, KeyError), not its own error classes
    "flowref-unimplemented-member": "start vhelper2 1 as $fr\n{ind}match $fr.Paused()",
    "flowref-unknown-member": "start vhelper2 1 as $fr\n{ind}match $fr.Foo()",
    "actionref-unknown-member": "start OutXAction(x=1) as $ar\n{ind}match $ar.Foo()",
    "send-flowref-unimplemented-member": "start vhelper2 1 as $fr\n{ind}send $fr.Resumed()",
    # errors raised while the START of another flow is processed (not while a statement of the victim is slid)
    "start-flow-too-many-args": "start vhelper3 1",
    "start-flow-bad-default": "start vdefault",
    # the faulty element belongs to a compound statement that is the FIRST statement of its flow (nothing before it in that flow)
    "callee-leading-if-cond": 'await vcallee cond "12"',
    "callee-leading-if-body": "await vcallee body 1",
    "callee-leading-elif-cond": "await vcallee elif 0",
    "callee-leading-when-body": "await vcallee when 1",
    "bad-regex-match": 'match G(x=regex("("))',
    "unknown-ref-match": "match $nope.Finished()",
    "bad-member": "match $a.Finished()",
    # the faulty match shares its flow with a second head waiting for the same event name (or-group alternatives)
    "bad-regex-or-first": 'match G(x=regex("(")) or G(x="ok")',
    "bad-regex-or-last": 'match G(x="ok") or G(x=regex("("))',
    "bad-regex-and": 'match G(x=regex("(")) and F()',
}
MATCH_TIME = ("bad-regex-match", "unknown-ref-match", "bad-member", "bad-regex-or-first", "bad-regex-or-last", "bad-regex-and")
ACTION_TIME = ("umim-param-wrong-type",)  # the error is raised while the outgoing action event is created (event validation)
REGEX_KINDS = ("bad-regex-match", "bad-regex-or-first", "bad-regex-or-last", "bad-regex-and")

HEADER = '''flow main
  activate witness e
  activate witness f
  activate witness g
  activate errwatch
  start victim
  match Never()

@loop("we")
flow witness e
  match E()
  send OutWE()

@loop("wf")
flow witness f
  match F()
  send OutWF()

@loop("wg")
flow witness g
  match G()
  send OutWG()

@loop("ew")
flow errwatch
  match ColangError() as $e
  send SawError()

@loop("v")
flow vhelper
  match G() or F()
  match G()
  match G()

@loop("v")
flow vhelper2 $p
  match Never()

@loop("v")
flow vcallee cond $value
  if $value > 3
    $z = 1
  match Never()

@loop("v")
flow vcallee body $value
  if $value == 1
    $z = 1/0
  match Never()

@loop("v")
flow vcallee elif $value
  if $value == 1
    $z = 1
  elif $value.nothing > 2
    $z = 2
  else
    $z = 3
  match Never()

@loop("v")
flow vcallee when $value
  when vhelper3
    $z = 1/0
  match Never()

@loop("v")
flow vhelper3
  $q = 1

@loop("v")
flow vdefault $p=1/0
  match Never()

@loop("v")
flow victim
'''


def gen_victim(rng):
    """returns list of (indent, text) lines; the first wait is at a known index"""
    lines = [(1, "$a = 1"), (1, "match E()")]
    if rng.random() < 0.5:
        # a descendant of the victim waiting for the same event names as the (later) faulty match
        lines.insert(1, (1, "start vhelper"))
    n = rng.randint(3, 6)
    k = 0
    for _ in range(n):
        r = rng.random()
        k += 1
        if r < 0.25:
            lines.append((1, "$b%d = %d" % (k, k)))
        elif r < 0.5:
            lines.append((1, "match %s()" % rng.choice(["E", "F", "G"])))
        elif r < 0.7:
            lines.append((1, "send OutV(n=%d)" % k))
            lines.append((1, "match %s()" % rng.choice(["E", "F"])))
        elif r < 0.85:
            lines.append((1, "if $a == 1"))
            lines.append((2, "match %s()" % rng.choice(["E", "F"])))
            lines.append((2, "$c%d = 2" % k))
        else:
            lines.append((1, "$i%d = 0" % k))
            lines.append((1, "while $i%d < 2" % k))
            lines.append((2, "match %s()" % rng.choice(["E", "F"])))
            lines.append((2, "$i%d = $i%d + 1" % (k, k)))
    lines.append((1, "match Never()"))
    return lines


def render_victim(lines, inject=None):
    out = []
    for idx, (ind, text) in enumerate(lines):
        if inject is not None and inject[0] == idx:
            stmt = ERRS[inject[1]].replace("{ind}", "  " * ind)
            if not (len(inject) > 2 and inject[2]):
                # unambiguous "the victim reached the faulty statement" marker. Left out in the `nomark` variant: the marker is
                # itself an action statement, so with it the faulty statement is never reached in the same processing step in
                # which OTHER flows' heads stand on action statements (witnesses reacting to the same event)
                out.append("  " * ind + "send AtFault()")
            out.append("  " * ind + stmt)
        out.append("  " * ind + text)
    return HEADER + "\n".join(out) + "\n"


# ------------------------------------------------------------------ termination programs
def gen_term(rng):
    kind = rng.choice(["loops", "recursion", "act-finish", "act-fail", "mutual", "hier", "act-conflict", "act-internal-wait", "act-misc", "err-handler"])
    meta = {"kind": kind, "fails_before_wait": False, "activated_never_waiting": False}
    if kind == "loops":
        d = rng.randint(1, 3)
        body = []
        ind = 1
        for j in range(d):
            body.append("  " * ind + "$i%d = 0" % j)
            body.append("  " * ind + ("while True" if j == 0 else "while $i%d < %d" % (j, rng.randint(1, 3))))
            ind += 1
            body.append("  " * ind + "match E%d()" % rng.randint(1, 3))
            body.append("  " * ind + "$i%d = $i%d + 1" % (j, j))
            if rng.random() < 0.3:
                body.append("  " * ind + "if $i%d == 2" % j)
                body.append("  " * (ind + 1) + rng.choice(["break", "continue"]))
        body.append("  " * ind + "send Tick()")
        src = "flow main\n" + "\n".join(body) + "\n"
    elif kind == "recursion":
        src = (
            "flow main\n  await rec 0\n  match Never()\n\n"
            "flow rec $n\n  match E%d()\n  send Depth(n=$n)\n  if $n < %d\n    await rec ($n + 1)\n" % (rng.randint(1, 3), rng.randint(2, 6))
        )
    elif kind == "act-finish":
        src = "flow main\n  activate fa\n  activate fb\n  match E1()\n  send Done()\n  match Never()\n\nflow fa\n  $x = 1\n\nflow fb\n  match E2()\n  send B()\n"
        meta["activated_never_waiting"] = True
    elif kind == "act-fail":
        how = rng.choice(["abort", "$z = 1/0", "await fz"])
        src = "flow main\n  activate fa\n  match E1()\n  send Done()\n  match Never()\n\nflow fa\n  %s\n\nflow fz\n  abort\n" % how
        meta["fails_before_wait"] = True
    elif kind == "mutual":
        src = (
            "flow main\n  activate fa\n  match Never()\n\n"
            "flow fa\n  activate fb\n  match E1()\n  send A()\n\n"
            "flow fb\n  match E2()\n  send B()\n  match E3()\n"
        )
    elif kind == "act-internal-wait":
        # an activated flow whose only waits are on flows that finish in the same processing step
        body = rng.choice(["  await fb\n", "  start fb as $r\n  match $r.Finished()\n", "  when fb\n    $y = 1\n  else\n    $y = 2\n"])
        src = "flow main\n  activate fa\n  match E1()\n  send Done()\n  match Never()\n\nflow fa\n%s\nflow fb\n  $x = 1\n" % body
        meta["activated_internal_wait_only"] = True
    elif kind == "act-misc":
        body = rng.choice(["  send Ping()\n", "  await FaAction()\n", "  start fb\n  abort\n", "  start FaAction() as $a\n  match $a.Finished()\n  send Pong()\n", "  match E2()\n  abort\n"])
        src = "flow main\n  activate fa\n  match E1()\n  send Done()\n  match Never()\n\nflow fa\n%s\nflow fb\n  match E3()\n" % body
    elif kind == "err-handler":
        # an activated flow that reacts to ColangError events (the documented way to notice runtime errors); in half of the
        # programs the handler itself contains a faulty statement, i.e. its own failure produces the event it waits for
        bad = rng.random() < 0.5
        hbody = rng.choice(["  $z = 1/0\n", "  send Report(x=$nothing.y)\n", '  $z = "a" + 1\n']) if bad else rng.choice(["  send Report(t=$e.type)\n", "  $seen = 1\n"])
        src = (
            "flow main\n  activate handler\n  start victim\n  match Never()\n\n"
            "flow handler\n  match ColangError() as $e\n%s\n" % hbody
            + "flow victim\n  match E%d()\n  $y = 1/0\n" % rng.randint(1, 3)
        )
        meta["error_handler_raises"] = bad
    elif kind == "act-conflict":
        # an activated flow without external wait that loses an action conflict against its activator
        src = (
            "flow main\n  start fa\n  match Never()\n\n"
            "flow fa\n  match E1()\n  activate fb\n  start FaAction()\n  match E2()\n\n"
            "flow fb\n  start FbAction()\n  match E3()\n"
        )
    else:
        from . import gen_v2

        g = gen_v2.gen_hierarchy(rng, max_flows=5, loops=True, main_kids_first=True, ext_end=rng.random() < 0.3)
        src = g["src"]
        if _activated_internal_wait_only(src):
            meta["activated_internal_wait_only"] = True  # structural signature of the listed finding, also inside a hierarchy
    hist = ["E%d" % rng.randint(1, 3) for _ in range(rng.randint(3, 10))]
    return src, hist, meta



def _activated_internal_wait_only(src):
    """Structural test on a generated hierarchy: is some ACTIVATED flow of the kind the listed finding names - it waits
    (await <flow>) but only for flows that themselves never wait for anything external, so it ends in the processing step
    in which it was started? NW = least set of flows whose every statement is an assignment, the start of an action, a
    FinishFlow/StopFlow send, or start/await/activate of NW flows."""
    import re

    bodies = {}
    cur = None
    for line in src.split("\n"):
        if line.startswith("flow "):
            cur = line[5:].strip()
            bodies[cur] = []
        elif cur is not None and line.strip():
            bodies[cur].append(line.strip())
    def refs(stmt):
        m_ = re.match(r"^(start|await|activate) ((?:f[a-z]+)(?: (?:and|or) f[a-z]+)*)$", stmt)
        return re.findall(r"f[a-z]+", m_.group(2)) if m_ else None
    nw = set()
    changed = True
    while changed:
        changed = False
        for f_, body in bodies.items():
            if f_ in nw or f_ == "main":
                continue
            ok = True
            for st in body:
                if re.match(r"^start F\w+Action\(\)( as \$\w+)?$", st) or re.match(r"^\$\w+ = ", st) or st.startswith("send FinishFlow(") or st.startswith("send StopFlow("):
                    continue
                r_ = refs(st)
                if r_ is not None and all(x in nw for x in r_):
                    continue
                ok = False
                break
            if ok:
                nw.add(f_)
                changed = True
    activated = set(re.findall(r"^\s*activate (f[a-z]+)\s*$", src, re.M))
    for f_ in activated & nw:
        if any(st.startswith("await f") for st in bodies.get(f_, [])):
            return True
    return False


def cases(tier, seed):
    base = seed * 9_000_011
    i = 0
    nt = 1200 if tier == "quick" else 30000
    for k in range(nt):
        i += 1
        yield {"id": i, "fam": "term", "seed": base + k}
    for k in range(60 if tier == "quick" else 600):
        i += 1
        yield {"id": i, "fam": "apiterm", "seed": base + k}
    for kind in sorted(ERRS):
        i += 1
        yield {"id": i, "fam": "iso-repeat", "kind": kind}
    # the same, with the faulty flow activated by TWO flows of which the first ends, followed by idle time beyond the clean-up age
    for kind in sorted(ERRS):
        i += 1
        yield {"id": i, "fam": "iso-repeat", "kind": kind, "two": True}
    # long runs: healthy activated flows that act BEFORE their first wait and keep losing action conflicts to each other, next
    # to a faulty activated flow that fails (after it was armed) before its first wait on every restart
    for k in range(40 if tier == "quick" else 400):
        i += 1
        yield {"id": i, "fam": "longrun", "seed": base + k}
    nv = 14 if tier == "quick" else 150
    for k in range(nv):
        rng = random.Random(base + k)
        lines = gen_victim(rng)
        first_wait = next(i for i, (_, t) in enumerate(lines) if t == "match E()")
        positions = list(range(first_wait + 1, len(lines)))  # after the victim's first wait `match E()`
        i += 1
        yield {"id": i, "fam": "iso-base", "seed": base + k}
        for pos in positions:
            for kind in sorted(ERRS):
                i += 1
                yield {"id": i, "fam": "iso", "seed": base + k, "pos": pos, "kind": kind}
                i += 1
                yield {"id": i, "fam": "iso", "seed": base + k, "pos": pos, "kind": kind, "nomark": True}


_R = {}


class ApiRoundsExceeded(BaseException):
    """process_events keeps feeding its own outgoing events back without end (BaseException: no handler may swallow it)."""


def setup_worker():
    from . import steps, v2h

    L = v2h.load()
    from nemoguardrails.colang.v2_x.runtime import runtime as rt

    if not hasattr(rt, "run_to_completion") or not hasattr(rt.RuntimeV2_x, "process_events"):
        raise RuntimeError("runtime.run_to_completion / RuntimeV2_x.process_events missing")
    orig = rt.run_to_completion
    _R["rtc_calls"] = 0
    _R["max_ratio"] = 0.0

    def budgeted(state, event):
        lim = _R.get("rtc_limit")
        if lim is not None and _R["rtc_in_call"] >= lim:
            _R["rtc_limit"] = None
            raise ApiRoundsExceeded("more than %d run_to_completion rounds inside one process_events call" % lim)
        _R["rtc_in_call"] = _R.get("rtc_in_call", 0) + 1
        b = v2h.budget_for(state)
        steps.start(b)
        try:
            return orig(state, event)
        finally:
            used = steps.stop()
            _R["rtc_calls"] += 1
            _R["max_ratio"] = max(_R["max_ratio"], used / float(b))

    rt.run_to_completion = budgeted
    _R["rt"] = rt


def run_term(case):
    from . import steps, v2h

    L = v2h.load()
    rng = random.Random(case["seed"])
    src, hist, meta = gen_term(rng)
    L["random"].reset(seed=case["seed"])
    L["clock"].reset()
    base = {"key": repr((src, hist)), "nontrivial": True, "sample": {"program": src, "history": hist, "kind": meta["kind"]}, "meta": meta, "fam": "term"}
    obs = {"term_" + meta["kind"]: 1, "events": 0}
    st = None
    try:
        st = v2h.mk(src)
        for e in hist:
            v2h.run(st, {"type": e})
            obs["events"] += 1
    except v2h.LoaderReject as e:
        return dict(base, verdict="inconclusive", reason="loader-reject", detail=str(e)[:300], nontrivial=False)
    except steps.StepBudgetExceeded as e:
        size = v2h.program_size(st) if st is not None else None
        return dict(base, verdict="violated", observed=obs, mech="step-budget-exceeded", witness={"program": src, "history": hist, "at_event": obs["events"], "detail": str(e), "program_size": size})
    except Exception as e:
        # an exception escaping run_to_completion is judged by the isolation family through process_events
        obs["escaped_exceptions"] = 1
        obs["max_step_ratio"] = round(getattr(st, "_vp_max_ratio", 0.0), 4) if st is not None else 0
        return dict(base, verdict="held", observed=obs, note="exception %s escaped run_to_completion (judged by the isolation family)" % type(e).__name__)
    obs["max_step_ratio"] = round(getattr(st, "_vp_max_ratio", 0.0), 4)
    return dict(base, verdict="held", observed=obs)



# ------------------------------------------------------------------ termination through the public API
# RuntimeV2_x.process_events feeds outgoing events back as input events, so flows can talk to each other through ordinary
# (non-internal) events. Every loop below contains a waiting statement; processing ONE external event must still end
# within a bound that depends on the program only (the runtime's own event budget `max_events` ends such cycles).
def gen_apiterm(rng):
    kind = rng.choice(["pingpong", "ring", "fanout", "selfecho", "decay"])
    n = rng.randint(2, 4)
    if kind == "pingpong":
        src = "flow main\n  activate ping\n  activate pong\n  activate witness\n  match Never()\n\nflow ping\n  match Ping()\n  send Pong()\n\nflow pong\n  match Pong()\n  send Ping()\n"
        first = "Ping"
    elif kind == "ring":
        names = ["R%d" % i for i in range(n)]
        src = "flow main\n" + "".join("  activate r%s\n" % "abcd"[i] for i in range(n)) + "  activate witness\n  match Never()\n\n"
        for i in range(n):
            src += "flow r%s\n  match %s()\n  send %s()\n\n" % ("abcd"[i], names[i], names[(i + 1) % n])
        first = names[0]
    elif kind == "fanout":
        src = "flow main\n  activate fa\n  activate fb\n  activate witness\n  match Never()\n\n@loop(\"a\")\nflow fa\n  match Tick()\n  send Tock()\n\n@loop(\"b\")\nflow fb\n  match Tock()\n  send Tick()\n"
        first = "Tick"
    elif kind == "selfecho":
        src = "flow main\n  activate echo\n  activate witness\n  match Never()\n\nflow echo\n  match Echo()\n  send Echo()\n"
        first = "Echo"
    else:
        # a cycle that ends by itself after a few rounds
        src = "flow main\n  activate witness\n  start cnt\n  match Never()\n\nflow cnt\n  $i = 0\n  while $i < %d\n    match Step()\n    send Step()\n    $i = $i + 1\n" % rng.randint(2, 6)
        first = "Step"
    src += "\n@loop(\"w\")\nflow witness\n  match W()\n  send OutW()\n"
    return src, first, kind


def run_apiterm(case):
    from . import steps

    rng = random.Random(case["seed"])
    src, first, kind = gen_apiterm(rng)
    base = {"key": src, "nontrivial": True, "sample": {"program": src, "first_event": first, "kind": kind}, "fam": "apiterm", "meta": {"kind": "api-" + kind}}
    obs = {"apiterm_" + kind: 1}

    async def go():
        from nemoguardrails import RailsConfig

        rt = _R["rt"]
        runtime = rt.RuntimeV2_x(RailsConfig.from_content(src, 'colang_version: "2.x"\nmodels: []\n'))
        limit = 4 * int(getattr(runtime, "max_events", 500)) + 200
        out, st = await runtime.process_events([], None)
        rounds = []
        for ev in (first, "W", first, "W"):
            _R["rtc_in_call"], _R["rtc_limit"] = 0, limit
            out, st = await runtime.process_events([{"type": ev}], st)
            rounds.append((ev, _R["rtc_in_call"], [e["type"] for e in out].count("OutW")))
        return rounds, limit

    try:
        rounds, limit = asyncio.run(go())
    except ApiRoundsExceeded as e:
        return dict(base, verdict="violated", observed=obs, mech="process-events-does-not-return", witness={"program": src, "event": first, "detail": str(e)})
    except steps.StepBudgetExceeded as e:
        return dict(base, verdict="violated", observed=obs, mech="step-budget-exceeded", witness={"program": src, "event": first, "detail": str(e)})
    except Exception as e:
        return dict(base, verdict="inconclusive", reason="apiterm-raised:%s" % type(e).__name__, detail=str(e)[:300], observed=obs)
    finally:
        _R["rtc_limit"] = None
    obs["max_rtc_rounds_per_api_call"] = max(r[1] for r in rounds)
    obs["api_calls_checked"] = len(rounds)
    # the unrelated witness still reacts to its event after each (cut short) cycle
    if any(ev == "W" and outw != 1 for ev, _n, outw in rounds):
        return dict(base, verdict="violated", observed=obs, mech="witness-silent-after-event-cycle", witness={"program": src, "rounds": rounds})
    return dict(base, verdict="held", observed=obs)



# ------------------------------------------------------------------ the same error again: every failure is reported
REPEAT_HEADER = HEADER.replace("  start victim\n", "  activate victim\n").replace("flow victim\n", "flow victim\n  match G()\n")


def run_repeat(case):
    """An ACTIVATED flow fails with the very same error each time its event arrives: every failure must be reported as a
    ColangError event (the error-watch flow, itself activated, answers each with SawError) and the witnesses keep reacting."""
    from . import steps

    kind = case["kind"]
    stmt = ERRS[kind].replace("{ind}", "  ")
    src = REPEAT_HEADER + "  " + stmt + "\n  match Never()\n"
    hist = ["G", "E", "G", "F", "G", "G", "E"]
    if case.get("two"):
        # `first activator` activates the victim before main does and ends on EndFirst; AGE = 6.5 s of (virtual) idle time
        src = src.replace("  activate victim\n", "  start first activator\n  activate victim\n", 1) + "\nflow first activator\n  activate victim\n  match EndFirst()\n"
        hist = ["G", "E", "EndFirst", "AGE", "E", "G", "F", "AGE", "G", "G", "E"]
    res = {"key": "repeat:" + kind + (":two" if case.get("two") else ""), "fam": "iso-repeat", "kind": kind, "nontrivial": True, "sample": {"program": src, "history": hist, "error_kind": kind}}
    obs = {"repeat_" + kind: 1, "repeat_two_activators": int(bool(case.get("two")))}
    _R["max_ratio"] = 0.0
    _R["rtc_calls"] = 0
    try:
        outs = asyncio.run(_drive(src, hist))
    except steps.StepBudgetExceeded:
        return dict(res, verdict="violated", observed=obs, mech="step-budget-exceeded", witness={"program": src, "history": hist})
    except BaseException as e:
        if isinstance(e, (KeyboardInterrupt, SystemExit, steps.WatchdogTimeout)):
            raise
        return dict(res, verdict="violated", observed=obs, mech="exception-escaped-process-events:%s" % type(e).__name__, witness={"program": src, "history": hist, "escaped": str(e)[:200]})
    hist = [ev for ev in hist if ev != "AGE"]
    per_g = [step.count("SawError") for step, ev in zip(outs[1:], hist) if ev == "G"]
    wit = [[x for x in step if x in ("OutWE", "OutWF", "OutWG")] for step in outs[1:]]
    exp_wit = [["OutW" + ev] if ev in "EFG" else [] for ev in hist]
    obs["repeated_failures_checked"] = len(per_g)
    problems = []
    if kind in REGEX_KINDS:
        # an invalid pattern is only evaluated when the NEXT G arrives: the victim fails (and is restarted) on every second G
        want = [i % 2 for i in range(len(per_g))]
    else:
        want = [1] * len(per_g)
    if per_g != want:
        problems.append("failure-not-reported-each-time")
    if wit != exp_wit:
        problems.append("unrelated-witness-output-differs")
    if problems:
        return dict(res, verdict="violated", observed=obs, mech="+".join(problems), witness={"program": src, "history": hist, "outputs": outs, "saw_error_per_G": per_g})
    return dict(res, verdict="held", observed=obs)


async def _drive(src, hist):
    from nemoguardrails import RailsConfig

    rt = _R["rt"]
    cfg = RailsConfig.from_content(src, 'colang_version: "2.x"\nmodels: []\n')
    runtime = rt.RuntimeV2_x(cfg)
    outs = []
    out, st = await runtime.process_events([], None)
    outs.append([e["type"] for e in out])
    for ev in hist:
        if ev == "AGE":
            from . import v2h

            v2h.load()["clock"].advance(6.5)
            continue
        out, st = await runtime.process_events([{"type": ev}], st)
        outs.append([e["type"] for e in out])
    return outs


def witness_proj(outs):
    return [[x for x in step if x in ("OutWE", "OutWF", "OutWG")] for step in outs]


_BASE_CACHE = {}


def run_iso(case):
    from . import steps

    rng = random.Random(case["seed"])
    lines = gen_victim(rng)
    hist = ["E", "F", "G", "E", "F", "E", "G", "F", "E", "F", "G", "E", "F", "G"]
    src0 = render_victim(lines)
    fam = case["fam"]
    _R["max_ratio"] = 0.0
    _R["rtc_calls"] = 0
    try:
        if case["seed"] not in _BASE_CACHE:
            _BASE_CACHE.clear()
            _BASE_CACHE[case["seed"]] = asyncio.run(_drive(src0, hist))
        base_outs = _BASE_CACHE[case["seed"]]
    except steps.StepBudgetExceeded:
        raise
    except BaseException as e:
        if isinstance(e, (KeyboardInterrupt, SystemExit, steps.WatchdogTimeout)):
            raise
        return {"verdict": "inconclusive", "reason": "base-program-failed:%s" % type(e).__name__, "detail": str(e)[:300] + "\n" + src0, "fam": fam}
    wbase = witness_proj(base_outs)
    if fam == "iso-base":
        ok = sum(len(s) for s in wbase) >= 6 and not any("SawError" in s for s in base_outs)
        res = {"key": src0, "fam": fam, "nontrivial": False, "sample": {"program": src0, "history": hist, "outputs": base_outs}, "observed": {"base_programs": 1, "rtc_calls": _R["rtc_calls"]}}
        if not ok:
            return dict(res, verdict="inconclusive", reason="base-program-not-clean")
        return dict(res, verdict="held")
    pos, kind = case["pos"], case["kind"]
    src = render_victim(lines, (pos, kind, bool(case.get("nomark"))))
    res = {"key": repr((src, hist)), "fam": fam, "kind": kind, "nontrivial": True, "sample": {"program": src, "history": hist, "error_kind": kind, "position": pos}}
    obs = {"iso_" + kind: 1, "fault_positions": 1, "iso_without_marker": int(bool(case.get("nomark")))}
    problems = []
    outs = None
    try:
        outs = asyncio.run(_drive(src, hist))
    except steps.StepBudgetExceeded as e:
        problems.append("step-budget-exceeded")
    except BaseException as e:
        if isinstance(e, (KeyboardInterrupt, SystemExit, steps.WatchdogTimeout)):
            raise
        problems.append("exception-escaped-process-events:%s" % type(e).__name__)
        res["escaped"] = "%s: %s" % (type(e).__name__, str(e)[:200])
    obs["rtc_calls"] = _R["rtc_calls"]
    obs["max_step_ratio"] = round(_R["max_ratio"], 4)
    if outs is not None:
        saw = any("SawError" in s for s in outs)
        obs["colang_error_seen"] = int(saw)
        w = witness_proj(outs)
        # was the fault reached? The injected statement is preceded by `send AtFault()`.
        k = next((i for i, step in enumerate(outs) if "AtFault" in step), None)
        if k is None and outs != base_outs:
            # the marker itself can be lost when the faulty event is dropped as a whole: fall back to the first differing step
            k = next((i for i, (a, b) in enumerate(zip(outs, base_outs)) if a != b), None)
            obs["marker_lost"] = 1
        if k is None:
            return dict(res, verdict="inconclusive", reason="expected:fault-position-not-reached", observed=obs, nontrivial=False)
        if kind in REGEX_KINDS and "G" not in hist[k:]:
            # an invalid pattern is only evaluated when an event of that name arrives
            return dict(res, verdict="inconclusive", reason="expected:fault-not-triggered", observed=obs, nontrivial=False)
        obs["witness_events_after_fault"] = sum(len(x) for x in wbase[k:])
        res["nontrivial"] = sum(len(x) for x in wbase[k + 1:]) > 0
        if not saw:
            problems.append("no-colang-error-reported")
        if w != wbase:
            problems.append("unrelated-witness-output-differs")
            first = next(i for i, (a, b) in enumerate(zip(w, wbase)) if a != b)
            res["diff_at_step"] = first
        obs["witness_events_compared"] = sum(len(s) for s in wbase)
    if problems:
        return dict(res, verdict="violated", observed=obs, mech="+".join(problems), witness={"program": src, "history": hist, "outputs": outs, "base_outputs": base_outs, "problems": problems, "escaped": res.get("escaped")})
    return dict(res, verdict="held", observed=obs)


STORM_FAULTS = ["$x = 1/0", "$x = foo(1)", 'send OutX(x=$nothing.y)', "start UtteranceBotAction(script=5)", "$x = \"a\" + 1"]


def run_longrun(case):
    """oracle: EVERY Go() event makes each healthy activated flow act exactly once (it finishes, restarts, and the restart acts
    before its first wait - whoever loses the action conflict is restarted once more), for as many events as are fed;
    the faulty flow's errors are reported; processing terminates"""
    from . import steps, v2h

    L = v2h.load()
    rng = random.Random(case["seed"])
    n_healthy = rng.choice([2, 2, 3])
    with_bad = rng.random() < 0.7
    n_events = rng.randint(14, 40)
    names = "abc"[:n_healthy]
    src = "".join("flow h%s\n  send Out%s()\n  match Go()\n\n" % (c, c.upper()) for c in names)
    if with_bad:
        src += "flow bad\n  global $armed\n  if $armed\n    %s\n  match Go()\n  $armed = True\n\n" % rng.choice(STORM_FAULTS)
    src += "@loop(\"ew\")\nflow errwatch\n  match ColangError() as $e\n  send SawError()\n\n"
    src += "flow main\n  global $armed\n  $armed = False\n" + "".join("  activate h%s\n" % c for c in names) + ("  activate bad\n" if with_bad else "") + "  activate errwatch\n  match Never()\n"
    L["random"].reset(seed=case["seed"])
    L["clock"].reset()
    base = {"key": repr((src, n_events)), "nontrivial": True, "fam": "longrun", "sample": {"program": src, "events": n_events}}
    obs = {"longrun_cases": 1, "longrun_events": 0, "longrun_errors_reported": 0}
    want = sorted("Out" + c.upper() for c in names)
    try:
        st = v2h.mk(src)
        first = sorted(t for t in v2h.types(st.outgoing_events) if t.startswith("Out"))
        if first != want:
            return dict(base, verdict="violated", observed=obs, mech="healthy-activated-flow-did-not-act", witness={"program": src, "at_event": 0, "expected": want, "got": first})
        for k in range(n_events):
            out = v2h.run(st, {"type": "Go"})
            obs["longrun_events"] += 1
            ty = v2h.types(out)
            obs["longrun_errors_reported"] += ty.count("SawError")
            got = sorted(t for t in ty if t.startswith("Out"))
            if got != want:
                return dict(base, verdict="violated", observed=obs, mech="healthy-activated-flow-did-not-act", witness={"program": src, "at_event": k + 1, "expected": want, "got": got})
            if with_bad and k == 0 and "SawError" not in ty:
                # the first Go() arms the faulty flow; its restarted instances fail at once (the interpreter gives the flow up
                # after a number of such failures in a row - afterwards it is gone and reports nothing more)
                return dict(base, verdict="violated", observed=obs, mech="failure-not-reported", witness={"program": src, "at_event": k + 1, "outputs": ty})
    except v2h.LoaderReject as e:
        return dict(base, verdict="inconclusive", reason="loader-reject", detail=str(e)[:300], nontrivial=False)
    except steps.StepBudgetExceeded as e:
        return dict(base, verdict="violated", observed=obs, mech="step-budget-exceeded", witness={"program": src, "at_event": obs["longrun_events"], "detail": str(e)})
    except Exception as e:
        return dict(base, verdict="violated", observed=obs, mech="exception-escaped:%s" % type(e).__name__, witness={"program": src, "at_event": obs["longrun_events"], "detail": str(e)[:300]})
    return dict(base, verdict="held", observed=obs)


def run_case(case):
    if case["fam"] == "longrun":
        return run_longrun(case)
    if case["fam"] == "term":
        return run_term(case)
    if case["fam"] == "apiterm":
        return run_apiterm(case)
    if case["fam"] == "iso-repeat":
        return run_repeat(case)
    return run_iso(case)


def classify(r):
    if r.get("fam") == "apiterm":
        return "api-termination:%s" % r.get("mech")
    if r.get("fam") == "longrun":
        return "longrun:%s" % r.get("mech")
    if r.get("fam") == "iso-repeat":
        return "repeated-failure:%s:%s" % (r.get("kind"), r.get("mech"))
    if r.get("fam") == "term":
        m = r.get("meta", {})
        if m.get("fails_before_wait"):
            return "activated-flow-fails-before-first-wait"
        if m.get("activated_internal_wait_only"):
            return "activated-flow-without-external-wait"
        if m.get("error_handler_raises"):
            return "activated-error-handler-that-raises"
        return "nontermination:" + str(m.get("kind"))
    if r.get("kind") in MATCH_TIME:
        return "error-outside-slide-not-contained"
    if r.get("kind") in ACTION_TIME:
        return "error-in-action-event-generation-not-contained"
    return "isolation:%s:%s" % (r.get("kind"), r.get("mech"))
