"""C02 — output rails gate every LLM-generated bot message, in every turn.

Same observation points and sequential model as C01, on the bot text; the per-turn
obligation is re-evaluated on every later turn of the conversation (a rejection,
rewrite or failure in one turn must not weaken later turns).
"""
import itertools
import json
import random

from . import railsconv as rc
from .railsmon import run_case_for, setup_worker  # noqa: F401

PROPERTY = "C02"
LEVEL = "exploration"
RULE = (
    "case = (generated configuration with m<=2 output rails (two flow shapes) and k<=3 input rails, pipeline in {v1 dialog, single-call, general, passthrough, "
    "v2 guardrails library}; output verdict matrix per (turn, rail) in {accept, reject, rewrite}; 2-4 turns mixing predefined-message turns with LLM turns). "
    "quick: ALL output verdict matrices for m=1 x 3 turns and m=2 x 2 turns on the v1 pipelines, all accept/reject matrices for m<=2 x 3 turns on v2, plus "
    "sampled ones. non-trivial = a reject/rewrite followed by >=1 later LLM turn; distinct = (configuration, matrix)"
)
MIN_HELD = {"quick": 300, "thorough": 3000}
ASSUMPTIONS = [
    "LLM-originated texts carry a unique token BOT-<conversation>-<turn>; output-rail verdicts are functions of the text shown and accept refusal/predefined texts "
    "(in v2 an input rail's refusal itself runs through the output rails)",
    "predefined-message turns: only the reply is checked (v1 skips output rails for them by design)",
]
SAMPLE_EVERY = 53
CASE_WALL_S = 150
TAG = "C02"


def _mk(ver, mode, m, turns, verdicts_out, cid, k=1, exc=False, kinds=None, out_shapes=None):
    spec = {"ver": ver, "k": k, "m": m, "mode": mode if ver == "v1" else "v2", "exc": exc}
    if ver == "v1":
        spec["in_shapes"] = ["v"] * k
        spec["out_shapes"] = out_shapes or ["v"] * m
        spec["dialog_action"] = False
    V = []
    it = iter(verdicts_out)
    for t in range(turns):
        for i in range(k):
            V.append(["in", t, i, "ok"])
        for i in range(m):
            V.append(["out", t, i, next(it)])
    return {"spec": spec, "turns": turns, "kinds": kinds or ["llm"] * turns, "V": V, "cid": cid, "fault": None}


def cases(tier, seed):
    i = 0
    for mode in ("dialog", "single_call", "general", "passthrough", "multi_step"):
        for m, turns in ((1, 3), (2, 2)):
            for vs in itertools.product(["ok", "block", "rewrite"], repeat=m * turns):
                i += 1
                yield dict(_mk("v1", mode, m, turns, vs, "o%d" % i), id=i)
    for m in (1, 2):
        for vs in itertools.product(["ok", "block"], repeat=m * 3):
            i += 1
            yield dict(_mk("v2", "v2", m, 3, vs, "o%d" % i), id=i)
    # the LLM's whole answer spells a reference to a context variable (`$user_message`): the rails judge these characters and
    # these characters are what comes back
    for mode in ("dialog", "general", "passthrough", "single_call"):
        for m in (1, 2):
            for vs in itertools.product(["ok", "block", "rewrite"], repeat=m * 2):
                i += 1
                c = _mk("v1", mode, m, 2, vs, "q%d" % i)
                c["spec"]["ref_bot"] = True
                yield dict(c, id=i)
    # completion-style calls generate(prompt=...): all verdict matrices, refusals and rail exceptions, with and without options
    for mode in ("dialog", "general", "passthrough"):
        for exc in (False, True):
            for m in (1, 2):
                for vs in itertools.product(["ok", "block", "rewrite"], repeat=m * 2):
                    i += 1
                    c = _mk("v1", mode, m, 2, vs, "p%d" % i, exc=exc)
                    c["api"] = "prompt"
                    if i % 3 == 0:
                        c["opts"] = [{"log": {"activated_rails": True}}, None]
                    yield dict(c, id=i)
    # the LLM repeats itself: the very same text in every turn, the rails' verdicts differing per turn (all verdict matrices)
    for ver, modes in (("v2", ("v2",)), ("v1", ("dialog", "general", "passthrough"))):
        for mode in modes:
            for m in (1, 2):
                for vs in itertools.product(["ok", "block"], repeat=m * 3):
                    i += 1
                    c = _mk(ver, mode, m, 3, vs, "s%d" % i)
                    c["spec"]["same_bot"] = True
                    yield dict(c, id=i)
    # directed: per-call options that switch categories off in ONE call (also on predefined-message turns), both
    # ways of carrying the conversation (resent message list / state object); every later turn is still checked
    OPTS = [None, {"rails": {"output": False}}, {"rails": {"input": False}}, {"rails": {"input": True, "output": True, "dialog": True, "retrieval": True}}]
    for mode in ("dialog", "single_call"):
        for api in ("messages", "state"):
            for kinds in (["fixed", "llm", "llm"], ["llm", "fixed", "llm"], ["fixed", "fixed", "llm"]):
                for o0 in OPTS:
                    for o1 in (None, {"rails": {"output": False}}):
                        for v in ("block", "rewrite"):
                            i += 1
                            c = _mk("v1", mode, 1, 3, ["ok" if kinds[t] == "fixed" else v for t in range(3)], "d%d" % i, kinds=kinds)
                            c.update(opts=[o0, o1, None], api=api)
                            yield dict(c, id=i)
    rng = random.Random(99 + seed)
    n1, n2 = (400, 50) if tier == "quick" else (6000, 600)
    for _ in range(n1):
        i += 1
        c = rc.gen_case(rng, "v1", tier, force={"m": rng.randint(1, 2), "turns": rng.randint(2, 4)})
        yield dict(c, id=i)
    for _ in range(n2):
        i += 1
        c = rc.gen_case(rng, "v2", tier, force={"m": rng.randint(1, 2), "turns": rng.randint(2, 4)})
        yield dict(c, id=i)
    for c in _lib_cases(random.Random(4242 + seed), 150 if tier == "quick" else 1500):
        i += 1
        yield dict(c, id=i)
    for c in _v2loops_cases():
        i += 1
        yield dict(c, id=i)


# ----------------------------------------------------------------------------- the library's own LLM-driven output rail
LIB_YAML = (
    "rails:\n  output:\n    flows:\n      - self check output\n"
    "prompts:\n  - task: self_check_output\n    max_length: %d\n    content: |-\n"
    "      SELFCHECK-OUT Is the following bot message bad (yes or no)?\n      <<<{{ bot_response }}>>>\n      Answer:\n"
)
LIB_REFUSAL = "I'm sorry, I can't respond to that."


def _lib_cases(rng, n):
    for _ in range(n):
        turns = []
        for t in range(rng.randint(1, 3)):
            size = rng.choice(["short", "short", "medium", "long", "huge"])
            turns.append({"size": size, "bad": rng.random() < 0.5, "where": rng.choice(["head", "middle", "tail", "tail"])})
        yield {"fam": "lib", "turns": turns, "max_length": rng.choice([400, 600, 16000]), "mode": rng.choice(["general", "dialog"]), "exc": rng.random() < 0.2,
               "cid": "l%d" % rng.randint(0, 10**6)}


def _lib_text(case, t):
    spec = case["turns"][t]
    n = {"short": 2, "medium": 12, "long": 40, "huge": 700}[spec["size"]]
    words = ["filler%d" % j for j in range(n)]
    if spec["bad"]:
        pos = {"head": 0, "middle": len(words) // 2, "tail": len(words)}[spec["where"]]
        words.insert(pos, "FORBIDDEN")
    return "BOT-%s-%d %s" % (case["cid"], t, " ".join(words))


def run_lib(case):
    """The shipped `self check output` rail (an LLM call judging the bot message). The scripted checker answers `yes` (= bad) iff
    the word FORBIDDEN is in the part of the message it is SHOWN. Refuted by: a reply containing a bad message; a reply
    containing a message the checker was not shown in full."""
    from .railsconv import rails

    L = rails.load()
    log = rails.Log()
    state = {"t": 0}

    def script(prompt):
        if "SELFCHECK-OUT" in prompt:
            shown = prompt.split("<<<", 1)[1].rsplit(">>>", 1)[0] if "<<<" in prompt and ">>>" in prompt else prompt
            log.add("checker", shown=shown)
            return "yes" if "FORBIDDEN" in shown else "no"
        tail = prompt.rstrip().split("\n")[-1]
        if case["mode"] == "dialog":
            if tail.startswith('user "'):
                return "  ask something"
            if tail.strip() in ("ask something", "user ask something"):
                return "bot answer something"
            return '  "%s"' % _lib_text(case, state["t"])
        return _lib_text(case, state["t"])

    y = rails.MAIN_MODELS + ("enable_rails_exceptions: True\n" if case["exc"] else "") + LIB_YAML % case["max_length"]
    co = 'define user ask something\n  "something"\n\ndefine flow\n  user ask something\n  bot answer something\n' if case["mode"] == "dialog" else ""
    base = {"key": repr((case["mode"], case["exc"], case["max_length"], [(x["size"], x["bad"], x["where"]) for x in case["turns"]])), "nontrivial": any(x["bad"] for x in case["turns"]),
            "sample": {"family": "library self check output", "mode": case["mode"], "max_length": case["max_length"], "turns": case["turns"]}, "ver": "v1", "fam": "lib"}
    obs = {"lib_turns": 0, "lib_checker_calls": 0, "lib_bad_messages": 0, "lib_overflowing_messages": 0}
    try:
        cfg = L["RailsConfig"].from_content(co, y)
        llm = L["RecLLM"](script=script, log=log)
        app = L["LLMRails"](cfg, llm=llm)
    except Exception as e:
        return dict(base, verdict="inconclusive", reason="app-build-failed:%s" % type(e).__name__, detail=str(e)[:300], nontrivial=False)
    msgs = []
    for t in range(len(case["turns"])):
        state["t"] = t
        log.items[:] = []
        text = _lib_text(case, t)
        msgs.append({"role": "user", "content": "question %d something" % t})
        try:
            reply = app.generate(messages=list(msgs))
        except Exception as e:
            return dict(base, verdict="violated", what="generate-raised-without-fault", observed=obs, witness={"turn": t, "exception": "%s: %s" % (type(e).__name__, str(e)[:300]), "llm_text_len": len(text)})
        obs["lib_turns"] += 1
        shown = [e["shown"] for e in log.items if e["kind"] == "checker"]
        obs["lib_checker_calls"] += len(shown)
        content = reply.get("content") if isinstance(reply, dict) else None
        ctext = content if isinstance(content, str) else json.dumps(content, default=str)
        token = "BOT-%s-%d" % (case["cid"], t)
        bad = case["turns"][t]["bad"]
        obs["lib_bad_messages"] += int(bad)
        whole = any(text in s_ for s_ in shown)
        obs["lib_overflowing_messages"] += int(not whole)
        w = {"turn": t, "llm_text_len": len(text), "bad_word_at": case["turns"][t]["where"] if bad else None, "reply": ctext[:200], "checker_was_shown": [len(s_) for s_ in shown],
             "checker_saw_whole_message": whole, "max_length": case["max_length"]}
        if bad and token in ctext:
            return dict(base, verdict="violated", what="rejected-llm-text-returned", observed=obs, witness=w)
        if token in ctext and not whole:
            return dict(base, verdict="violated", what="llm-text-returned-without-being-shown-to-the-rail-in-full", observed=obs, witness=w)
        if not bad and whole and (reply.get("role") != "assistant" or content != text):
            return dict(base, verdict="violated", what="reply-differs-from-model", observed=obs, witness=w)
        msgs.append({"role": "assistant", "content": content if isinstance(content, str) else "(exception)"})
    if obs["lib_checker_calls"] == 0:
        # every message of the conversation overflowed the check prompt: the turns ended in the internal-error reply (judged
        # above: no message text came back), the rail's LLM was never asked
        return dict(base, verdict="inconclusive", reason="expected:every-message-overflowed-the-check-prompt", observed=obs, nontrivial=False)
    return dict(base, verdict="held", observed=obs)


# ----------------------------------------------------------------------------- Colang 2: two responders in different interaction loops
V2LOOPS_CO = '''
import core
import guardrails

flow main
  activate handler a
  activate handler b

flow handler a
  user said something
  $t = await GenAction(name="a")
  bot say $t

%sflow handler b
  match UtteranceUserAction.Finished()
  $t = await GenAction(name="b")
  bot say $t

flow output rails $output_text
  $ok = await CheckAction(text=$output_text)
  if not $ok
    bot say "REFUSED"
    abort
'''


def _v2loops_cases():
    for other_loop in (True, False):
        for va in ("ok", "block"):
            for vb in ("ok", "block"):
                for turns in (1, 2):
                    yield {"fam": "v2loops", "other_loop": other_loop, "va": va, "vb": vb, "turns": turns, "cid": "w%d%s%s%d" % (int(other_loop), va[0], vb[0], turns)}


def run_v2loops(case):
    """Two activated flows answer the same user message with a generated text each - in two interaction loops, or in one
    (where the action conflict lets only one of them speak). Every generated text that comes back must have been shown to the
    output rail and accepted by it."""
    import asyncio

    from .railsconv import rails

    L = rails.load()
    checked, state = [], {"t": 0}
    verdict = {"a": case["va"], "b": case["vb"]}

    async def gen(name: str):
        return "BOT-%s-%d-%s" % (case["cid"], state["t"], name)

    async def check(text: str):
        checked.append(text)
        return not ("BOT-" in text and verdict[text[-1]] == "block")

    co = V2LOOPS_CO % ('@loop("other")\n' if case["other_loop"] else "")
    base = {"key": repr(sorted(case.items())), "nontrivial": True, "ver": "v2", "fam": "v2loops", "other_loop": case["other_loop"],
            "sample": {"family": "two responders", "separate_interaction_loops": case["other_loop"], "verdicts": verdict, "turns": case["turns"]}}
    obs = {"v2loops_cases": 1, "v2loops_texts_returned": 0, "v2loops_rail_calls": 0}
    try:
        cfg = L["RailsConfig"].from_content(co, 'colang_version: "2.x"\nmodels: []\n')
        app = L["LLMRails"](cfg, llm=L["RecLLM"](script=lambda p_: "", log=rails.Log()))
        app.runtime.register_action(gen, "GenAction")
        app.runtime.register_action(check, "CheckAction")
    except Exception as e:
        return dict(base, verdict="inconclusive", reason="app-build-failed:%s" % type(e).__name__, detail=str(e)[:300], nontrivial=False)
    st = {}
    for t in range(case["turns"]):
        state["t"] = t
        del checked[:]
        try:
            res = asyncio.run(asyncio.wait_for(app.generate_async(messages=[{"role": "user", "content": "hello %d" % t}], state=st), 60))
        except Exception as e:
            return dict(base, verdict="violated", what="generate-raised-without-fault", observed=obs, witness={"turn": t, "exception": "%s: %s" % (type(e).__name__, str(e)[:300])})
        st = res.state
        texts = [ln for m_ in (res.response or []) if isinstance(m_, dict) for ln in str(m_.get("content") or "").split("\n") if "BOT-" in ln]
        obs["v2loops_texts_returned"] += len(texts)
        obs["v2loops_rail_calls"] += len(checked)
        w = {"turn": t, "returned": texts, "shown_to_the_output_rail": list(checked), "verdicts": verdict, "separate_interaction_loops": case["other_loop"], "config_colang": co}
        for tx in texts:
            if tx not in checked:
                return dict(base, verdict="violated", what="llm-text-returned-without-output-rails", observed=obs, witness=w)
            if verdict[tx[-1]] == "block":
                return dict(base, verdict="violated", what="rejected-llm-text-returned", observed=obs, witness=w)
        if not texts and "ok" in verdict.values() and not case["other_loop"]:
            pass  # one loop: the conflict winner may be the blocked one
    if obs["v2loops_rail_calls"] == 0:
        return dict(base, verdict="inconclusive", reason="monitor-not-reached", observed=obs, nontrivial=False)
    return dict(base, verdict="held", observed=obs)


def run_case(case):
    if case.get("fam") == "v2loops":
        return run_v2loops(case)
    if case.get("fam") == "lib":
        return run_lib(case)
    r = run_case_for(TAG, case)
    outs = [(t, v) for s, t, idx, v in case["V"] if s == "out"]
    first_bad = min([t for t, v in outs if v in ("block", "rewrite")], default=None)
    r["nontrivial"] = first_bad is not None and any(case["kinds"][t] == "llm" for t in range(first_bad + 1, case["turns"]))
    return r


def classify(r):
    w = r.get("what")
    if r.get("fam") == "v2loops" and r.get("other_loop") and w == "llm-text-returned-without-output-rails":
        # structural: the configuration has two responders in different interaction loops
        return "v2-output-rails-flag-shared-between-interaction-loops"
    if r.get("ver") == "v2" and r.get("after_block") and w in ("output-rail-calls-differ", "reply-differs-from-model", "rejected-llm-text-returned"):
        return "v2-output-flag-stuck-after-abort"
    return "%s:%s" % (r.get("ver"), w)
