"""C02 — output rails gate every LLM-generated bot message, in every turn.

Same observation points and sequential model as C01, on the bot text; the per-turn
obligation is re-evaluated on every later turn of the conversation (a rejection,
rewrite or failure in one turn must not weaken later turns).
"""
import itertools
import random

from . import railsconv as rc
from .railsmon import run_case_for, setup_worker  # noqa: F401

PROPERTY = "C02"
LEVEL = "exploration"
RULE = (
    "case = (generated configuration with m<=2 output rails (two flow shapes) and k<=3 input rails, pipeline in {v1 dialog, single-call, general, passthrough, "
    "v2 guardrails library}; output verdict matrix per (turn, rail) in {accept, reject, rewrite}; 2-4 turns mixing predefined-message turns with LLM turns). "
    "quick: ALL output verdict matrices for m=1 x 3 turns and m=2 x 2 turns on the v1 pipelines, all accept/reject matrices for m<=2 x 3 turns on v2, plus "
    "sampled ones. non-trivial = a reject/rewrite followed by >=1 later LLM turn; distinct = (configuration, matrix)"
)
MIN_HELD = {"quick": 300, "thorough": 3000}
ASSUMPTIONS = [
    "LLM-originated texts carry a unique token BOT-<conversation>-<turn>; output-rail verdicts are functions of the text shown and accept refusal/predefined texts "
    "(in v2 an input rail's refusal itself runs through the output rails)",
    "predefined-message turns: only the reply is checked (v1 skips output rails for them by design)",
]
SAMPLE_EVERY = 53
CASE_WALL_S = 150
TAG = "C02"


def _mk(ver, mode, m, turns, verdicts_out, cid, k=1, exc=False, kinds=None, out_shapes=None):
    spec = {"ver": ver, "k": k, "m": m, "mode": mode if ver == "v1" else "v2", "exc": exc}
    if ver == "v1":
        spec["in_shapes"] = ["v"] * k
        spec["out_shapes"] = out_shapes or ["v"] * m
        spec["dialog_action"] = False
    V = []
    it = iter(verdicts_out)
    for t in range(turns):
        for i in range(k):
            V.append(["in", t, i, "ok"])
        for i in range(m):
            V.append(["out", t, i, next(it)])
    return {"spec": spec, "turns": turns, "kinds": kinds or ["llm"] * turns, "V": V, "cid": cid, "fault": None}


def cases(tier, seed):
    i = 0
    for mode in ("dialog", "single_call", "general", "passthrough", "multi_step"):
        for m, turns in ((1, 3), (2, 2)):
            for vs in itertools.product(["ok", "block", "rewrite"], repeat=m * turns):
                i += 1
                yield dict(_mk("v1", mode, m, turns, vs, "o%d" % i), id=i)
    for m in (1, 2):
        for vs in itertools.product(["ok", "block"], repeat=m * 3):
            i += 1
            yield dict(_mk("v2", "v2", m, 3, vs, "o%d" % i), id=i)
    # completion-style calls generate(prompt=...): all verdict matrices, refusals and rail exceptions, with and without options
    for mode in ("dialog", "general", "passthrough"):
        for exc in (False, True):
            for m in (1, 2):
                for vs in itertools.product(["ok", "block", "rewrite"], repeat=m * 2):
                    i += 1
                    c = _mk("v1", mode, m, 2, vs, "p%d" % i, exc=exc)
                    c["api"] = "prompt"
                    if i % 3 == 0:
                        c["opts"] = [{"log": {"activated_rails": True}}, None]
                    yield dict(c, id=i)
    # the LLM repeats itself: the very same text in every turn, the rails' verdicts differing per turn (all verdict matrices)
    for ver, modes in (("v2", ("v2",)), ("v1", ("dialog", "general", "passthrough"))):
        for mode in modes:
            for m in (1, 2):
                for vs in itertools.product(["ok", "block"], repeat=m * 3):
                    i += 1
                    c = _mk(ver, mode, m, 3, vs, "s%d" % i)
                    c["spec"]["same_bot"] = True
                    yield dict(c, id=i)
    # directed: per-call options that switch categories off in ONE call (also on predefined-message turns), both
    # ways of carrying the conversation (resent message list / state object); every later turn is still checked
    OPTS = [None, {"rails": {"output": False}}, {"rails": {"input": False}}, {"rails": {"input": True, "output": True, "dialog": True, "retrieval": True}}]
    for mode in ("dialog", "single_call"):
        for api in ("messages", "state"):
            for kinds in (["fixed", "llm", "llm"], ["llm", "fixed", "llm"], ["fixed", "fixed", "llm"]):
                for o0 in OPTS:
                    for o1 in (None, {"rails": {"output": False}}):
                        for v in ("block", "rewrite"):
                            i += 1
                            c = _mk("v1", mode, 1, 3, ["ok" if kinds[t] == "fixed" else v for t in range(3)], "d%d" % i, kinds=kinds)
                            c.update(opts=[o0, o1, None], api=api)
                            yield dict(c, id=i)
    rng = random.Random(99 + seed)
    n1, n2 = (400, 50) if tier == "quick" else (6000, 600)
    for _ in range(n1):
        i += 1
        c = rc.gen_case(rng, "v1", tier, force={"m": rng.randint(1, 2), "turns": rng.randint(2, 4)})
        yield dict(c, id=i)
    for _ in range(n2):
        i += 1
        c = rc.gen_case(rng, "v2", tier, force={"m": rng.randint(1, 2), "turns": rng.randint(2, 4)})
        yield dict(c, id=i)


def run_case(case):
    r = run_case_for(TAG, case)
    outs = [(t, v) for s, t, idx, v in case["V"] if s == "out"]
    first_bad = min([t for t, v in outs if v in ("block", "rewrite")], default=None)
    r["nontrivial"] = first_bad is not None and any(case["kinds"][t] == "llm" for t in range(first_bad + 1, case["turns"]))
    return r


def classify(r):
    w = r.get("what")
    if r.get("ver") == "v2" and r.get("after_block") and w in ("output-rail-calls-differ", "reply-differs-from-model", "rejected-llm-text-returned"):
        return "v2-output-flag-stuck-after-abort"
    return "%s:%s" % (r.get("ver"), w)
