"""C17 — arbitrary LLM output never breaks a turn; it is data.

Robustness fuzz + taint monitor.  A case is one 1-3 turn conversation on a real
`LLMRails` instance whose recording LLM answers every call with the well-formed
completion for that call *except one call position*, which gets a hostile text
(corpus string, a hostile/taint text wrapped in the message slot of the
well-formed completion, or a random mutation of the well-formed completion).

Observation points: the value returned / exception raised by `LLMRails.generate`
for every turn (the hostile one and all later ones), the task of every LLM call
(wrapper around the instance's `render_task_prompt`), the literal reply text.

Oracle (independent of the code under test, ~20 lines, `judge_reply`):
  * generate must not raise anything but LLMCallException, and must return within the
    logical step budget (v1: parser/runtime function entries; LLM text could reach an
    endless loop of the v1 Colang parser until the `define` without body repair);
  * no LLM post-processing action (generate_user_intent / next_step / bot_message /
    intent_steps_message, v2 intent / continuation / flow-from-name) may crash on the
    completion (the dispatcher turns that into the "internal error" reply = a broken turn);
    value generation is exempt: a completion that is no literal makes it fail by design;
  * the reply is {"role": "assistant", "content": str} or {"role": "exception",
    "content": dict with a str "type"};
  * when taint expressions were planted in LLM *message text*, the reply must not
    contain their evaluated value (62615533, SECRETVAL-…, QZQZQZ, the user's own text,
    the colang version) — the literal text (or no text) is fine.
"""
import random

PROPERTY = "C17"
LEVEL = "exploration"
RULE = (
    "case = (pipeline mode, conversation of 1-3 turns of given turn types, LLM call position, text returned at that position); text in "
    "{hostile corpus, hostile/taint text inside the message slot of the well-formed completion, 1-3 random mutations of the well-formed completion}; "
    "all other calls answer well-formed. Every call position of every one-turn conversation of every mode gets the corpus and the taint carriers "
    "(quick: the whole corpus the first time a (mode, call kind) pair occurs - v2: a seeded third -, a seeded third/ninth at its repeats; thorough: all), "
    "plus sampled 1-3 turn conversations; non-trivial = the text differs from the well-formed completion of that position and the hostile "
    "position was reached; distinct = (mode, turn types, position, text)"
)
MIN_HELD = {"quick": 400, "thorough": 4000}
MAX_INCONCLUSIVE = 0.05
HARD_INCONCLUSIVE = ("hook-missing", "monitor-not-reached", "position-kind-mismatch")
ASSUMPTIONS = [
    "the LLM is a langchain LLM returning the scripted text verbatim; provider-side failures (LLMCallException) are excluded by the property",
    "taint is judged only where the hostile text sits in LLM *message text*: the whole completion of generate_bot_message / general / passthrough / "
    "generate_value, or the quoted message slot of single-call, v2 `bot say \"…\"` completions; `bot $var` as a generated *step* is code by design",
    "oracle: result shape check + `evaluated marker not in reply` (judge_reply, 20 lines); a violation seen on a re-used LLMRails instance is "
    "re-run on a fresh instance and only reported if it reproduces",
    "a crash of an LLM post-processing action that the dispatcher contains (reply = the well-formed internal-error message) satisfies the statement and is only counted as an observation; generate_value / "
    "GenerateValueAction failing on a non-literal completion is the designed containment and is only counted",
    "every turn runs under the logical step budget (v1 600k, v2 8M function entries; largest well-behaved turns seen: 45k / 2M); a v2 overrun is "
    "`nonterminating` (C10's subject, inconclusive), a v1 overrun is a verdict (generate does not complete the turn)",
]
SAMPLE_EVERY = 211
CASE_WALL_S = 120

SECRET_CTX = "SECRETVAL-CTX-9731"
SECRET_FLOW = "SECRETVAL-FLOW-4412"
SECRET_V2 = "SECRETVAL-VTWO-5521"
SECRET_CFG = "SECRETVAL-CFG-8843"
UTOK = "UTOK"

# ----------------------------------------------------------------------------- configurations
MAIN_MODELS = "models:\n  - type: main\n    engine: openai\n    model: gpt-3.5-turbo-instruct\n  - type: embeddings\n    engine: verif_hash\n    model: h\n"

V1_CO = '''
define user ask something
  "something"

define user ask flowq
  "flowq"

define user ask valueq
  "valueq"

define bot answer fixed
  "FIXED-ANSWER"

define bot inform name
  "Name is $name ok"

define flow
  user ask something
  bot answer fixed

define flow
  user ask flowq
  $flow_secret = "%s"
  bot answer flowq

define flow
  user ask valueq
  # Extract the name of the user.
  $name = ...
  bot inform name
''' % SECRET_FLOW

V2_CO = '''
import core
import llm

flow main
  global $secret_var
  $secret_var = "%s"
  activate llm continuation
  activate greeting
  activate value flow
  activate interpolated value flow

flow greeting
  user said "hi"
  bot say "Hello world!"

flow value flow
  user said "valueq"
  $x = ..."Return the name of the user as a string"
  bot say $x

flow interpolated value flow
  user said "valueqi"
  $y = ..."Return the name of the user as a string"
  bot say "The value is {$y} ok"
''' % SECRET_V2

V2_SINGLE_CO = '''
import core
import llm

flow main
  global $secret_var
  $secret_var = "%s"
  activate continuation on unhandled user utterance
  activate greeting

flow greeting
  user said "hi"
  bot say "Hello world!"
''' % SECRET_V2

CUSTOM = "custom_data:\n  secret: %s\n" % SECRET_CFG

# mode -> (version, colang, yaml, {turn type -> [call kinds of the well-formed turn]})
MODES = {
    "v1_dialog": ("v1", V1_CO, MAIN_MODELS + CUSTOM, {"free": ["intent", "next", "msg"], "flow": ["intent", "msg"], "value": ["intent", "value"]}),
    "v1_single": ("v1", V1_CO, MAIN_MODELS + CUSTOM + "rails:\n  dialog:\n    single_call:\n      enabled: True\n", {"free": ["single"], "flow": ["single"], "value": ["single", "value"]}),
    "v1_multi": ("v1", V1_CO, MAIN_MODELS + CUSTOM + "enable_multi_step_generation: True\n", {"free": ["intent", "steps", "msg", "msg"], "flow": ["intent", "msg"], "value": ["intent", "value"], "dynvalue": ["intent", "steps", "msg", "value", "msg"]}),
    "v1_general": ("v1", "", MAIN_MODELS + CUSTOM, {"free": ["general"]}),
    "v1_passthrough": ("v1", "", MAIN_MODELS + CUSTOM + "passthrough: True\n", {"free": ["passthrough"]}),
    "v2_cont": ("v2", V2_CO, 'colang_version: "2.x"\n' + MAIN_MODELS + CUSTOM, {"free": ["v2intent", "v2cont"], "value": ["v2value"], "valuei": ["v2value"], "fromname": ["v2intent", "v2cont", "v2fromname"]}),
    "v2_single": ("v2", V2_SINGLE_CO, 'colang_version: "2.x"\n' + MAIN_MODELS + CUSTOM, {"free": ["v2single"]}),
}

TASK_KIND = {
    "generate_user_intent": "intent",
    "generate_next_steps": "next",  # "steps" in multi-step mode
    "generate_bot_message": "msg",
    "generate_value": "value",
    "generate_intent_steps_message": "single",
    "general": "general",
    "generate_user_intent_from_user_action": "v2intent",
    "generate_flow_continuation": "v2cont",
    "generate_value_from_instruction": "v2value",
    "generate_flow_from_name": "v2fromname",
    "generate_user_intent_and_bot_action_from_user_action": "v2single",
}

# kinds whose whole completion is message text
PURE_MESSAGE_KINDS = ("msg", "general", "passthrough")
# kinds with a message slot inside a structured completion: carrier(T)
CARRIERS = {
    "msg": lambda T: '  "%s"' % T,
    "general": lambda T: T,
    "passthrough": lambda T: T,
    "single": lambda T: '  ask other\nbot answer other\n  "%s"' % T,
    # multi-step generation: the LLM writes the message text inline, under a bot intent that has no configured message
    "steps": lambda T: 'bot inform novelty\n  "%s"' % T,
    "value": lambda T: '"%s"' % T,
    "v2value": lambda T: '"%s"' % T,
    "v2cont": lambda T: 'bot intent: bot answer\nbot action: bot say "%s"' % T,
    "v2single": lambda T: 'user intent: user asked something\nbot intent: bot answer\nbot action: bot say "%s"' % T,
    "v2fromname": lambda T: 'flow bot inform weather\n  bot say "%s"' % T,
}
V2_CODE_KINDS = ("v2cont", "v2single", "v2fromname")
# the taint sits in the bot INTENT line of the generated flow (it names the flow and is written into its @meta decorator)
INTENT_CARRIERS = {
    "v2cont": lambda T: 'bot intent: bot share %s now\nbot action: bot say "BOT-plain answer"' % T,
    "v2single": lambda T: 'user intent: user asked something\nbot intent: bot share %s now\nbot action: bot say "BOT-plain answer"' % T,
}
# evaluated values that must not reach a later LLM prompt either (the user's own token legitimately does)
PROMPT_MARKERS = ("62615533", "QZQZQZ", "SECRETVAL-CFG")  # computed values and the config secret: nothing legitimate ever puts them into a prompt


def wellformed(kind, ttype, tag):
    """The well-formed completion for a call of `kind` in a turn of type `ttype`; `tag` makes bot texts unique."""
    intent = {"free": "other", "flow": "flowq", "value": "valueq", "dynvalue": "other", "fromname": "other"}.get(ttype, "other")
    if kind == "intent":
        return "  ask %s" % intent
    if kind == "next":
        return "bot answer other"
    if kind == "steps":
        if ttype == "dynvalue":
            return "bot answer other\n# Extract the name of the user.\n$name = ...\nbot inform other"
        return "bot answer other\nbot add detail"
    if kind == "msg":
        return '  "BOT-%s"' % tag
    if kind == "value":
        return '"Johnny-%s"' % tag
    if kind == "single":
        return '  ask %s\nbot answer %s\n  "BOT-%s"' % (intent, intent, tag)
    if kind in ("general", "passthrough"):
        return "BOT-%s" % tag
    if kind == "v2intent":
        return "user intent: user asked something"
    if kind == "v2cont":
        if ttype == "fromname":
            return "bot intent: bot inform weather\nbot action: bot inform weather"
        return 'bot intent: bot answer\nbot action: bot say "BOT-%s"' % tag
    if kind == "v2value":
        return '"Johnny-%s"' % tag
    if kind == "v2fromname":
        return '  bot say "BOT-%s"' % tag  # header-less body: valid for whatever flow name was asked for
    if kind == "v2single":
        return 'user intent: user asked something\nbot intent: bot answer\nbot action: bot say "BOT-%s"' % tag
    return "BOT-%s" % tag


# ----------------------------------------------------------------------------- hostile corpus
HOSTILE = [
    "", " ", "\n", "\n\n  \n", "\t", "   \t  ",
    '"', '""', '"""', "'", "'''", '"unterminated', 'unbalanced" quote', '"a" "b"', "\\", '\\"', '"\\', "`", "```\ncode\n```",
    "user", "bot", "user ", "bot ", "user ask something", 'user "hello"\n  ask something', "bot answer something", 'bot "hi"', 'user "hi"',
    "  ask something\nbot answer something", "bot ask other\n  user answer", "User intent: ask", "Bot intent: answer", 'Bot message: "x"', "User message: \"x\"",
    "user intent: user asked", "user intent:", "bot intent: bot answer", "bot intent: x", 'bot action: bot say "x"', "bot action:", "bot action: bot say", "bot action: foo bar baz",
    'user action: user said "x"', 'user intent: user said "x" and user y', "user intent: user (weird) name's \"q\"",
    'bot intent: bot a\nbot action: bot say "a"\n  and bot say "b"', "bot intent: bot z\nbot action: bot say 'single'", 'bot action: bot gesture "wave"',
    'bot intent: bot x\nbot action: bot say "unterminated', "bot action: bot say 4242", "bot action: bot say None", "bot action: bot say $undefined_thing",
    "define flow", "define flow x\n  bot y", 'define user x\n  "y"', "define bot", "define", 'flow x\n  bot say "y"', "flow", "flow main", "if $x\n  bot a", "if", "else", "when", "while True",
    "half an emoji \ud83d cut by a token boundary", "\udc00", "lone surrogate \ud83d and a long tail " + "lorem ipsum " * 30, "while True\n  bot a", "while True\n  $x = 1", "bot answer other\n$n = 0\nwhile $n < 1\n  $m = $n", "bot answer other\nwhile True\n  pass", "stop", "abort", "return", "return 5", "pass", "break", "continue", "execute foo", "execute", "$x = ...", "...", "# comment only", "await UnknownAction()", "match Never()",
    'send StopFlow(flow_id="main")', "bot action: await UnknownAction()", "bot action: match Never()", 'bot action: send StopFlow(flow_id="main")', "bot action: $x = 1/0", "bot action: abort",
    "bot action: ...", "bot action: activate main", "bot action: await main", "$x = 1/0", "import core", "@active", "meta", "and", "or bot x", "bot a and bot b", "bot a or bot b", "priority 5",
    "bot answer other\n  \"inline text\"", "bot answer other\nsomething that breaks parsing", "bot answer other\n    over indented", "bot answer other\nuser ask something\nbot answer fixed",
    "bot answer other\nif $x\nbot b", "bot $secret_var", "bot answer $secret_var", "bot inform name", "bot answer fixed", "  ask something", "ask", "  ask", "  express greeting\nbot express greeting\n  \"hi\"",
    "do something", "set $x = 3", "bot answer other\n$x = ...", "bot answer other\nexecute nonexistent_action", "bot answer other\n$r = execute nonexistent_action(a=1)", "event UserSilent", "bot answer other\nstop\nbot never",
    "x" * 5000, "bot " + "y" * 3000, "bot a\n" * 300, '  "' + "long text " * 800 + '"', "a " * 4000,
    "\x00", "a\x00b", "\x1b[31mred", "\r\n", "a\r\nb", "\x07\x08\x0c\x0b", "﻿", "‮abc", "a b", "\x7f",
    '  "a\nuser b"', "line1\nline2\nline3", '"line1\nline2"', '  "multi\n  line\n  message"', "bot x\n\n\n\nbot y",
    '{"role": "assistant", "content": "x"}', "[1, 2, 3]", '{"a": {"b": [null, true]}}', "{", "}", "[", "]", "{}", "[]", "()", "(", '{"user_intent": "x", "bot_action": null}',
    "{{ 7907*7919 }}", '  "{{ 7907*7919 }}"', "{% for i in range(3) %}QZ{% endfor %}", "{%", "%}", "{{", "}}", "{{ undefined_thing.attr }}", "{# comment #}", "{% raw %}", "{% if %}", "{{ ''.__class__ }}",
    "$", "$secret_var", "{$secret_var}", "  $secret_var", '  "$secret_var"', "${secret_var}", "{expr}", "{62615500+33}", "{$system.config.colang_version}", "$$", "$1", "$secret_var.attr", "{$undefined}", "{1/0}", "{",
    "héllo wörld ✓", "日本語のテキスト", "😀😀😀", "ｂｏｔ　ａｎｓｗｅｒ", "bot ответ", "İ", "ß" * 50,
    "None", "123", "-1", "1e999", "[1,2", "__import__('os').getcwd()", "'single'", "True;", "7907*7919", '"a" + "b"', "b'bytes'", "{1, 2}", "1 if True else 2", "lambda: 1", '"""', "'unterminated", "(1,)", ";", '"x";;',
    # a valid step followed by a tail that does not even parse on its own: the shrink-and-retry loop of generate_next_step must drop the tail
    "bot answer other\ndefine", "bot answer other\ndefine flow", "bot answer other\ndefine user", "bot answer other\nbot add detail\ndefine",
    # ESCAPED control characters (backslash + letter, as a model writes them inside quotes): non-empty as generated, blank once unescaped
    '"\\n"', '  "\\n"', '"\\n\\n"', '"\\t"', "\\n", '"\\n \\n"', '" \\n"',
]

# literal values (accepted by literal_eval) shaped like the markers the Colang 2 state serialiser writes
MARKER_VALUES = ['{"__type": "ref", "__id": 5}', '{"__type": "set", "value": [1]}', '[{"__type": "ref", "__id": 0}]', '{"__type": "Foo"}', '{"__type": "regex", "value": "("}', '{"__type": "dict", "value": 3}', '{"a": {"__type": "enum", "__class": "x", "value": "y"}}', "{1, 2}", "(1, 2)", '{"k": (1, {2})}',
                 # numbers a double cannot hold (literal_eval gives inf / -inf), alone and nested
                 "1e999", "-1e999", "[1, 1e999]", '{"count": 1e400}', "1e999j"]
# taint expression -> marker that only appears when it was evaluated
TAINT = [
    ("{{ 7907*7919 }}", "62615533"), ("{{7907*7919}}", "62615533"), ("{{ secret_var }}", "SECRETVAL"), ("$secret_var", "SECRETVAL"), ("{$secret_var}", "SECRETVAL"), ("${secret_var}", "SECRETVAL"),
    ("{secret_var}", "SECRETVAL"), ("%(secret_var)s", "SECRETVAL"), ("{% for i in range(3) %}QZ{% endfor %}", "QZQZQZ"), ("{7907*7919}", "62615533"), ("{62615500+33}", "62615533"),
    ("$flow_secret", "SECRETVAL"), ("{{ flow_secret }}", "SECRETVAL"), ("{$system.config.custom_data}", "SECRETVAL"), ("{{ config.custom_data }}", "SECRETVAL"),
    ("{$system.config.colang_version}", "2.x"), ("$user_message", UTOK), ("{{ user_message }}", UTOK), ("{{ last_user_message }}", UTOK), ("$last_user_message", UTOK),
    ("{$event.final_transcript}", UTOK), ("{{ history }}", UTOK), ("{len('abcdefg')+62615526}", "62615533"),
]
# completions for a *value* position that are expressions, not literals: literal_eval must refuse them
# string literals (accepted by literal_eval) whose content tries to leave the string literal it is later interpolated into
BREAKOUT_VALUES = [
    ('"a\\"\\" + str(7907*7919) #"', "62615533"), ("'a\"\" + str(7907*7919) #'", "62615533"), ('"x\\"\\" + $secret_var #"', "SECRETVAL"),
    ('"y\\\\\\" + str(7907*7919) #"', "62615533"), ('"tail\\\\"', None), ("'q\\' + str(7907*7919) #'", "62615533"),
    ('"z\\"\\"\\" + str(62615500+33) + \\"\\"\\""', "62615533"), ('"{7907*7919}"', "62615533"), ('"{{$secret_var}}"', "SECRETVAL"),
]
VALUE_TAINT = [("7907*7919", "62615533"), ("62615500+33", "62615533"), ("'QZ'*3", "QZQZQZ"), ("str(7907*7919)", "62615533"), ("len('abcdefg')+62615526", "62615533"), ('"6261" + "5533"', "62615533"), ("[7907*7919]", "62615533"), ("$secret_var", "SECRETVAL"), ("secret_var", "SECRETVAL")]
ALL_MARKERS = ["62615533", "SECRETVAL", "QZQZQZ", UTOK]
MUT_TOKENS = ['"', "\n", "$secret_var", "{{ 7907*7919 }}", "{", "}", "user ", "bot ", "define flow ", "...", "\x00", "#", ":", "  ", "\t", "if ", "(", ")", ",", "'", "=", "$", "\\", "{% for i in range(3) %}QZ{% endfor %}", " and ", " or ", "\n  ", "{62615500+33}", "😀"]


def mutate(rng, w, other):
    for _ in range(rng.randint(1, 3)):
        op = rng.randrange(12)
        n = len(w)
        i = rng.randint(0, n) if n else 0
        if op == 0 and n:
            w = w[:i] + w[i + 1 :]
        elif op == 1 and n:
            j = rng.randint(i, min(n, i + 12))
            w = w[:j] + w[i:j] + w[j:]
        elif op in (2, 3, 4):
            w = w[:i] + rng.choice(MUT_TOKENS) + w[i:]
        elif op == 5:
            w = w.lstrip()
        elif op == 6:
            w = "\n".join("    " + l for l in w.split("\n"))
        elif op == 7:
            ls = w.split("\n")
            rng.shuffle(ls)
            w = "\n".join(ls)
        elif op == 8:
            w = w[:i]
        elif op == 9:
            w = w.upper() if rng.random() < 0.5 else w.replace("bot ", "user ").replace("ask ", "bot ")
        elif op == 10:
            w = w + "\n" + w
        else:
            w = w + rng.choice(["\n", " ", "\n\n"]) + other
    return w


# ----------------------------------------------------------------------------- case generation (parent side; no repo import)
def _positions(mode, ttypes):
    kinds = MODES[mode][3]
    out = []
    for t, tt in enumerate(ttypes):
        for k in kinds[tt]:
            out.append((t, tt, k))
    return out


def _mk(markers, text):
    return [m for m in markers if m not in text]  # a marker the text spells literally proves nothing


def _texts_for(kind, full):
    """(origin, text, markers) triples for one call kind."""
    out = []
    for i, h in enumerate(HOSTILE):
        out.append(("corpus%d" % i, h, _mk(ALL_MARKERS, h) if kind in PURE_MESSAGE_KINDS else []))
    if kind in ("value", "v2value"):
        for i, (tx, mk) in enumerate(VALUE_TAINT):
            out.append(("taintv%d" % i, tx, _mk([mk], tx)))
        for i, (tx, mk) in enumerate(BREAKOUT_VALUES):
            out.append(("taintb%d" % i, tx, [mk] if mk else []))
    car = CARRIERS.get(kind)
    if car:
        for i, (tx, mk) in enumerate(TAINT):
            out.append(("taint%d" % i, car(tx), _mk([mk], tx)))
            out.append(("taintw%d" % i, car("The value is %s ok" % tx), _mk([mk], tx)))
            if kind in INTENT_CARRIERS:
                out.append(("tainti%d" % i, INTENT_CARRIERS[kind](tx), _mk([mk], tx)))
        if kind not in PURE_MESSAGE_KINDS:
            hs = (HOSTILE[::2] if kind.startswith("v2") else HOSTILE) if full else HOSTILE[::3]
            for i, h in enumerate(hs):
                if len(h) < 200:
                    out.append(("slot%d" % i, car(h), []))
    return out


def cases(tier, seed):
    i = 0
    rng = random.Random(1700 + seed)
    quick = tier == "quick"
    # 1. corpus + taint carriers at every call position of every one-turn conversation.
    #    quick: the whole corpus the first time a (mode, kind) pair occurs (v2: a seeded third), a seeded third
    #    (v2: ninth) at repeats of the pair in other turn types; thorough: everything everywhere.
    seen_pairs = set()
    for mode, (ver, co, y, kinds) in MODES.items():
        for tt in kinds:
            pos = _positions(mode, [tt])
            for p, (t, _tt, k) in enumerate(pos):
                first = (mode, k) not in seen_pairs
                seen_pairs.add((mode, k))
                texts = _texts_for(k, not quick)
                if quick:
                    stride = (1 if first else 3) * (3 if ver == "v2" else 1)
                    texts = [x for j, x in enumerate(texts) if (x[0].startswith("taint") and (not x[0].startswith("taintw") or ver == "v2") and (first or x[0].startswith(("tainti", "taintb")))) or (not x[0].startswith("taint") and (j + seed) % stride == 0)]
                for origin, text, markers in texts:
                    i += 1
                    yield {"id": i, "mode": mode, "ttypes": [tt], "pos": p, "kind": k, "origin": origin, "text": text, "markers": markers}
    # 1b. generated VALUES that look like the state serialiser's own markers, followed by another turn on the saved state
    for mode, tts in (("v2_cont", ["value", "value"]), ("v2_cont", ["value", "free"]), ("v1_dialog", ["value", "free"]), ("v1_multi", ["dynvalue", "free"])):
        pos = _positions(mode, tts)
        for p, (t, tt, k) in enumerate(pos):
            if t != 0 or k not in ("value", "v2value"):
                continue
            for j, text in enumerate(MARKER_VALUES):
                i += 1
                yield {"id": i, "mode": mode, "ttypes": tts, "pos": p, "kind": k, "origin": "markervalue%d" % j, "text": text, "markers": []}
    # 1c. taint in the bot INTENT line of a generated flow, followed by another turn (whose prompts show the history)
    for mode, kind in (("v2_cont", "v2cont"), ("v2_single", "v2single")):
        tts = ["free", "free"]
        pos = _positions(mode, tts)
        for p, (t, tt, k) in enumerate(pos):
            if t != 0 or k != kind:
                continue
            for origin, text, markers in _texts_for(k, True):
                if origin.startswith("tainti"):
                    i += 1
                    yield {"id": i, "mode": mode, "ttypes": tts, "pos": p, "kind": k, "origin": origin + "+turn", "text": text, "markers": markers}
    # 1d. the same hostile completion in TWO turns of one conversation (turn 0 and turn 2 of four), v1 pipelines
    for mode in ("v1_dialog", "v1_single", "v1_multi", "v1_general", "v1_passthrough"):
        kinds_ = MODES[mode][3]
        for tt0 in sorted(kinds_):
            tts = [tt0] * 4
            pos = _positions(mode, tts)
            for p, (t, tt, k) in enumerate(pos):
                if t != 0:
                    continue
                texts = [x for j, x in enumerate(_texts_for(k, False)) if x[0].startswith("corpus") and (j + seed) % (5 if quick else 1) == 0]
                for origin, text, markers in texts:
                    i += 1
                    yield {"id": i, "mode": mode, "ttypes": tts, "pos": p, "kind": k, "origin": origin + "+again", "text": text, "markers": markers, "again": [2]}
    # 2. sampled multi-turn conversations: corpus, carriers and mutations at a random position
    n1, n2 = (900, 140) if quick else (14000, 900)
    for ver, n in (("v1", n1), ("v2", n2)):
        modes = [m for m in MODES if MODES[m][0] == ver]
        for _ in range(n):
            mode = rng.choice(modes)
            kinds = MODES[mode][3]
            nt = rng.choice([1, 2, 2, 3]) if ver == "v1" else rng.choice([1, 2, 2])
            tts = [rng.choice(sorted(kinds)) for _ in range(nt)]
            pos = _positions(mode, tts)
            p = rng.randrange(len(pos))
            t, tt, k = pos[p]
            r = rng.random()
            if r < 0.6:
                w = wellformed(k, tt, "M")
                other = wellformed(rng.choice(sorted(set(sum(kinds.values(), [])))), tt, "O")
                text = mutate(rng, w, other)
                origin = "mutation"
                markers = _mk(ALL_MARKERS, text) if k in PURE_MESSAGE_KINDS else []
            else:
                origin, text, markers = rng.choice(_texts_for(k, True))
            i += 1
            yield {"id": i, "mode": mode, "ttypes": tts, "pos": p, "kind": k, "origin": origin, "text": text, "markers": markers}


# ----------------------------------------------------------------------------- the application under observation
_W = {}
# value generation is exempt from the crash clause: a completion that is no literal makes it fail by design
VALUE_FUNCS = {"generate_value"}


class HApp:
    def __init__(self, mode):
        from . import rails

        L = rails.load()
        ver, co, y, kinds = MODES[mode]
        self.mode, self.ver = mode, ver
        self.log = rails.Log()
        cfg = L["RailsConfig"].from_content(co, y)
        self.llm = L["RecLLM"](script=self._script, log=self.log)
        self.app = L["LLMRails"](cfg, llm=self.llm)
        tm = self.app.runtime.llm_task_manager
        orig = tm.render_task_prompt
        disp = self.app.runtime.action_dispatcher
        if not callable(orig) or not isinstance(getattr(disp, "_registered_actions", None), dict):
            raise RuntimeError("hook-missing: render_task_prompt / action_dispatcher._registered_actions")
        self.renders = 0
        self.crashes = []

        def wrapped(task, *a, **k):
            self.last_task = getattr(task, "value", str(task))
            self.renders += 1
            return orig(task, *a, **k)

        tm.render_task_prompt = wrapped
        # the dispatcher swallows the exception of a failed action: record its type at the action itself
        # (functools.wraps keeps the signature the runtimes inspect to pass events/context/llm/state)
        import functools

        def recording(fn, label):
            @functools.wraps(fn)
            async def w(*a, **k):
                try:
                    return await fn(*a, **k)
                except Exception as e:
                    self.crashes.append((label, type(e).__name__))
                    raise

            return w

        wrapped_n = 0
        for name, fn in list(disp._registered_actions.items()):
            owner = type(getattr(fn, "__self__", None)).__name__
            fname = getattr(fn, "__name__", "")
            if (owner.startswith("LLMGenerationActions") or fname == "_add_flows_action") and not isinstance(fn, type):
                disp._registered_actions[name] = recording(fn, fname)
                wrapped_n += 1
        if wrapped_n < 5:
            raise RuntimeError("hook-missing: LLM generation actions not found in the dispatcher (%d)" % wrapped_n)
        self.last_task = None
        self.uses = 0
        self.flow_ids = set(self.app.runtime.flow_configs)
        self.reset(None, None, "x")

    def polluted(self):
        """v2 keeps LLM-generated flows in the runtime-wide flow table until they are removed; v1 multi-step never removes them."""
        return self.ver == "v2" and set(self.app.runtime.flow_configs) != self.flow_ids

    def reset(self, pos, text, tag):
        self.later_turns_compared = 0
        self.later_turns_emptied = 0
        self.again_turns, self.again_kind, self.again_done = (), None, set()
        self.hpos, self.htext, self.tag = pos, text, tag
        self.ncalls = 0
        self.kinds_seen = []
        self.hit_kind = None
        self.ttype = "free"
        self.turn = 0
        self.crashes = []
        self.max_steps = 0

    def _script(self, prompt):
        idx = self.ncalls
        self.ncalls += 1
        task = self.last_task
        self.last_task = None
        kind = TASK_KIND.get(task, "passthrough" if task is None else "task:" + str(task))
        if kind == "next" and self.mode == "v1_multi":
            kind = "steps"
        if kind == "general" and self.mode == "v1_passthrough":
            kind = "passthrough"
        self.kinds_seen.append(kind)
        if self.again_turns and self.turn in self.again_turns and kind == self.again_kind and self.turn not in self.again_done:
            # the same hostile completion once more, at the first call of that kind in a later turn
            self.again_done.add(self.turn)
            return self.htext
        if idx == self.hpos:
            self.hit_kind = kind
            return self.htext
        return wellformed(kind, self.ttype, "%s-%d-%d" % (self.tag, self.turn, idx))


def get_app(mode, fresh=False, reuse=40):
    if fresh:
        return HApp(mode)
    a = _W.get(mode)
    if a is None or a.uses >= reuse or a.polluted():
        a = HApp(mode)
        _W[mode] = a
    a.uses += 1
    return a


def setup_worker():
    import importlib

    from . import rails, steps

    rails.load()
    import nemoguardrails.actions.llm.generation as g1
    import nemoguardrails.actions.v2_x.generation as g2
    import nemoguardrails.colang.v1_0.runtime.runtime as r1
    import nemoguardrails.colang.v2_x.runtime.runtime as r2
    from nemoguardrails.actions.llm.utils import LLMCallException
    from nemoguardrails.colang import parse_colang_file

    for mod, names in ((g1.LLMGenerationActions, ("generate_user_intent", "generate_next_step", "generate_bot_message", "generate_value", "generate_intent_steps_message")), (g2.LLMGenerationActionsV2dotx, ("generate_user_intent", "generate_flow_continuation", "generate_value", "generate_flow_from_name", "generate_user_intent_and_bot_action")), (r1.RuntimeV1_0, ("_process_start_flow", "_compute_next_steps")), (r2.RuntimeV2_x, ("_add_flows_action",))):
        for n in names:
            if not hasattr(mod, n):
                raise RuntimeError("symbol vanished: %s.%s" % (mod.__name__, n))
    _W["LLMCallException"] = LLMCallException
    _W["parse"] = parse_colang_file
    mods = []
    for name in (
        "colang.v1_0.lang.colang_parser", "colang.v1_0.lang.utils", "colang.v1_0.lang.coyml_parser", "colang.v1_0.lang.parser",
        "colang.v1_0.runtime.runtime", "colang.v1_0.runtime.flows", "colang.v1_0.runtime.sliding",
        "colang.v2_x.runtime.statemachine", "colang.v2_x.runtime.eval", "colang.v2_x.runtime.runtime", "colang.v2_x.lang.expansion",
    ):
        mods.append(importlib.import_module("nemoguardrails." + name))
    _W["codes"] = steps.install(mods)


def user_text(cid, t, ttype):
    # v2 `user said "valueq"` needs the exact text; everything else carries a unique token
    if ttype == "value":
        return "valueq"
    if ttype == "valuei":
        return "valueqi"  # the generated value is interpolated into a string: bot say "The value is {$y} ok"
    return "%s-%s-%d tell me" % (UTOK, cid, t)


# logical step budgets (function entries into the instrumented interpreter/parser modules) per turn; the largest
# well-behaved turn seen during calibration: v1 ~45k (300-line generated flow), v2 ~2M (bounded flow-generation recursion)
SPIN_WINDOW_CPU_S = 10.0  # a whole window of CPU time without entering any function of the parser / runtime modules = spinning inside one call
STEP_BUDGET = {"v1": 25_000_000, "v2": 8_000_000}  # v1: an endless generated flow runs into the 500-event limit (~0.9M steps); a later turn replays that history on every event


def play(app, case, cid):
    """Runs the conversation; returns list of per-turn (reply, exception, [(crashed LLM action, exception type)])."""
    from . import steps

    app.reset(case["pos"], case["text"], cid)
    if case.get("again"):
        app.again_turns, app.again_kind = tuple(case["again"]), case["kind"]
    app.log.clear()
    app.prompts_by_turn = {}
    out = []
    # (passthrough forwards the message list to the LLM verbatim and rejects a `context` role: a harness matter, not LLM output)
    msgs = [] if app.mode == "v1_passthrough" else [{"role": "context", "content": {"secret_var": SECRET_CTX}}]
    state = {}
    for t, tt in enumerate(case["ttypes"]):
        app.turn, app.ttype = t, tt
        app.crashes = []
        text = user_text(cid, t, tt) if app.ver == "v2" else "%s-%s-%d tell me %s" % (UTOK, cid, t, tt)
        steps.start(STEP_BUDGET[app.ver])
        steps.spin_start(SPIN_WINDOW_CPU_S)
        try:
            if app.ver == "v1":
                msgs.append({"role": "user", "content": text})
                r = app.app.generate(messages=list(msgs))
                out.append((r, None, list(app.crashes)))
                c = r.get("content") if isinstance(r, dict) else None
                msgs.append({"role": "assistant", "content": c if isinstance(c, str) else "(none)"})
            else:
                r = app.app.generate(messages=[{"role": "user", "content": text}], state=state)
                resp = getattr(r, "response", r)
                state = getattr(r, "state", state)
                if isinstance(resp, list) and len(resp) == 1:
                    resp = resp[0]
                out.append((resp, None, list(app.crashes)))
        except (Exception, steps.StepBudgetExceeded) as e:  # observation, judged below
            out.append((None, e, list(app.crashes)))
            break
        finally:
            steps.spin_stop()
            app.max_steps = max(app.max_steps, steps.stop())
            app.prompts_by_turn[t] = [e.get("prompt", "") for e in app.log.items if e.get("kind") == "llm"]
            app.log.clear()
    return out


def judge_reply(reply, exc, markers, failed, llm_call_exception, literal=None):
    """The oracle. Returns None or (mechanism, detail)."""
    if exc is not None:
        if isinstance(exc, llm_call_exception):
            return None
        return ("raised" if isinstance(exc, Exception) else "nonterminating", exc)
    if not isinstance(reply, dict) or reply.get("role") not in ("assistant", "exception"):
        return ("malformed-reply", "not a message dict: %r" % (reply,))
    c = reply.get("content")
    if reply["role"] == "assistant" and not isinstance(c, str):
        return ("malformed-reply", "assistant content is %s" % type(c).__name__)
    if reply["role"] == "exception" and not (isinstance(c, dict) and isinstance(c.get("type"), str)):
        return ("malformed-reply", "exception content is %r" % (c,))
    if isinstance(c, str):
        for m in markers:
            if m in c:
                return ("taint-evaluated", m)
        if literal and "The value is " in c and " ok" in c and ("The value is %s ok" % literal) not in c:
            # the carrier sentence proves the LLM's message text was delivered; what stands between its two halves must be
            # the LLM's characters, not a rewritten form of them
            return ("message-text-not-literal", "expected the literal %r inside %r" % (literal, c[:200]))
    # A crash of an LLM post-processing action that the dispatcher contains (the turn ends with the well-formed
    # "internal error" message) satisfies the statement; it is counted as an observation
    # (`contained_postprocessing_crashes`, `crash_<action>_<exception>`), not judged.
    return None


ANCHOR_FILES = ("actions/llm/generation.py", "actions/llm/utils.py", "actions/v2_x/generation.py", "llm/output_parsers.py", "llm/taskmanager.py", "colang/v1_0/runtime/runtime.py", "colang/v2_x/runtime/runtime.py", "rails/llm/llmrails.py")


def _raise_site(e):
    """(site string, set of function names on the traceback)"""
    import os
    import traceback

    tb = traceback.extract_tb(e.__traceback__)
    fr = [f for f in tb if "nemoguardrails" in f.filename] or list(tb)
    names = {f.name for f in fr}
    anchored = [f for f in fr if f.filename.replace(os.sep, "/").endswith(ANCHOR_FILES)]
    inner = fr[-1] if fr else None
    a = anchored[-1] if anchored else inner
    site = "%s:%s" % (os.path.basename(a.filename), a.name) if a else "?"
    if inner is not None and inner is not a and isinstance(e, Exception):
        site += ">%s:%s" % (os.path.basename(inner.filename), inner.name)
    return site, names


def _run(app, case, cid):
    turns = play(app, case, cid)
    problem = None
    hostile_turns = {_positions(case["mode"], case["ttypes"])[case["pos"]][0]} | set(case.get("again") or ())
    for t, (reply, exc, failed) in enumerate(turns):
        lit = None
        if case["origin"].startswith("taintw") and t in hostile_turns:  # only where the LLM's text was the planted one
            lit = next((tx for tx, _mk_ in TAINT if ("The value is %s ok" % tx) in case["text"]), None)
        v = judge_reply(reply, exc, case["markers"], failed, _W["LLMCallException"], literal=lit)
        if v:
            mech, det = v
            if mech in ("raised", "nonterminating"):
                site, names = _raise_site(det)
                problem = {"mech": "%s:%s@%s" % (mech, type(det).__name__, site) if mech == "raised" else "nonterminating@" + site, "detail": "%s: %s" % (type(det).__name__, str(det)[:300]), "turn": t, "through_start_flow": "_process_start_flow" in names, "in_compute_next_steps": "_compute_next_steps" in names, "what": mech}
            else:
                problem = {"mech": mech + (":" + str(det) if mech == "llm-postprocessing-crashed" else ""), "detail": str(det)[:300], "turn": t, "what": mech}
            break
    hturn = _positions(case["mode"], case["ttypes"])[case["pos"]][0]
    if problem is None:
        # evaluated syntax must not travel on into the prompts of later calls either
        pm = [x for m in case["markers"] for x in PROMPT_MARKERS if x.startswith(m)]
        for t in sorted(app.prompts_by_turn):
            for pr in app.prompts_by_turn[t]:
                hit = next((m for m in pm if m in pr), None)
                if hit and problem is None:
                    problem = {"mech": "taint-evaluated-into-prompt", "detail": "marker %s in a prompt of turn %d: ...%s" % (hit, t, pr[max(0, pr.find(hit) - 120) : pr.find(hit) + 40]), "turn": t, "what": "taint-evaluated"}
    if problem is None and len(turns) > hturn + 1 and case["text"] != wellformed(case["kind"], case["ttypes"][hturn], "M") and app.hit_kind == case["kind"]:
        # containment: a later turn whose LLM answers are all well-formed must not be broken by the hostile answer of an
        # earlier turn. Control = the same conversation with the well-formed completion at the hostile position.
        ctl = dict(case, text=wellformed(case["kind"], case["ttypes"][hturn], "%s-%d-%d" % (cid, hturn, case["pos"])))
        hostile_app = (app.hit_kind, list(app.kinds_seen), app.ncalls, dict(app.prompts_by_turn), app.max_steps)
        app_c = get_app(case["mode"], fresh=True)
        turns_c = play(app_c, ctl, cid)
        for t in range(hturn + 1, min(len(turns), len(turns_c))):
            r1, e1, _f1 = turns[t]
            r0, e0, _f0 = turns_c[t]
            ok0 = e0 is None and isinstance(r0, dict) and r0.get("role") == "assistant" and isinstance(r0.get("content"), str) and r0["content"].strip() and "internal error" not in r0["content"].lower()
            bad1 = isinstance(r1, dict) and ((r1.get("role") == "assistant" and isinstance(r1.get("content"), str) and (not r1["content"].strip() or "internal error" in r1["content"].lower())) or r1.get("role") == "exception")
            if ok0 and bad1:
                # An OBSERVATION, not a verdict: the statement promises a well-formed message and no exception for every
                # turn, which an empty / internal-error reply satisfies. (Seen on the unchanged tree: a generated user
                # intent that names no flow leaves `continuation on unhandled user utterance` waiting forever, so later
                # turns make no LLM call at all and answer "".)
                app.later_turns_emptied = getattr(app, "later_turns_emptied", 0) + 1
        app.later_turns_compared = max(0, min(len(turns), len(turns_c)) - hturn - 1)
    return turns, problem


def _standalone_parse_ok(text):
    """Structural fact for the classifier: does the generated body pass the validation `generate_next_step` applies (parse on its own)?"""
    from . import steps

    steps.start(STEP_BUDGET["v1"] // 4)
    try:
        _W["parse"]("dynamic.co", content=text)
        return True
    except Exception:
        return False
    except steps.StepBudgetExceeded:
        return None
    finally:
        steps.stop()


def run_case(case):
    mode = case["mode"]
    cid = "c%d" % case["id"]
    sample = {"mode": mode, "turn_types": case["ttypes"], "position": case["pos"], "kind": case["kind"], "origin": case["origin"], "text": case["text"][:300]}
    base = {"key": repr((mode, case["ttypes"], case["pos"], case["text"])), "sample": sample, "mode": mode, "kind": case["kind"], "origin": case["origin"]}
    try:
        app = get_app(mode)
    except Exception as e:
        import traceback

        return dict(base, verdict="inconclusive", reason="app-build-failed:%s" % type(e).__name__, detail=traceback.format_exc()[-800:], nontrivial=False)
    turns, problem = _run(app, case, cid)
    fresh_confirmed = None
    if (problem is not None or app.hit_kind != case["kind"]) and app.uses > 1 and not (problem is not None and problem["what"] == "nonterminating"):
        # never blame a case for what an earlier conversation on the same instance left behind
        app2 = get_app(mode, fresh=True)
        turns2, problem2 = _run(app2, case, cid)
        fresh_confirmed = (problem is not None) and problem2 is not None and problem2["mech"] == problem["mech"]
        if problem is not None and not fresh_confirmed and problem2 is None:
            _W.pop(mode, None)
            return dict(base, verdict="inconclusive", reason="not-reproducible-on-fresh-instance", detail=repr(problem)[:400], nontrivial=False)
        app, turns, problem = app2, turns2, problem2
    if problem is not None or app.polluted():
        _W.pop(mode, None)  # never keep an instance that saw a violation or kept generated flows
    replies = [("RAISED %s" % type(e).__name__) if e is not None else r for r, e, f in turns]
    sample["replies"] = [str(r)[:160] for r in replies]
    sample["llm_calls"] = list(app.kinds_seen)[:12]
    obs = {"conversations": 1, "turns": len(turns), "llm_calls": app.ncalls, "prompt_renders_seen": app.renders and 1 or 0}
    obs["max_steps_per_turn_" + app.ver] = app.max_steps
    obs["mode_pos_%s_%s" % (mode, case["kind"])] = 1
    obs["later_turns_compared_with_control"] = getattr(app, "later_turns_compared", 0)
    obs["later_wellformed_turns_emptied_by_earlier_hostile_output"] = getattr(app, "later_turns_emptied", 0)
    for r, e, failed in turns:
        if isinstance(r, dict) and isinstance(r.get("content"), str):
            c = r["content"]
            if c == "":
                obs["empty_content_replies"] = obs.get("empty_content_replies", 0) + 1
            elif "internal error" in c.lower():
                obs["internal_error_replies"] = obs.get("internal_error_replies", 0) + 1
        if isinstance(r, dict) and r.get("role") == "exception":
            obs["exception_role_replies"] = obs.get("exception_role_replies", 0) + 1
        if any(a in VALUE_FUNCS for a, _t in failed):
            obs["value_actions_failed_contained"] = obs.get("value_actions_failed_contained", 0) + 1
        for a, _t in failed:
            if a not in VALUE_FUNCS and _t != _W["LLMCallException"].__name__:
                obs["contained_postprocessing_crashes"] = obs.get("contained_postprocessing_crashes", 0) + 1
                obs["crash_%s_%s" % (a, _t)] = obs.get("crash_%s_%s" % (a, _t), 0) + 1
    if case["markers"]:
        obs["taint_checked_cases"] = 1
        lit = [tx for tx, mk in TAINT if tx in case["text"]]
        if lit and any(isinstance(r, dict) and isinstance(r.get("content"), str) and any(tx in r["content"] for tx in lit) for r, e, f in turns):
            obs["taint_literal_in_reply"] = 1
    res = dict(base, observed=obs)
    if app.hit_kind is None:
        return dict(res, verdict="inconclusive", reason="monitor-not-reached", detail="LLM call position %d never reached; calls seen %s" % (case["pos"], app.kinds_seen[:12]), nontrivial=False)
    if app.hit_kind != case["kind"]:
        return dict(res, verdict="inconclusive", reason="position-kind-mismatch", detail="expected %s got %s (%s)" % (case["kind"], app.hit_kind, app.kinds_seen[:12]), nontrivial=False)
    hturn, htt, _k = _positions(mode, case["ttypes"])[case["pos"]]
    nontrivial = case["text"] != wellformed(case["kind"], htt, "M")
    if problem is not None and problem["what"] == "nonterminating" and app.ver == "v2":
        # the Colang 2 interpreter not reaching quiescence is C10's subject (its finding keys); never a verdict here
        return dict(res, verdict="inconclusive", reason="nonterminating", detail=problem["mech"], nontrivial=False)
    if problem is not None:
        text = case["text"]
        facts = {}
        if case["kind"] == "steps":
            facts["standalone_parse_ok"] = _standalone_parse_ok(text)
        return dict(
            res,
            verdict="violated",
            nontrivial=nontrivial,
            mech=problem["mech"],
            what=problem["what"],
            through_start_flow=problem.get("through_start_flow", False),
            in_compute_next_steps=problem.get("in_compute_next_steps", False),
            after_hostile_turn=problem["turn"] > hturn,
            brace_expr_in_text=("{" in text and "}" in text),
            double_brace_in_text=("{{" in text or "}}" in text),
            dollar_name_in_text=("$" in text),
            empty_completion=(text.strip() == ""),
            llm_wrote_flow_header=text.lstrip("\n ").startswith("flow"),
            no_bot_intent_line=("bot intent:" not in text),
            serialisation_site=("serialization.py" in problem["mech"]),
            fresh_confirmed=fresh_confirmed,
            witness=dict(
                mechanism=problem["mech"],
                hostile_call=dict(mode=mode, turn_types=case["ttypes"], position=case["pos"], kind=case["kind"], text=text[:600]),
                detail=problem["detail"],
                failing_turn=problem["turn"],
                replies=sample["replies"],
                llm_calls_seen=app.kinds_seen[:12],
                expected="generate returns {'role': 'assistant'|'exception', ...} without raising; planted taint not evaluated",
                facts=facts,
                config_colang=MODES[mode][1],
                config_yaml=MODES[mode][2],
            ),
            **facts
        )
    return dict(res, verdict="held", nontrivial=nontrivial)


def classify(r):
    mode, kind, mech, what = r.get("mode"), r.get("kind"), r.get("mech", "?"), r.get("what")
    if what == "message-text-not-literal" and str(mode).startswith("v2"):
        if r.get("double_brace_in_text") and not r.get("dollar_name_in_text"):
            return "v2-double-braces-of-interpolated-value-collapsed"
        return "v2-dollar-name-in-message-text-rewritten"
    if what == "taint-evaluated" and str(mode).startswith("v2") and kind in V2_CODE_KINDS and r.get("brace_expr_in_text"):
        return "v2-llm-bot-say-string-evaluated"
    if mode == "v1_multi" and kind == "steps" and what == "raised" and r.get("in_compute_next_steps") and r.get("standalone_parse_ok"):
        # the generated flow parsed and was registered; one of its steps fails while the runtime advances it
        return "v1-multistep-generated-flow-run-unguarded"
    if mode == "v1_multi" and kind == "steps" and r.get("through_start_flow") and r.get("standalone_parse_ok"):
        # the generated body passed generate_next_step's stand-alone validation; the runtime then fails on it, unguarded
        if what == "nonterminating":
            return "v1-multistep-start-flow-parse-nonterminating"
        if what == "raised":
            return "v1-multistep-start-flow-parse-unguarded"
    if kind == "v2value" and what == "raised" and r.get("serialisation_site"):
        return "v2-generated-value-not-serialisable"
    if str(mode).startswith("v2") and what == "raised" and r.get("serialisation_site") and "RecursionError" in mech:
        return "v2-state-serialisation-recursion-after-nested-flow-generation"
    if what == "llm-postprocessing-crashed" and mech.endswith(":generate_flow:AttributeError"):
        # `...` inside LLM generated flow code starts GenerateFlowAction, which needs a docstring nobody set
        return "v2-generated-ellipsis-starts-generate-flow-without-docstring"
    if what == "llm-postprocessing-crashed" and ":_add_flows_action:" in mech and kind == "v2cont" and r.get("no_bot_intent_line"):
        # GenerateFlowContinuationAction names the flow after the bot intent; without one the name ends in `None`, a keyword
        return "v2-flow-continuation-without-bot-intent-is-named-None"
    if what == "llm-postprocessing-crashed" and ":_add_flows_action:" in mech and not mech.endswith(":KeyError") and kind in ("v2cont", "v2single"):
        # these two kinds hand AddFlowsAction a source whose first line is the `@meta(bot_intent=...)` decorator
        return "v2-add-flows-fallback-defeated-by-decorator-line"
    if what == "llm-postprocessing-crashed" and ":_add_flows_action:Unexpected" in mech and kind == "v2fromname" and r.get("llm_wrote_flow_header"):
        # the fallback flow re-uses the header line the LLM wrote; when that line is the unparseable part the fallback cannot parse either
        return "v2-add-flows-fallback-reuses-unparseable-header"
    if what == "llm-postprocessing-crashed" and r.get("empty_completion"):
        mech += ":empty-completion"
    return "%s:%s:%s" % (mode, kind, mech)


def finalize(tier, seed, observed, counts):
    want = set()
    for mode, (ver, co, y, kinds) in MODES.items():
        for tt, ks in kinds.items():
            for k in ks:
                want.add("mode_pos_%s_%s" % (mode, k))
    missing = sorted(w for w in want if not observed.get(w))
    out = {"coverage": {"mode_positions_expected": len(want), "mode_positions_covered": len(want) - len(missing)}}
    if missing:
        out["inconclusive"] = "call positions never exercised: %s" % ", ".join(missing)
    return out
