"""C17 — arbitrary LLM output never breaks a turn; it is data.

Robustness fuzz + taint monitor.  A case is one 1-3 turn conversation on a real
`LLMRails` instance whose recording LLM answers every call with the well-formed
completion for that call *except one call position*, which gets a hostile text
(corpus string, a hostile/taint text wrapped in the message slot of the
well-formed completion, or a random mutation of the well-formed completion).

Observation points: the value returned / exception raised by `LLMRails.generate`
for every turn (the hostile one and all later ones), the task of every LLM call
(wrapper around the instance's `render_task_prompt`), the literal reply text.

Oracle (independent of the code under test, ~20 lines, `judge_reply`):
  * generate must not raise anything but LLMCallException;
  * the reply is {"role": "assistant", "content": str} or {"role": "exception",
    "content": dict with a str "type"};
  * when taint expressions were planted in LLM *message text*, the reply must not
    contain their evaluated value (1337, SECRETVAL-…, QZQZQZ, the user's own text,
    the colang version) — the literal text (or no text) is fine.
"""
import random
import zlib

PROPERTY = "C17"
LEVEL = "exploration"
RULE = (
    "case = (pipeline mode, conversation of 1-3 turns of given turn types, LLM call position, text returned at that position); text in "
    "{hostile corpus, hostile/taint text inside the message slot of the well-formed completion, 1-3 random mutations of the well-formed completion}; "
    "all other calls answer well-formed. quick: every corpus string and every taint carrier at EVERY call position of every one-turn conversation of every "
    "mode, plus sampled 2-3 turn conversations; non-trivial = the text differs from the well-formed completion of that position and the hostile "
    "position was reached; distinct = (mode, turn types, position, text)"
)
MIN_HELD = {"quick": 400, "thorough": 4000}
MAX_INCONCLUSIVE = 0.05
HARD_INCONCLUSIVE = ("hook-missing", "monitor-not-reached", "position-kind-mismatch")
ASSUMPTIONS = [
    "the LLM is a langchain LLM returning the scripted text verbatim; provider-side failures (LLMCallException) are excluded by the property",
    "taint is judged only where the hostile text sits in LLM *message text*: the whole completion of generate_bot_message / general / passthrough / "
    "generate_value, or the quoted message slot of single-call, v2 `bot say \"…\"` completions; `bot $var` as a generated *step* is code by design",
    "oracle: result shape check + `evaluated marker not in reply` (judge_reply, 20 lines); a violation seen on a re-used LLMRails instance is "
    "re-run on a fresh instance and only reported if it reproduces",
    "v2 turns run under the logical step budget; an overrun is `nonterminating` (C10's subject), not a verdict",
]
SAMPLE_EVERY = 211
CASE_WALL_S = 120

SECRET_CTX = "SECRETVAL-CTX-9731"
SECRET_FLOW = "SECRETVAL-FLOW-4412"
SECRET_V2 = "SECRETVAL-VTWO-5521"
SECRET_CFG = "SECRETVAL-CFG-8843"
UTOK = "UTOK"

# ----------------------------------------------------------------------------- configurations
MAIN_MODELS = "models:\n  - type: main\n    engine: openai\n    model: gpt-3.5-turbo-instruct\n  - type: embeddings\n    engine: verif_hash\n    model: h\n"

V1_CO = '''
define user ask something
  "something"

define user ask flowq
  "flowq"

define user ask valueq
  "valueq"

define bot answer fixed
  "FIXED-ANSWER"

define bot inform name
  "Name is $name ok"

define flow
  user ask something
  bot answer fixed

define flow
  user ask flowq
  $flow_secret = "%s"
  bot answer flowq

define flow
  user ask valueq
  # Extract the name of the user.
  $name = ...
  bot inform name
''' % SECRET_FLOW

V2_CO = '''
import core
import llm

flow main
  global $secret_var
  $secret_var = "%s"
  activate llm continuation
  activate greeting
  activate value flow

flow greeting
  user said "hi"
  bot say "Hello world!"

flow value flow
  user said "valueq"
  $x = ..."Return the name of the user as a string"
  bot say $x
''' % SECRET_V2

V2_SINGLE_CO = '''
import core
import llm

flow main
  global $secret_var
  $secret_var = "%s"
  activate continuation on unhandled user utterance
  activate greeting

flow greeting
  user said "hi"
  bot say "Hello world!"
''' % SECRET_V2

CUSTOM = "custom_data:\n  secret: %s\n" % SECRET_CFG

# mode -> (version, colang, yaml, {turn type -> [call kinds of the well-formed turn]})
MODES = {
    "v1_dialog": ("v1", V1_CO, MAIN_MODELS + CUSTOM, {"free": ["intent", "next", "msg"], "flow": ["intent", "msg"], "value": ["intent", "value"]}),
    "v1_single": ("v1", V1_CO, MAIN_MODELS + CUSTOM + "rails:\n  dialog:\n    single_call:\n      enabled: True\n", {"free": ["single"], "flow": ["single"], "value": ["single", "value"]}),
    "v1_multi": ("v1", V1_CO, MAIN_MODELS + CUSTOM + "enable_multi_step_generation: True\n", {"free": ["intent", "steps", "msg", "msg"], "flow": ["intent", "msg"], "value": ["intent", "value"], "dynvalue": ["intent", "steps", "msg", "value", "msg"]}),
    "v1_general": ("v1", "", MAIN_MODELS + CUSTOM, {"free": ["general"]}),
    "v1_passthrough": ("v1", "", MAIN_MODELS + CUSTOM + "passthrough: True\n", {"free": ["passthrough"]}),
    "v2_cont": ("v2", V2_CO, 'colang_version: "2.x"\n' + MAIN_MODELS + CUSTOM, {"free": ["v2intent", "v2cont"], "value": ["v2value"], "fromname": ["v2intent", "v2cont", "v2fromname"]}),
    "v2_single": ("v2", V2_SINGLE_CO, 'colang_version: "2.x"\n' + MAIN_MODELS + CUSTOM, {"free": ["v2single"]}),
}

TASK_KIND = {
    "generate_user_intent": "intent",
    "generate_next_steps": "next",  # "steps" in multi-step mode
    "generate_bot_message": "msg",
    "generate_value": "value",
    "generate_intent_steps_message": "single",
    "general": "general",
    "generate_user_intent_from_user_action": "v2intent",
    "generate_flow_continuation": "v2cont",
    "generate_value_from_instruction": "v2value",
    "generate_flow_from_name": "v2fromname",
    "generate_user_intent_and_bot_action_from_user_action": "v2single",
}

# kinds whose whole completion is message text
PURE_MESSAGE_KINDS = ("msg", "general", "passthrough")
# kinds with a message slot inside a structured completion: carrier(T)
CARRIERS = {
    "msg": lambda T: '  "%s"' % T,
    "general": lambda T: T,
    "passthrough": lambda T: T,
    "single": lambda T: '  ask other\nbot answer other\n  "%s"' % T,
    "value": lambda T: '"%s"' % T,
    "v2value": lambda T: '"%s"' % T,
    "v2cont": lambda T: 'bot intent: bot answer\nbot action: bot say "%s"' % T,
    "v2single": lambda T: 'user intent: user asked something\nbot intent: bot answer\nbot action: bot say "%s"' % T,
    "v2fromname": lambda T: 'flow bot inform weather\n  bot say "%s"' % T,
}
V2_CODE_KINDS = ("v2cont", "v2single", "v2fromname")


def wellformed(kind, ttype, tag):
    """The well-formed completion for a call of `kind` in a turn of type `ttype`; `tag` makes bot texts unique."""
    intent = {"free": "other", "flow": "flowq", "value": "valueq", "dynvalue": "other", "fromname": "other"}.get(ttype, "other")
    if kind == "intent":
        return "  ask %s" % intent
    if kind == "next":
        return "bot answer other"
    if kind == "steps":
        if ttype == "dynvalue":
            return "bot answer other\n# Extract the name of the user.\n$name = ...\nbot inform other"
        return "bot answer other\nbot add detail"
    if kind == "msg":
        return '  "BOT-%s"' % tag
    if kind == "value":
        return '"Johnny-%s"' % tag
    if kind == "single":
        return '  ask %s\nbot answer %s\n  "BOT-%s"' % (intent, intent, tag)
    if kind in ("general", "passthrough"):
        return "BOT-%s" % tag
    if kind == "v2intent":
        return "user intent: user asked something"
    if kind == "v2cont":
        if ttype == "fromname":
            return "bot intent: bot inform weather\nbot action: bot inform weather"
        return 'bot intent: bot answer\nbot action: bot say "BOT-%s"' % tag
    if kind == "v2value":
        return '"Johnny-%s"' % tag
    if kind == "v2fromname":
        return 'flow bot inform weather\n  bot say "BOT-%s"' % tag
    if kind == "v2single":
        return 'user intent: user asked something\nbot intent: bot answer\nbot action: bot say "BOT-%s"' % tag
    return "BOT-%s" % tag


# ----------------------------------------------------------------------------- hostile corpus
HOSTILE = [
    "", " ", "\n", "\n\n  \n", "\t", "   \t  ",
    '"', '""', '"""', "'", "'''", '"unterminated', 'unbalanced" quote', '"a" "b"', "\\", '\\"', '"\\', "`", "```\ncode\n```",
    "user", "bot", "user ", "bot ", "user ask something", 'user "hello"\n  ask something', "bot answer something", 'bot "hi"', 'user "hi"',
    "  ask something\nbot answer something", "bot ask other\n  user answer", "User intent: ask", "Bot intent: answer", 'Bot message: "x"', "User message: \"x\"",
    "user intent: user asked", "user intent:", "bot intent: bot answer", "bot intent: x", 'bot action: bot say "x"', "bot action:", "bot action: bot say", "bot action: foo bar baz",
    'user action: user said "x"', 'user intent: user said "x" and user y', "user intent: user (weird) name's \"q\"",
    'bot intent: bot a\nbot action: bot say "a"\n  and bot say "b"', "bot intent: bot z\nbot action: bot say 'single'", 'bot action: bot gesture "wave"',
    'bot intent: bot x\nbot action: bot say "unterminated', "bot action: bot say 1337", "bot action: bot say None", "bot action: bot say $undefined_thing",
    "define flow", "define flow x\n  bot y", 'define user x\n  "y"', "define bot", "define", 'flow x\n  bot say "y"', "flow", "flow main", "if $x\n  bot a", "if", "else", "when", "while True",
    "while True\n  bot a", "stop", "abort", "return", "return 5", "pass", "break", "continue", "execute foo", "execute", "$x = ...", "...", "# comment only", "await UnknownAction()", "match Never()",
    'send StopFlow(flow_id="main")', "bot action: await UnknownAction()", "bot action: match Never()", 'bot action: send StopFlow(flow_id="main")', "bot action: $x = 1/0", "bot action: abort",
    "bot action: ...", "bot action: activate main", "bot action: await main", "$x = 1/0", "import core", "@active", "meta", "and", "or bot x", "bot a and bot b", "bot a or bot b", "priority 5",
    "bot answer other\n  \"inline text\"", "bot answer other\nsomething that breaks parsing", "bot answer other\n    over indented", "bot answer other\nuser ask something\nbot answer fixed",
    "bot answer other\nif $x\nbot b", "bot $secret_var", "bot answer $secret_var", "bot inform name", "bot answer fixed", "  ask something", "ask", "  ask", "  express greeting\nbot express greeting\n  \"hi\"",
    "do something", "set $x = 3", "bot answer other\n$x = ...", "bot answer other\nexecute nonexistent_action", "bot answer other\n$r = execute nonexistent_action(a=1)", "event UserSilent", "bot answer other\nstop\nbot never",
    "x" * 5000, "bot " + "y" * 3000, "bot a\n" * 300, '  "' + "long text " * 800 + '"', "a " * 4000,
    "\x00", "a\x00b", "\x1b[31mred", "\r\n", "a\r\nb", "\x07\x08\x0c\x0b", "﻿", "‮abc", "a b", "\x7f",
    '  "a\nuser b"', "line1\nline2\nline3", '"line1\nline2"', '  "multi\n  line\n  message"', "bot x\n\n\n\nbot y",
    '{"role": "assistant", "content": "x"}', "[1, 2, 3]", '{"a": {"b": [null, true]}}', "{", "}", "[", "]", "{}", "[]", "()", "(", '{"user_intent": "x", "bot_action": null}',
    "{{ 7*191 }}", '  "{{ 7*191 }}"', "{% for i in range(3) %}QZ{% endfor %}", "{%", "%}", "{{", "}}", "{{ undefined_thing.attr }}", "{# comment #}", "{% raw %}", "{% if %}", "{{ ''.__class__ }}",
    "$", "$secret_var", "{$secret_var}", "  $secret_var", '  "$secret_var"', "${secret_var}", "{expr}", "{1300+37}", "{$system.config.colang_version}", "$$", "$1", "$secret_var.attr", "{$undefined}", "{1/0}", "{",
    "héllo wörld ✓", "日本語のテキスト", "😀😀😀", "ｂｏｔ　ａｎｓｗｅｒ", "bot ответ", "İ", "ß" * 50,
    "None", "123", "-1", "1e999", "[1,2", "__import__('os').getcwd()", "'single'", "True;", "7*191", '"a" + "b"', "b'bytes'", "{1, 2}", "1 if True else 2", "lambda: 1", '"""', "'unterminated", "(1,)", ";", '"x";;',
]

# taint expression -> marker that only appears when it was evaluated
TAINT = [
    ("{{ 7*191 }}", "1337"), ("{{7*191}}", "1337"), ("{{ secret_var }}", "SECRETVAL"), ("$secret_var", "SECRETVAL"), ("{$secret_var}", "SECRETVAL"), ("${secret_var}", "SECRETVAL"),
    ("{secret_var}", "SECRETVAL"), ("%(secret_var)s", "SECRETVAL"), ("{% for i in range(3) %}QZ{% endfor %}", "QZQZQZ"), ("{7*191}", "1337"), ("{1300+37}", "1337"),
    ("$flow_secret", "SECRETVAL"), ("{{ flow_secret }}", "SECRETVAL"), ("{$system.config.custom_data}", "SECRETVAL"), ("{{ config.custom_data }}", "SECRETVAL"),
    ("{$system.config.colang_version}", "2.x"), ("$user_message", UTOK), ("{{ user_message }}", UTOK), ("{{ last_user_message }}", UTOK), ("$last_user_message", UTOK),
    ("{$event.final_transcript}", UTOK), ("{{ history }}", UTOK), ("{len('abcdefg')*191}", "1337"),
]
ALL_MARKERS = ["1337", "SECRETVAL", "QZQZQZ", UTOK]
MUT_TOKENS = ['"', "\n", "$secret_var", "{{ 7*191 }}", "{", "}", "user ", "bot ", "define flow ", "...", "\x00", "#", ":", "  ", "\t", "if ", "(", ")", ",", "'", "=", "$", "\\", "{% for i in range(3) %}QZ{% endfor %}", " and ", " or ", "\n  ", "{1300+37}", "😀"]


def mutate(rng, w, other):
    for _ in range(rng.randint(1, 3)):
        op = rng.randrange(12)
        n = len(w)
        i = rng.randint(0, n) if n else 0
        if op == 0 and n:
            w = w[:i] + w[i + 1 :]
        elif op == 1 and n:
            j = rng.randint(i, min(n, i + 12))
            w = w[:j] + w[i:j] + w[j:]
        elif op in (2, 3, 4):
            w = w[:i] + rng.choice(MUT_TOKENS) + w[i:]
        elif op == 5:
            w = w.lstrip()
        elif op == 6:
            w = "\n".join("    " + l for l in w.split("\n"))
        elif op == 7:
            ls = w.split("\n")
            rng.shuffle(ls)
            w = "\n".join(ls)
        elif op == 8:
            w = w[:i]
        elif op == 9:
            w = w.upper() if rng.random() < 0.5 else w.replace("bot ", "user ").replace("ask ", "bot ")
        elif op == 10:
            w = w + "\n" + w
        else:
            w = w + rng.choice(["\n", " ", "\n\n"]) + other
    return w


# ----------------------------------------------------------------------------- case generation (parent side; no repo import)
def _positions(mode, ttypes):
    kinds = MODES[mode][3]
    out = []
    for t, tt in enumerate(ttypes):
        for k in kinds[tt]:
            out.append((t, tt, k))
    return out


def _texts_for(kind, full):
    """(origin, text, markers) triples for one call kind."""
    out = []
    for i, h in enumerate(HOSTILE):
        out.append(("corpus%d" % i, h, ALL_MARKERS if kind in PURE_MESSAGE_KINDS else []))
    car = CARRIERS.get(kind)
    if car:
        for i, (tx, mk) in enumerate(TAINT):
            out.append(("taint%d" % i, car(tx), [mk]))
            out.append(("taintw%d" % i, car("The value is %s ok" % tx), [mk]))
        if kind not in PURE_MESSAGE_KINDS:
            hs = HOSTILE if full else HOSTILE[::3]
            for i, h in enumerate(hs):
                if len(h) < 200:
                    out.append(("slot%d" % i, car(h), []))
    return out


def cases(tier, seed):
    i = 0
    rng = random.Random(1700 + seed)
    # 1. every corpus/taint text at every position of every one-turn conversation
    for mode, (ver, co, y, kinds) in MODES.items():
        for tt in kinds:
            pos = _positions(mode, [tt])
            for p, (t, _tt, k) in enumerate(pos):
                texts = _texts_for(k, tier != "quick")
                if tier == "quick" and ver == "v2":
                    # v2 turns cost ~0.6 s: the taint carriers and a seeded half of the corpus
                    texts = [x for j, x in enumerate(texts) if x[0].startswith("taint") or (j + seed) % 2 == 0]
                for origin, text, markers in texts:
                    i += 1
                    yield {"id": i, "mode": mode, "ttypes": [tt], "pos": p, "kind": k, "origin": origin, "text": text, "markers": markers}
    # 2. sampled multi-turn conversations: corpus, carriers and mutations at a random position
    n1, n2 = (900, 160) if tier == "quick" else (14000, 2200)
    for ver, n in (("v1", n1), ("v2", n2)):
        modes = [m for m in MODES if MODES[m][0] == ver]
        for _ in range(n):
            mode = rng.choice(modes)
            kinds = MODES[mode][3]
            nt = rng.choice([1, 2, 2, 3]) if ver == "v1" else rng.choice([1, 2, 2])
            tts = [rng.choice(sorted(kinds)) for _ in range(nt)]
            pos = _positions(mode, tts)
            p = rng.randrange(len(pos))
            t, tt, k = pos[p]
            r = rng.random()
            if r < 0.6:
                w = wellformed(k, tt, "M")
                other = wellformed(rng.choice(sorted(set(sum(kinds.values(), [])))), tt, "O")
                text = mutate(rng, w, other)
                origin = "mutation"
                markers = ALL_MARKERS if k in PURE_MESSAGE_KINDS else []
            else:
                origin, text, markers = rng.choice(_texts_for(k, True))
            i += 1
            yield {"id": i, "mode": mode, "ttypes": tts, "pos": p, "kind": k, "origin": origin, "text": text, "markers": markers}


# ----------------------------------------------------------------------------- the application under observation
_W = {}


class HApp:
    def __init__(self, mode):
        from . import rails

        L = rails.load()
        ver, co, y, kinds = MODES[mode]
        self.mode, self.ver = mode, ver
        self.log = rails.Log()
        cfg = L["RailsConfig"].from_content(co, y)
        self.llm = L["RecLLM"](script=self._script, log=self.log)
        self.app = L["LLMRails"](cfg, llm=self.llm)
        tm = self.app.runtime.llm_task_manager
        orig = tm.render_task_prompt
        if not callable(orig):
            raise RuntimeError("hook-missing: llm_task_manager.render_task_prompt")
        self.renders = 0

        def wrapped(task, *a, **k):
            self.last_task = getattr(task, "value", str(task))
            self.renders += 1
            return orig(task, *a, **k)

        tm.render_task_prompt = wrapped
        self.last_task = None
        self.uses = 0
        self.reset(None, None, "x")

    def reset(self, pos, text, tag):
        self.hpos, self.htext, self.tag = pos, text, tag
        self.ncalls = 0
        self.kinds_seen = []
        self.hit_kind = None
        self.ttype = "free"
        self.turn = 0

    def _script(self, prompt):
        idx = self.ncalls
        self.ncalls += 1
        task = self.last_task
        self.last_task = None
        kind = TASK_KIND.get(task, "passthrough" if task is None else "task:" + str(task))
        if kind == "next" and self.mode == "v1_multi":
            kind = "steps"
        if kind == "general" and self.mode == "v1_passthrough":
            kind = "passthrough"
        self.kinds_seen.append(kind)
        if idx == self.hpos:
            self.hit_kind = kind
            return self.htext
        return wellformed(kind, self.ttype, "%s-%d-%d" % (self.tag, self.turn, idx))


def get_app(mode, fresh=False, reuse=40):
    if fresh:
        return HApp(mode)
    a = _W.get(mode)
    if a is None or a.uses >= reuse:
        a = HApp(mode)
        _W[mode] = a
    a.uses += 1
    return a


def setup_worker():
    from . import rails, steps

    rails.load()
    import nemoguardrails.actions.llm.generation as g1
    import nemoguardrails.actions.v2_x.generation as g2
    import nemoguardrails.colang.v1_0.runtime.runtime as r1
    import nemoguardrails.colang.v2_x.runtime.eval as ev
    import nemoguardrails.colang.v2_x.runtime.runtime as r2
    import nemoguardrails.colang.v2_x.runtime.statemachine as sm
    from nemoguardrails.actions.llm.utils import LLMCallException

    for mod, names in ((g1.LLMGenerationActions, ("generate_user_intent", "generate_next_step", "generate_bot_message", "generate_value", "generate_intent_steps_message")), (g2.LLMGenerationActionsV2dotx, ("generate_user_intent", "generate_flow_continuation", "generate_value", "generate_flow_from_name", "generate_user_intent_and_bot_action")), (r1.RuntimeV1_0, ("_process_start_flow",)), (r2.RuntimeV2_x, ("_add_flows_action",))):
        for n in names:
            if not hasattr(mod, n):
                raise RuntimeError("symbol vanished: %s.%s" % (mod.__name__, n))
    _W["LLMCallException"] = LLMCallException
    _W["codes"] = steps.install([sm, ev, r1, r2])


def user_text(cid, t, ttype):
    # v2 `user said "valueq"` needs the exact text; everything else carries a unique token
    if ttype == "value":
        return "valueq"
    return "%s-%s-%d tell me" % (UTOK, cid, t)


STEP_BUDGET = 3_000_000


def play(app, case, cid):
    """Runs the conversation; returns list of per-turn (reply, exception)."""
    from . import steps

    app.reset(case["pos"], case["text"], cid)
    out = []
    # (passthrough forwards the message list to the LLM verbatim and rejects a `context` role: a harness matter, not LLM output)
    msgs = [] if app.mode == "v1_passthrough" else [{"role": "context", "content": {"secret_var": SECRET_CTX}}]
    state = {}
    for t, tt in enumerate(case["ttypes"]):
        app.turn, app.ttype = t, tt
        text = user_text(cid, t, tt) if app.ver == "v2" else "%s-%s-%d tell me %s" % (UTOK, cid, t, tt)
        steps.start(STEP_BUDGET)
        try:
            if app.ver == "v1":
                msgs.append({"role": "user", "content": text})
                r = app.app.generate(messages=list(msgs))
                out.append((r, None))
                c = r.get("content") if isinstance(r, dict) else None
                msgs.append({"role": "assistant", "content": c if isinstance(c, str) else "(none)"})
            else:
                r = app.app.generate(messages=[{"role": "user", "content": text}], state=state)
                resp = getattr(r, "response", r)
                state = getattr(r, "state", state)
                if isinstance(resp, list) and len(resp) == 1:
                    resp = resp[0]
                out.append((resp, None))
        except Exception as e:  # observation, judged below
            out.append((None, e))
            break
        finally:
            app.max_steps = max(getattr(app, "max_steps", 0), steps.stop())
    return out


def judge_reply(reply, exc, markers, llm_call_exception):
    """The oracle. Returns None or (mechanism, detail)."""
    if exc is not None:
        if isinstance(exc, llm_call_exception):
            return None
        return ("raised", exc)
    if not isinstance(reply, dict) or reply.get("role") not in ("assistant", "exception"):
        return ("malformed-reply", "not a message dict: %r" % (reply,))
    c = reply.get("content")
    if reply["role"] == "assistant" and not isinstance(c, str):
        return ("malformed-reply", "assistant content is %s" % type(c).__name__)
    if reply["role"] == "exception" and not (isinstance(c, dict) and isinstance(c.get("type"), str)):
        return ("malformed-reply", "exception content is %r" % (c,))
    if isinstance(c, str):
        for m in markers:
            if m in c:
                return ("taint-evaluated", m)
    return None


def _raise_site(e):
    import os
    import traceback

    tb = traceback.extract_tb(e.__traceback__)
    fr = [f for f in tb if "nemoguardrails" in f.filename] or list(tb)
    f = fr[-1] if fr else None
    return "%s@%s:%s" % (type(e).__name__, os.path.basename(f.filename) if f else "?", f.name if f else "?")


def _run(app, case, cid):
    turns = play(app, case, cid)
    problem = None
    hturn = None
    for t, (reply, exc) in enumerate(turns):
        v = judge_reply(reply, exc, case["markers"], _W["LLMCallException"])
        if v:
            mech, det = v
            if mech == "raised":
                problem = {"mech": "raised:" + _raise_site(det), "detail": "%s: %s" % (type(det).__name__, str(det)[:300]), "turn": t}
            else:
                problem = {"mech": mech, "detail": str(det)[:300], "turn": t}
            break
    return turns, problem


def run_case(case):
    mode = case["mode"]
    cid = "c%d" % case["id"]
    sample = {"mode": mode, "turn_types": case["ttypes"], "position": case["pos"], "kind": case["kind"], "origin": case["origin"], "text": case["text"][:300]}
    base = {"key": repr((mode, case["ttypes"], case["pos"], case["text"])), "sample": sample, "mode": mode, "kind": case["kind"], "origin": case["origin"]}
    try:
        app = get_app(mode)
    except Exception as e:
        import traceback

        return dict(base, verdict="inconclusive", reason="app-build-failed:%s" % type(e).__name__, detail=traceback.format_exc()[-800:], nontrivial=False)
    turns, problem = _run(app, case, cid)
    fresh_confirmed = None
    if problem is not None and app.uses > 1:
        app2 = get_app(mode, fresh=True)
        turns2, problem2 = _run(app2, case, cid)
        fresh_confirmed = problem2 is not None and problem2["mech"] == problem["mech"]
        if not fresh_confirmed:
            return dict(base, verdict="inconclusive", reason="not-reproducible-on-fresh-instance", detail=repr(problem)[:400], nontrivial=False)
        app, turns, problem = app2, turns2, problem2
    _W.pop(mode, None) if problem is not None else None  # never keep an instance that saw a violation
    replies = [("RAISED %s" % type(e).__name__) if e is not None else r for r, e in turns]
    sample["replies"] = [str(r)[:160] for r in replies]
    sample["llm_calls"] = list(app.kinds_seen)
    obs = {"conversations": 1, "turns": len(turns), "llm_calls": app.ncalls, "prompt_renders_seen": app.renders and 1 or 0, "max_steps_per_turn": getattr(app, "max_steps", 0)}
    obs["mode_pos_%s_%s" % (mode, case["kind"])] = 1
    obs["positions"] = ["%s/%s/%s" % (mode, "+".join(case["ttypes"][:1]), case["kind"])]
    for r, e in turns:
        if isinstance(r, dict) and isinstance(r.get("content"), str):
            c = r["content"]
            if c == "":
                obs["empty_content_replies"] = obs.get("empty_content_replies", 0) + 1
            elif "internal error" in c.lower():
                obs["internal_error_replies"] = obs.get("internal_error_replies", 0) + 1
        if isinstance(r, dict) and r.get("role") == "exception":
            obs["exception_role_replies"] = obs.get("exception_role_replies", 0) + 1
    if case["markers"]:
        obs["taint_checked_cases"] = 1
        lit = [tx for tx, mk in TAINT if tx in case["text"]]
        if lit and any(isinstance(r, dict) and isinstance(r.get("content"), str) and any(tx in r["content"] for tx in lit) for r, e in turns):
            obs["taint_literal_in_reply"] = 1
    res = dict(base, observed=obs)
    if app.hit_kind is None:
        return dict(res, verdict="inconclusive", reason="monitor-not-reached", detail="LLM call position %d never reached; calls seen %s" % (case["pos"], app.kinds_seen), nontrivial=False)
    if app.hit_kind != case["kind"]:
        return dict(res, verdict="inconclusive", reason="position-kind-mismatch", detail="expected %s got %s (%s)" % (case["kind"], app.hit_kind, app.kinds_seen), nontrivial=False)
    tt = case["ttypes"][[t for t, _tt, k in _positions(mode, case["ttypes"])][case["pos"]]]
    nontrivial = case["text"] != wellformed(case["kind"], tt, "M")
    if problem is not None:
        text = case["text"]
        return dict(
            res,
            verdict="violated",
            nontrivial=nontrivial,
            mech=problem["mech"],
            after_hostile_turn=problem["turn"] > [t for t, _tt, k in _positions(mode, case["ttypes"])][case["pos"]],
            brace_expr_in_text=("{" in text and "}" in text),
            fresh_confirmed=fresh_confirmed,
            witness={
                "mode": mode,
                "config_colang": MODES[mode][1],
                "config_yaml": MODES[mode][2],
                "turn_types": case["ttypes"],
                "hostile_call_position": case["pos"],
                "hostile_call_kind": case["kind"],
                "hostile_text": text[:600],
                "llm_calls_seen": app.kinds_seen,
                "failing_turn": problem["turn"],
                "mechanism": problem["mech"],
                "detail": problem["detail"],
                "replies": sample["replies"],
                "expected": "generate returns {'role': 'assistant'|'exception', ...} without raising; planted taint not evaluated",
            },
        )
    return dict(res, verdict="held", nontrivial=nontrivial)


def classify(r):
    mode, kind, mech = r.get("mode"), r.get("kind"), r.get("mech", "?")
    if mech == "taint-evaluated" and str(mode).startswith("v2") and kind in V2_CODE_KINDS and r.get("brace_expr_in_text"):
        return "v2-llm-bot-say-string-evaluated"
    return "%s:%s:%s" % (mode, kind, mech)


def finalize(tier, seed, observed, counts):
    want = set()
    for mode, (ver, co, y, kinds) in MODES.items():
        for tt, ks in kinds.items():
            for k in ks:
                want.add("mode_pos_%s_%s" % (mode, k))
    missing = sorted(w for w in want if not observed.get(w))
    out = {"coverage": {"mode_positions_expected": len(want), "mode_positions_covered": len(want) - len(missing)}}
    if missing:
        out["inconclusive"] = "call positions never exercised: %s" % ", ".join(missing)
    return out
