"""Conversation generator, driver and oracle shared by C01 (input side), C02 (output
side) and C03 (faults). A case is fully described by JSON; the judgement returns
problems tagged with the property clause they refute, so that each check only
reports its own.
"""
import random

from . import rails

INTERNAL_ERROR_MARKERS = ("internal error", "Internal error")


class _Stub:
    def __init__(self, cid, V):
        self.cid = cid
        self.V = V


def unpack_V(case):
    return {(s, t, i): v for s, t, i, v in case["V"]}


def gen_case(rng, ver, tier, force=None):
    """Random conversation description."""
    force = force or {}
    k = force.get("k", rng.randint(1, 4 if tier != "quick" else 3))
    m = force.get("m", rng.randint(0, 2))
    if ver == "v1":
        mode = force.get("mode", rng.choice(["dialog", "dialog", "general", "passthrough", "single_call", "multi_step"]))
        exc = force.get("exc", rng.random() < 0.25)
    else:
        mode, exc = "v2", False
    turns = force.get("turns", rng.randint(1, 4 if tier != "quick" else 3))
    spec = {"ver": ver, "k": k, "m": m, "mode": mode, "exc": exc}
    if ver == "v1":
        spec["in_shapes"] = [rng.choice(["v", "v", "allowed", "mask"] + (["evt"] if force.get("evt") else []) + (["note"] if force.get("note") else [])) for _ in range(k)]
        spec["out_shapes"] = [rng.choice(["v", "v", "allowed"]) for _ in range(m)]
        spec["dialog_action"] = bool(mode == "dialog" and rng.random() < 0.3)
        if k >= 2 and rng.random() < 0.15:
            spec["dup_in"] = [rng.randrange(k - 1)]  # an earlier rail is listed once more after the last one
        if m >= 2 and rng.random() < 0.15:
            spec["dup_out"] = [rng.randrange(m - 1)]
    V = []
    kinds = []
    for t in range(turns):
        kind = "fixed" if (mode in ("dialog", "single_call", "multi_step") and rng.random() < 0.25) else "llm"
        kinds.append(kind)
        for i in range(k):
            # (a rewrite would also mask the keyword that selects the predefined-message intent)
            opts = ["ok", "ok", "ok", "block", "rewrite"] if (ver == "v1" and spec["in_shapes"][i] not in ("allowed", "note") and kind != "fixed") else ["ok", "ok", "ok", "block"]
            if ver == "v1" and spec["in_shapes"][i] == "note":
                opts = ["ok", "ok", "ok", "block", "note", "note"]
            V.append(["in", t, i, rng.choice(opts)])
        for i in range(m):
            if kind == "fixed":
                V.append(["out", t, i, "ok"])
                continue
            opts = ["ok", "ok", "block", "rewrite"] if (ver == "v1" and spec["out_shapes"][i] != "allowed") else ["ok", "ok", "block"]
            V.append(["out", t, i, rng.choice(opts)])
    opts = None
    if ver == "v1" and turns >= 2 and rng.random() < 0.3:
        # per-call generation options that switch a category off for ONE call must not leak into other turns
        choices = [None, None, {"rails": {"input": False}}, {"rails": {"output": False}}, {"rails": {"input": True, "output": True, "dialog": True, "retrieval": True}}]
        opts = [rng.choice(choices) for _ in range(turns)]
        if all(o is None for o in opts):
            opts[0] = {"rails": {"input": False}}
    api = "state" if (ver == "v1" and rng.random() < 0.3) else "messages"
    if ver == "v1" and api == "messages" and not any(kd == "fixed" for kd in kinds) and rng.random() < 0.12:
        api = "prompt"  # completion-style calls generate(prompt=...), each turn a conversation of its own
    elif ver == "v1" and api == "messages" and rng.random() < 0.12:
        api = "nocache"  # a stateless deployment: every turn is served without the events cache (history rebuilt from the messages)
    if turns >= 2 and m >= 1 and rng.random() < 0.1:
        spec["same_bot"] = True  # the LLM produces the very same text in every turn
    if rng.random() < 0.25:
        spec["sig"] = rng.choice(rails.SIGNATURES)  # the rail / dialog actions also declare a parameter the runtime injects by name
    same_user = bool(turns >= 2 and k >= 1 and rng.random() < 0.1)
    if same_user:
        # the user repeats the very same text in every turn; no rewrites (the text-identity clauses need distinct texts)
        kinds = [kinds[0]] * turns
        V = [[s_, t_, i_, ("ok" if (v_ == "rewrite" and s_ == "in") else v_)] for s_, t_, i_, v_ in V]
        if kinds[0] == "fixed":
            V = [[s_, t_, i_, ("ok" if s_ == "out" else v_)] for s_, t_, i_, v_ in V]
    return {"same_user": same_user, "spec": spec, "turns": turns, "kinds": kinds, "V": V, "cid": "c%d" % rng.randint(0, 10**6), "fault": None, "opts": opts, "api": api, "tx": rng.choice([0, 0, 1, 2, 3, 4])}


def expected_action_calls(case):
    """Number of custom-action calls of the fault-free conversation according to the model (for fault enumeration)."""
    spec = case["spec"]
    stub = _Stub(case["cid"], unpack_V(case))
    n = 0
    per_turn = []
    for t in range(case["turns"]):
        mt = rails.model_turn(spec, stub, t, "x", case["kinds"][t], (case.get("opts") or [None] * case["turns"])[t])
        c = len(mt["exp_in"])
        if mt["in_blocked"] is None:
            if spec.get("dialog_action") and case["kinds"][t] == "llm":
                c += 1
            c += len(mt["exp_out"])
        per_turn.append(c)
        n += c
    return n, per_turn


TEXT_FAMILIES = ("", "$5 off ", 'say "hi" {x} $y ', "it's 100% <b>&amp;</b> ", "see {$last_user_message} and {$i} ")  # (the family prefix is directly followed by the turn's unique token)
# texts that spell references to context variables: the LLM must be shown these very characters (what the rails checked)
BAITS = ("{$last_user_message}", "{$user_message}")


def user_text(case, t):
    # the unique token stays in the text; a family prefix makes the message start with / contain characters that mean
    # something to Colang, to the prompt templates or to the event-creation code
    base = TEXT_FAMILIES[case.get("tx", 0) % len(TEXT_FAMILIES)] + user_token(case, t) + " "
    return base + ("fixedq" if case["kinds"][t] == "fixed" else "something")


def user_token(case, t):
    """`same_user`: the user sends the very same text in every turn (the rails' verdicts still differ per turn)"""
    return "SECRET-%s-%s" % (case["cid"], "S" if case.get("same_user") else t)


def run_conversation(case, reuse=0):
    """Drive the conversation; returns (turn_records, app)."""
    spec = case["spec"]
    app = rails.get_app(spec, reuse=reuse)
    app.cid = case["cid"]
    app.api = case.get("api", "messages")
    app.V = unpack_V(case)
    app.fault_at = set(case["fault"]) if case.get("fault") else None
    app.acalls = 0
    msgs = []
    state = {} if spec["ver"] == "v2" else None
    records = []
    for t in range(case["turns"]):
        app.turn = t
        text = user_text(case, t)
        reply, exc, state = app.play_turn(msgs, state, text, (case.get("opts") or [None] * case["turns"])[t])
        items = list(app.log.items)
        records.append({"t": t, "text": text, "reply": reply, "raised": exc, "log": items})
        if exc is not None:
            break
        if spec["ver"] == "v1":
            if isinstance(reply, dict) and reply.get("role") == "assistant":
                msgs.append({"role": "assistant", "content": reply.get("content")})
            else:
                msgs.append({"role": "assistant", "content": "(exception)"})
    return records, app


def judge(case, records, app):
    """returns (problems, stats). problems: list of dict(tag=C01|C02|C03, t, what, detail)"""
    spec = case["spec"]
    ver, mode, exc = spec["ver"], spec["mode"], spec.get("exc", False)
    problems = []
    stats = {"rail_calls_in": 0, "rail_calls_out": 0, "llm_calls": 0, "prompts_token_checked": 0, "turns_judged": 0, "turns_after_block": 0, "faulted_turns": 0, "turns_after_fault": 0, "vacuous_rewrite_turns": 0}
    rewritten_tokens = []  # original tokens of earlier turns whose text was rewritten by an input rail
    had_block = False
    had_fault = False
    had_note = False
    cur_fault = [None]  # (side, index) of the rail / dialog action whose call failed in the turn being judged

    def P(tag, t, what, detail=""):
        problems.append({"tag": tag, "t": t, "what": what, "detail": str(detail)[:400], "after_fault": had_fault, "after_block": had_block, "after_note": had_note, "fault_rail": cur_fault[0]})

    for rec in records:
        t = rec["t"]
        log = rec["log"]
        reply = rec["reply"]
        ins = [e for e in log if e["kind"] == "in"]
        outs = [e for e in log if e["kind"] == "out"]
        llms = [e for e in log if e["kind"] == "llm"]
        faults = [e for e in log if e["kind"] == "fault"]
        stats["rail_calls_in"] += len(ins)
        stats["rail_calls_out"] += len(outs)
        stats["llm_calls"] += len(llms)
        bot_token = rails.bot_token(case["cid"], t, case["spec"])
        orig_token = user_token(case, t)
        # ---------------- C03: a faulted turn
        if rec["raised"] is not None:
            P("C03", t, "generate-raised", "%s: %s" % (type(rec["raised"]).__name__, rec["raised"]))
            if not case.get("fault"):
                # no fault was injected: a valid conversation made generate raise - no rail property holds for that turn
                P("C01", t, "generate-raised-without-fault", "%s: %s" % (type(rec["raised"]).__name__, rec["raised"]))
                P("C02", t, "generate-raised-without-fault", "%s: %s" % (type(rec["raised"]).__name__, rec["raised"]))
            break
        content = reply.get("content") if isinstance(reply, dict) else None
        wellformed = isinstance(reply, dict) and reply.get("role") in ("assistant", "exception") and (isinstance(content, (str, dict)) or content is None)
        cur_fault[0] = None
        if faults:
            stats["faulted_turns"] += 1
            f = faults[0]
            cur_fault[0] = (f["side"], f.get("idx"))
            if not wellformed:
                P("C03", t, "malformed-reply-after-fault", reply)
            else:
                ctext = content if isinstance(content, str) else str(content)
                if f["side"] in ("in", "out") and bot_token in ctext:
                    P("C03", t, "unchecked-llm-text-returned-after-%s-rail-fault" % f["side"], ctext)
                elif reply.get("role") == "assistant" and not (any(mk in ctext for mk in INTERNAL_ERROR_MARKERS) or "REFUSED-" in ctext):
                    if f["side"] in ("in", "out"):
                        P("C03", t, "reply-neither-refusal-nor-internal-error", ctext)
                if f["side"] == "in" and any(e["clock"] > f["clock"] for e in llms):
                    P("C03", t, "llm-called-after-input-rail-fault", len(llms))
            had_fault = True
            continue
        # ---------------- fault-free turn: the sequential model
        stats["turns_judged"] += 1
        if had_fault:
            stats["turns_after_fault"] += 1
        if had_block:
            stats["turns_after_block"] += 1
        mt = rails.model_turn(spec, app, t, rec["text"], case["kinds"][t], (case.get("opts") or [None] * case["turns"])[t])
        tagin = "C03" if had_fault else "C01"
        tagout = "C03" if had_fault else "C02"
        if not wellformed:
            P(tagin, t, "malformed-reply", reply)
            continue
        got_in = [(e["idx"], e["text"]) for e in ins]
        if mt.get("note_at") is not None:
            # a rail said something without stopping: only the safety clauses - the rails up to it ran in order on the current
            # text, whatever ran afterwards continues the configured order, and an LLM call needs ALL rails before it
            stats["note_turns"] = stats.get("note_turns", 0) + 1
            full = [i for i in (list(range(spec["k"])) + list(spec.get("dup_in") or []))]
            if got_in[: len(mt["exp_in"])] != mt["exp_in"] or [i for i, _x in got_in] != full[: len(got_in)]:
                P(tagin, t, "input-rail-calls-differ", {"got": got_in, "expected_prefix": mt["exp_in"]})
            if llms and (len(got_in) < len(full) or min(e["clock"] for e in llms) < max(e["clock"] for e in ins)):
                P(tagin, t, "llm-call-before-last-input-rail", "")
            had_note = True
            continue
        if got_in != mt["exp_in"]:
            P(tagin, t, "input-rail-calls-differ", {"got": got_in, "expected": mt["exp_in"]})
        if mt["in_blocked"] is not None:
            had_block = True
            if ver == "v1" and mt["text"] != rec["text"] and mode != "passthrough":
                # (passthrough: the rewrite is only written into the caller's message when the turn reaches generation; the
                #  caller's own copy of a REJECTED message is the caller's business)
                # rewritten by one rail, then rejected by a later one: later stages (the prompts of later turns) still
                # must only see the rewritten text
                rewritten_tokens.append(orig_token)
                stats["rewritten_then_rejected_turns"] = stats.get("rewritten_then_rejected_turns", 0) + 1
            if llms:
                P(tagin, t, "llm-called-after-input-rejection", len(llms))
            if outs and ver == "v1":
                pass  # v1 output rails do not run on refusals; not demanded either way
            exp = mt["reply"]
            if reply.get("role") != exp["role"] or (exp["content"] is not None and reply.get("content") != exp["content"]):
                P(tagin, t, "reply-is-not-the-rejecting-rails-refusal", {"got": reply, "expected": exp})
            elif exp["role"] == "exception" and "INEXC-%d" % mt["in_blocked"] not in str(reply.get("content")):
                P(tagin, t, "reply-is-not-the-rejecting-rails-refusal", {"got": reply, "expected": "INEXC-%d" % mt["in_blocked"]})
            continue
        # not blocked on the input side
        if ins and llms and min(e["clock"] for e in llms) < max(e["clock"] for e in ins):
            P(tagin, t, "llm-call-before-last-input-rail", "")
        if case["kinds"][t] == "llm" and not llms:
            P(tagin, t, "no-generation-for-accepted-message", reply)
        for e in log:
            if e["kind"] == "dialog_action":
                stats["dialog_action_params_checked"] = stats.get("dialog_action_params_checked", 0) + 1
                if e.get("q") != mt["text"] or e.get("text") != mt["text"]:
                    # a later stage: it must see the (possibly rewritten) text of THIS turn, through the context and through a
                    # `$user_message` parameter written in the flow alike
                    P(tagin, t, "dialog-action-shown-another-text", {"parameter": e.get("q"), "context": e.get("text"), "current_text": mt["text"]})
                    break
        if llms and mt["text"] == rec["text"]:
            # (a reference directly in front of the turn's unique token: an expansion of other references may re-insert
            #  earlier texts, but never this pair)
            for bait in ("{$i} " + orig_token,):
                if bait in rec["text"]:
                    stats["bait_texts_checked"] = stats.get("bait_texts_checked", 0) + 1
                    if not any(bait in e["prompt"] for e in llms):
                        P(tagin, t, "llm-shown-a-text-the-rails-did-not-check", {"expected_literally": bait, "prompt_tail": llms[0]["prompt"][-300:]})
                        break
        if ver == "v1":
            if mt["text"] != rec["text"]:
                for e in llms:
                    stats["prompts_token_checked"] += 1
                    if orig_token in e["prompt"]:
                        P(tagin, t, "original-text-in-prompt-after-rewrite", e["prompt"][-300:])
                        break
                if llms and not any(mt["text"] in e["prompt"] for e in llms):
                    stats["vacuous_rewrite_turns"] += 1
                rewritten_tokens.append(orig_token)
            # (only when every call uses default options: per-call options change the history-cache key, the
            #  history is then rebuilt from the caller's own raw messages, which legitimately carry earlier originals)
            # (passthrough builds its prompt from the caller's own message dicts: the clause applies there because the driver,
            #  like an in-process caller, keeps resending the very same dict objects, which the rewrite is written into)
            if mode in ("dialog", "general", "single_call", "multi_step", "passthrough") and not case.get("opts") and case.get("api", "messages") == "messages":
                for tok in rewritten_tokens:
                    if tok == orig_token:
                        continue
                    for e in llms:
                        stats["prompts_token_checked"] += 1
                        if tok in e["prompt"]:
                            P(tagin, t, "earlier-masked-original-text-in-later-prompt", tok)
                            break
        # ---------------- output side
        if case["kinds"][t] == "fixed":
            if reply.get("content") != "FIXED-ANSWER":
                P(tagout, t, "predefined-message-not-returned", reply)
            continue
        raw_bot = bot_token
        if ver == "v1":
            got_out = [(e["idx"], e["text"]) for e in outs]
        else:
            got_out = [(e["idx"], e["text"]) for e in outs if isinstance(e["text"], str) and "BOT-" in e["text"]]
        if got_out != mt["exp_out"]:
            P(tagout, t, "output-rail-calls-differ", {"got": got_out, "expected": mt["exp_out"]})
        exp = mt["reply"]
        if mt["out_blocked"] is not None:
            had_block = True
        if reply.get("role") != exp["role"] or (exp["content"] is not None and reply.get("content") != exp["content"]):
            ctext = str(reply.get("content"))
            if mt["out_blocked"] is not None and raw_bot in ctext:
                P(tagout, t, "rejected-llm-text-returned", {"got": reply, "expected": exp})
            else:
                P(tagout, t, "reply-differs-from-model", {"got": reply, "expected": exp})
        elif exp["role"] == "exception" and "OUTEXC-%d" % mt["out_blocked"] not in str(reply.get("content")):
            P(tagout, t, "reply-differs-from-model", {"got": reply, "expected": "OUTEXC-%d" % mt["out_blocked"]})
    return problems, stats
