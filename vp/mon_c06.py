"""C06 — flow and action lifetimes are bounded by the parent flow.

Trace checker with its own shadow hierarchy. Observation points (wrapped module
attributes of statemachine.py, all sharing one logical clock):
  * _process_internal_events_without_default_matchers : the ordered internal-event
    stream; StartFlow carries (flow_id, flow_instance_uid, source_flow_instance_uid,
    activated) = "instance p executed start/await/activate of u";
  * _abort_flow / _finish_flow : the instant an instance ends (status transition);
  * _generate_action_event_from_actionable_element + _generate_umim_event : which
    instance emitted which Start…Action, and every Stop…Action;
  * the Finished events the driver feeds (late, early, for dead uids, never);
  * flow statuses at quiescence (when run_to_completion returned).
The shadow model never reads child_flow_uids / parent_uid / flow_scope_count.
"""
import random

PROPERTY = "C06"
LEVEL = "exploration"
RULE = (
    "case = (generated hierarchy of <=6 flow definitions using start/await/activate/when-else/and-or groups, event history of 8 (thorough 12) "
    "events incl. action Finished for live and already stopped actions, tie-break seed) or a template scenario (shared identical action, "
    "two activators of one flow, never-waiting activated flow); non-trivial = during the history at least one flow instance ended while it had a "
    "running descendant or an unfinished action; distinct = (program, history)"
)
MIN_HELD = {"quick": 3000, "thorough": 60000}
ASSUMPTIONS = [
    "generated action names encode the starting flow and statement, and no flow definition runs two instances in parallel (activated restarts are sequential), so ownership is unambiguous",
    "`running` = status started/starting read from the instance at quiescence; `ended` = status transition observed inside _abort_flow/_finish_flow",
    "obligations are checked when run_to_completion returns (that is what the property states), not in between",
]
SAMPLE_EVERY = 401

NAME_INFIX = ["QuickStartGuide", "BusStopInfo", "SceneChange", "RefreshFinishedList", "StatusUpdatedView", "NonStop"]
_T = {"clock": 0, "trace": [], "ends": {}, "umim": [], "cur_owner": None, "installed": False}


def setup_worker():
    from . import v2h

    L = v2h.load()
    sm = L["sm"]
    need = ["_process_internal_events_without_default_matchers", "_abort_flow", "_finish_flow", "_generate_umim_event", "_generate_action_event_from_actionable_element"]
    for n in need:
        if not hasattr(sm, n):
            raise RuntimeError("statemachine.%s missing" % n)

    def tick():
        _T["clock"] += 1
        return _T["clock"]

    orig_p = sm._process_internal_events_without_default_matchers

    def hook_p(state, event):
        _T["trace"].append((tick(), event.name, dict(event.arguments)))
        return orig_p(state, event)

    sm._process_internal_events_without_default_matchers = hook_p

    def wrap_end(orig, how):
        def w(state, flow_state, *a, **k):
            before = getattr(flow_state.status, "value", str(flow_state.status))
            try:
                return orig(state, flow_state, *a, **k)
            finally:
                after = getattr(flow_state.status, "value", str(flow_state.status))
                if before in ("waiting", "started", "starting", "stopping") and after in ("stopped", "finished"):
                    _T["ends"].setdefault(flow_state.uid, (tick(), how, flow_state.flow_id))

        return w

    sm._abort_flow = wrap_end(sm._abort_flow, "failed")
    sm._finish_flow = wrap_end(sm._finish_flow, "finished")

    orig_g = sm._generate_action_event_from_actionable_element

    def hook_g(state, head):
        _T["cur_owner"] = head.flow_state_uid
        try:
            return orig_g(state, head)
        finally:
            _T["cur_owner"] = None

    sm._generate_action_event_from_actionable_element = hook_g
    orig_u = sm._generate_umim_event

    def hook_u(state, event):
        r = orig_u(state, event)
        try:
            _T["umim"].append((tick(), r.get("type"), r.get("action_uid"), _T["cur_owner"]))
        except Exception:
            pass
        return r

    sm._generate_umim_event = hook_u
    _T["installed"] = True


def cases(tier, seed):
    base = seed * 3_000_017
    n = 6000 if tier == "quick" else 150000
    for i in range(n):
        yield {"id": i, "fam": "hier", "seed": base + i, "hlen": 8 if tier == "quick" else 12, "deep": tier != "quick" and i % 2 == 0, "sta": i % 3 == 2}
    m = 2400 if tier == "quick" else 24000
    for i in range(m):
        yield {"id": n + i, "fam": "tmpl", "seed": base + i}
    # the same scenarios and hierarchies through the public API RuntimeV2_x.process_events (outgoing events are fed back)
    for i in range(m // 2):
        yield {"id": n + m + i, "fam": "tmpl", "seed": base + i, "api": True}
    for i in range(n // 6):
        yield {"id": n + m + m // 2 + i, "fam": "hier", "seed": base + 7_000_000 + i, "hlen": 8, "deep": False, "sta": i % 3 == 2, "api": True}


TEMPLATES = {
    # two flows start the identical action on the same event (co-winners share it); they end at different times
    "shared-action": (
        "flow main\n  start fa\n  start fb\n  match Never()\n\n"
        "flow fa\n  match Go()\n  start SharedAction() as $s\n  match EndA()\n\n"
        "flow fb\n  match Go()\n  start SharedAction() as $s\n  match EndB()\n",
        ["Go"],
        ["EndA", "EndB", "FIN", "X"],
    ),
    # one flow activated by two activators: stops only when the last activator ends
    "two-activators": (
        "flow main\n  start fa\n  start fb\n  match Never()\n\n"
        "flow fa\n  activate fz\n  match EndA()\n\n"
        "flow fb\n  activate fz\n  match EndB()\n\n"
        "flow fz\n  match Tick()\n  start FzAction() as $z\n  match Tock()\n",
        [],
        ["EndA", "EndB", "Tick", "Tock", "FIN", "Tick", "AGE", "AGE"],
    ),
    # the first activator ends, its instance is cleaned up (idle time), the activated flow finishes and restarts several times,
    # then the remaining activator ends
    "two-activators-aged-restarts": (
        "flow main\n  start fa\n  start fb\n  match Never()\n\n"
        "flow fa\n  activate fz\n  match EndA()\n\n"
        "flow fb\n  activate fz\n  match EndB()\n\n"
        "flow fz\n  match Tick()\n  start FzAction() as $z\n  match Tock()\n",
        ["EndA", "AGE", "X", "Tick", "Tock", "Tick", "Tock", "Tick"],
        ["EndB", "Tick", "Tock", "X", "FIN", "AGE", "EndB"],
    ),
    # an activated flow that finishes without ever waiting runs once and stays activated
    "never-waiting": (
        "flow main\n  start fa\n  match Never()\n\n"
        "flow fa\n  activate fq\n  match EndA()\n\n"
        "flow fq\n  start FqAction() as $q\n",
        [],
        ["X", "FIN", "EndA", "X"],
    ),
    # the same flow activates the same flow twice (reference counting must not outlive the single activator)
    "double-activation": (
        "flow main\n  start fa\n  match Never()\n\n"
        "flow fa\n  activate fz\n  match Mid()\n  activate fz\n  match EndA()\n\n"
        "flow fz\n  match Tick()\n  start FzAction() as $z\n  match Tock()\n",
        [],
        ["Mid", "EndA", "Tick", "Tock", "FIN", "Mid", "Tick"],
    ),
    "double-activation-now": (
        "flow main\n  start fa\n  match Never()\n\n"
        "flow fa\n  activate fz\n  activate fz\n  match EndA()\n  abort\n\n"
        "flow fz\n  match Tick()\n  send Tack()\n",
        [],
        ["EndA", "Tick", "Tick", "EndA"],
    ),
    # an action started inside a `when … or when <Action>` case is stopped when the scope ends while its flow runs on;
    # its …ActionStarted acknowledgement may arrive late (after that Stop); then the flow itself ends
    "scoped-action-when": (
        "flow main\n  start fa\n  match Never()\n\n"
        "flow fa\n  when Win()\n    send Won()\n  or when FaTimerAction()\n    send Timed()\n  match EndA()\n",
        [],
        ["Win", "STA", "EndA", "FIN", "X", "STA", "Win"],
    ),
    # the same through an or-group of a flow and an action; the owner then fails or finishes
    "scoped-action-group": (
        "flow main\n  start fa\n  start fk\n  match Never()\n\n"
        "flow fw\n  match Win()\n\n"
        "flow fa\n  await fw or FaGroupAction()\n  match EndA()\n\n"
        "flow fk\n  match Kill()\n  send StopFlow(flow_id=\"fa\")\n",
        [],
        ["Win", "STA", "EndA", "Kill", "FIN", "X", "STA"],
    ),
    # nested: child of an awaited flow with an action; the grand parent ends
    "nested-await": (
        "flow main\n  start fa\n  match Never()\n\n"
        "flow fa\n  start fb\n  match EndA()\n\n"
        "flow fb\n  await fc\n  match Never2()\n\n"
        "flow fc\n  start FcAction() as $c\n  match $c.Finished()\n  start FcTwoAction() as $d\n  match EndC()\n",
        [],
        ["FIN", "EndA", "EndC", "FIN", "X"],
    ),
}


# a flow issues a request (activate / start / await of fz) in the very processing step in which it is ended from the outside:
# fp is a child of fg, both wait for Go, fp's pattern Go(x=1) is the more specific one (its head advances first and queues the
# request), then fg finishes and aborts fp. Later the only live activator of fz (fq) ends: fz and its action must end with it.
for _req in ("activate fz", "start fz", "await fz", "start fz as $r\n  match $r.Finished()"):
    for _pre_act in (True, False):
        TEMPLATES["request-from-dying-flow:%s:%s" % (_req.split("\n")[0].replace(" ", "-"), "activated" if _pre_act else "fresh")] = (
            "flow main\n  start fq\n  start fg\n  match Never()\n\n"
            "flow fz\n  start FzAction() as $z\n  match Tick()\n  match Never2()\n\n"
            "flow fq\n  %s\n  match EndQ()\n\n" % ("activate fz" if _pre_act else "match Early()")
            + "flow fp\n  match Go(x=1)\n  %s\n  match Never3()\n\n" % _req
            + "flow fg\n  start fp\n  match Go()\n",
            [{"type": "Go", "x": 1}],
            ["EndQ", "X", "FIN", "Tick", {"type": "Go", "x": 1}, "EndQ"],
        )


# one flow definition activated with DIFFERENT arguments by two flows (a default-less parameter given by one, omitted by the
# other): two activations, each bounded by its own activator
for _first in ("fp", "fq"):
    TEMPLATES["activated-with-and-without-argument:%s-ends-first" % _first] = (
        "flow main\n  start fp\n  start fq\n  match Never()\n\n"
        "flow fz $v\n  start FzAction(v=$v) as $z\n  match Tick()\n  match Never2()\n\n"
        "flow fp\n  activate fz \"y\"\n  match EndP()\n\n"
        "flow fq\n  match Later()\n  activate fz\n  match EndQ()\n",
        ["Later"],
        (["EndP", "X", "Tick", "EndQ", "FIN"] if _first == "fp" else ["EndQ", "X", "Tick", "EndP", "FIN"]),
    )


def running(fs):
    return getattr(fs.status, "value", str(fs.status)) in ("started", "starting")


_SYSTEM_START_ARGS = ("flow_id", "flow_instance_uid", "activated", "source_flow_instance_uid", "source_head_uid", "flow_hierarchy_position", "flow_start_uid")


class Shadow:
    def __init__(self):
        self.started_by = {}  # u -> (p, activated, flow_id, stamp)
        self.activators = {}  # (flow_id, argument signature) -> set(instance uid of another flow id)
        self.psig = {}  # u -> argument signature of its StartFlow event
        self.starts_of = {}  # flow_id -> number of StartFlow processed
        self.actions = {}  # uid -> dict
        self.fed_finished = {}  # uid -> stamp
        self.fed_started = {}  # uid -> stamp (…ActionStarted fed by the driver: prompt, or late = after the Stop)
        self.late_started = 0
        self.problems = []  # (kind, detail, facts)
        self.nontrivial = False
        self.stops_checked = 0
        self.ended_flows = 0
        self.restarts = 0

    def absorb(self, st):
        for stamp, name, args in _T["trace"]:
            if name == "StartFlow" and "flow_instance_uid" in args and args.get("flow_id") != "main":
                u = args["flow_instance_uid"]
                p = args.get("source_flow_instance_uid")
                fid = args["flow_id"]
                act = bool(args.get("activated"))
                self.started_by[u] = (p, act, fid, stamp)
                # the arguments the flow was started / activated with: one definition activated with different arguments is
                # several activations, each with its own activators and its own instance
                self.psig[u] = tuple(sorted((k, repr(v)) for k, v in args.items() if k not in _SYSTEM_START_ARGS))
                self.starts_of[fid] = self.starts_of.get(fid, 0) + 1
                pf = st.flow_states.get(p)
                pfid = pf.flow_id if pf is not None else (p.split(")")[0][1:] if p and p.startswith("(") else None)
                if act:
                    if pfid != fid:
                        self.activators.setdefault((fid, self.psig[u]), set()).add(p)
                    else:
                        self.restarts += 1
        _T["trace"][:] = []
        for stamp, typ, uid, owner in _T["umim"]:
            if not typ or not typ.endswith("Action"):
                continue
            if typ.startswith("Start"):
                a = self.actions.get(uid)
                if a is None:
                    self.actions[uid] = {"name": typ[5:], "owners": {owner} if owner else set(), "start": stamp, "stops": [], "bad": []}
                else:
                    a["bad"].append("started-twice")
            elif typ.startswith("Stop"):
                self.stops_checked += 1
                a = self.actions.get(uid)
                if a is None:
                    self.actions[uid] = {"name": typ[4:], "owners": set(), "start": None, "stops": [stamp], "bad": ["stop-for-never-started-action"]}
                else:
                    if a["stops"]:
                        a["bad"].append("second-stop")
                    if uid in self.fed_finished:
                        a["bad"].append("stop-after-finished")
                    a["stops"].append(stamp)
        _T["umim"][:] = []

    def note_shared(self, st):
        """identical-action co-winners: the generator's template declares the owner set statically"""
        pass

    def check(self, st, static):
        ends = _T["ends"]
        self.ended_flows = len(ends)
        # ---- 1. plain starts
        for u, (p, activated, fid, stamp) in self.started_by.items():
            if activated:
                continue
            cu = st.flow_states.get(u)
            if cu is None or not running(cu):
                continue
            p_ended = p in ends or (p not in st.flow_states)
            if p in st.flow_states and st.flow_states[p].flow_id == "main" and not (getattr(st.flow_states[p].status, "value", "") == "stopped"):
                p_ended = False
            if p_ended:
                facts = {"child": fid, "start_stamp": stamp, "parent_end_stamp": ends.get(p, (None,))[0]}
                late = ends.get(p) is not None and stamp > ends[p][0]
                self.problems.append(("orphan-running-child" + (":start-processed-after-starter-ended" if late else ""), "%s runs although its starter ended" % fid, facts))
        for u, e in ends.items():
            # non-trivial: an instance ended that had started something
            if any(v[0] == u for v in self.started_by.values()) or any(u in a["owners"] and not (a["stops"] and a["stops"][0] < e[0]) for a in self.actions.values()):
                self.nontrivial = True
        # ---- 2. activation
        def chain(f):
            """follow the restart chain (sources of the same flow id) back to the instance another flow activated"""
            u = f.uid
            first = u
            seen = set()
            while u in self.started_by and u not in seen:
                seen.add(u)
                p, act, fid_, stamp = self.started_by[u]
                pf = st.flow_states.get(p)
                pfid = pf.flow_id if pf is not None else (ends.get(p, (0, "", None))[2])
                if pfid != fid_:
                    return first, u, p, stamp  # (running inst, chain head, root activator, chain head start stamp)
                u = p
            return first, u, None, None

        for (fid, psig), acts in self.activators.items():
            any_act = any((a in st.flow_states and running(st.flow_states[a]) and a not in ends) for a in acts)
            insts = [f for f in st.flow_id_states.get(fid, []) if running(f) and self.psig.get(f.uid, psig) == psig]
            info = []
            for f in insts:
                _, head, root, stamp = chain(f)
                root_ended = root is None or root in ends or root not in st.flow_states
                is_restart = head != f.uid
                late = root in ends and stamp is not None and stamp > ends[root][0]
                info.append({"orphan": root_ended, "restart": is_restart, "late": late})

            def mech(orphans):
                if orphans and all(i["restart"] for i in orphans):
                    return ":restart-outlives-activator"
                if orphans and all(i["late"] for i in orphans):
                    return ":start-processed-after-starter-ended"
                return ""

            if not any_act and insts:
                self.problems.append(("activated-flow-outlives-activators" + mech(info), fid, {"instances": info}))
            elif any_act and len(insts) > 1:
                orphans = [i for i in info if i["orphan"]]
                m = mech(orphans) if len(info) - len(orphans) == 1 else ""
                self.problems.append(("activated-flow-two-running-instances" + m, fid, {"instances": info}))
            elif any_act and not insts:
                if fid in static.get("never_waiting", ()):  # runs once and stays activated
                    if self.starts_of.get(fid, 0) > len(acts):
                        self.problems.append(("never-waiting-activated-flow-started-again", fid, {"starts": self.starts_of.get(fid), "activations": len(acts)}))
                else:
                    self.problems.append(("activated-flow-not-running-while-activator-runs", fid, {}))
        # ---- 3. actions
        for uid, a in self.actions.items():
            for b in a["bad"]:
                self.problems.append((b, a["name"], {}))
            a["bad"] = []
            if a["stops"] and not a.get("prem_checked") and a["name"] in static.get("extra_owners", {}) and uid not in self.fed_finished:
                # an action shared by co-winning flows (owner set declared by the template, no scopes, no explicit Stop):
                # it must not be stopped while one of the sharers still runs
                a["prem_checked"] = True
                owners = set(a["owners"]) | set(static["extra_owners"][a["name"]](st))
                alive = [o for o in owners if o in st.flow_states and running(st.flow_states[o]) and o not in ends]
                if alive:
                    self.problems.append(("shared-action-stopped-while-a-sharer-runs", a["name"], {"running_sharers": len(alive)}))
            if a["stops"] or uid in self.fed_finished or a["start"] is None:
                continue
            owners = set(a["owners"]) | set(static.get("extra_owners", {}).get(a["name"], lambda st_: set())(st))
            if owners and all(o in ends for o in owners):
                self.problems.append(("unfinished-action-of-ended-flow-not-stopped", a["name"], {}))


def drive(src, pre, history, seed, static, api=False):
    from . import steps, v2h

    L = v2h.load()
    L["random"].reset(seed=seed)
    L["clock"].reset()
    rng = random.Random(seed ^ 0xC06)
    _T["trace"][:] = []
    _T["umim"][:] = []
    _T["ends"].clear()
    sh = Shadow()
    fed = []
    if api:
        # the public event-processing API: RuntimeV2_x.process_events feeds the outgoing events back as input events
        import asyncio

        from nemoguardrails import RailsConfig
        from nemoguardrails.colang.v2_x.runtime.runtime import RuntimeV2_x

        try:
            runtime = RuntimeV2_x(RailsConfig.from_content(src, 'colang_version: "2.x"\nmodels: []\n'))
        except Exception as e:
            raise v2h.LoaderReject("runtime %s: %s" % (type(e).__name__, str(e)[:300]))
        box = {"st": None}

        def feed(events):
            steps.start(3_000_000)
            try:
                out, box["st"] = asyncio.run(runtime.process_events(events, box["st"]))
            finally:
                steps.stop()
            return box["st"]

        st = feed([])
    else:
        st = v2h.mk(src)
    sh.absorb(st)
    sh.check(st, static)
    for h in list(pre) + list(history):
        if sh.problems:
            break
        if h == "FIN":
            cands = sorted(sh.actions)
            if not cands:
                continue
            live = [u for u in cands if not sh.actions[u]["stops"] and u not in sh.fed_finished]
            pool = live if (live and rng.random() < 0.75) else cands  # sometimes a Finished for a dead/stopped action
            uid = pool[rng.randrange(len(pool))]
            if uid in sh.fed_finished:
                continue
            ev = {"type": sh.actions[uid]["name"] + "Finished", "action_uid": uid, "is_success": True, "return_value": None}
            sh.fed_finished[uid] = _T["clock"]
        elif h == "STA":
            # the environment acknowledges an action: …ActionStarted, possibly late (after the interpreter already sent Stop)
            cands = [u for u in sorted(sh.actions) if u not in sh.fed_finished and u not in sh.fed_started and sh.actions[u]["start"] is not None]
            if not cands:
                continue
            stopped = [u for u in cands if sh.actions[u]["stops"]]
            pool = stopped if (stopped and rng.random() < 0.5) else cands
            uid = pool[rng.randrange(len(pool))]
            ev = {"type": sh.actions[uid]["name"] + "Started", "action_uid": uid}
            sh.fed_started[uid] = _T["clock"]
            if sh.actions[uid]["stops"]:
                sh.late_started += 1
        elif h == "AGE":
            # more than 5 s of (virtual) idle time: the interpreter's clean-up of long-ended instances runs at the next event
            L["clock"].advance(6.5)
            sh.aged = getattr(sh, "aged", 0) + 1
            continue
        elif isinstance(h, dict):
            ev = dict(h)
        else:
            ev = {"type": h}
        fed.append(ev["type"])
        if api:
            st = feed([ev])
        else:
            v2h.run(st, ev)
        sh.absorb(st)
        sh.check(st, static)
    return sh, fed, st


def run_case(case):
    from . import gen_v2, steps, v2h

    rng = random.Random(case["seed"])
    static = {}
    if case["fam"] == "hier":
        g = gen_v2.gen_hierarchy(rng, max_flows=6 if case.get("deep") else 5, depth_bias=bool(case.get("deep")), with_groups=True, with_when=True, main_kids_first=rng.random() < 0.8, ext_end=rng.random() < 0.3)
        src = g["src"]
        hist = ["FIN" if rng.random() < 0.35 else "E%d" % rng.randint(1, 3) for _ in range(case["hlen"])]
        if case.get("sta"):
            hist = [("STA" if rng.random() < 0.25 else h) for h in hist]
        if rng.random() < 0.3:
            hist = [x for h in hist for x in ((["AGE"] if rng.random() < 0.3 else []) + [h])]
        pre = []
        # flows whose body never waits (only `start …Action()` lines)
        nw = set()
        for block in src.split("\n\n"):
            lines = [l for l in block.strip().split("\n") if l.strip()]
            if lines and lines[0].startswith("flow ") and all(l.strip().startswith("start F") and "Action()" in l for l in lines[1:]):
                nw.add(lines[0][5:].strip())
        static["never_waiting"] = nw
        tname = "hier"
    else:
        tname = sorted(TEMPLATES)[case["seed"] % len(TEMPLATES)]
        src, pre, pool = TEMPLATES[tname]
        hist = [rng.choice(pool) for _ in range(rng.randint(3, 7))]
        if tname == "never-waiting":
            static["never_waiting"] = {"fq"}
        if tname == "shared-action":
            # co-winners share the action: owners = the instances of fa and fb (declared by the template)
            static["extra_owners"] = {"SharedAction": lambda st: {f.uid for fid in ("fa", "fb") for f in st.flow_id_states.get(fid, [])}}
    # legal action type names that merely CONTAIN the words event names are built from (Start, Stop, Change, Finished, Updated)
    infix = None
    if rng.random() < 0.3:
        import re as _re

        infix = rng.choice(NAME_INFIX)
        src = _re.sub(r"\b([A-Z][A-Za-z0-9]*?)Action\(", lambda m_: m_.group(1) + infix + "Action(", src)
        if "extra_owners" in static:
            static["extra_owners"] = {k_.replace("Action", infix + "Action"): v_ for k_, v_ in static["extra_owners"].items()}
    base = {"key": repr((src, pre, hist, case["seed"] if case["fam"] == "hier" else 0)), "fam": tname, "sample": {"program": src, "history": list(pre) + hist}}
    if not _T["installed"]:
        return dict(base, verdict="inconclusive", reason="hook-missing")
    try:
        sh, fed, st = drive(src, pre, hist, case["seed"], static, api=bool(case.get("api")))
    except v2h.LoaderReject as e:
        return dict(base, verdict="inconclusive", reason="loader-reject", detail=str(e)[:300])
    except steps.StepBudgetExceeded:
        return dict(base, verdict="inconclusive", reason="expected:nonterminating(C10)")
    except Exception as e:
        return dict(base, verdict="inconclusive", reason="expected:exception-escaped(C10):%s" % type(e).__name__, detail=str(e)[:200])
    obs = {
        "flows_ended": sh.ended_flows,
        "stop_events_checked": sh.stops_checked,
        "actions_started": len([a for a in sh.actions.values() if a["start"] is not None]),
        "activated_restarts": sh.restarts,
        "started_events_fed": len(sh.fed_started),
        "late_started_events_fed": sh.late_started,
        "start_flow_events": sum(sh.starts_of.values()),
        "fam_" + tname: 1,
        "action_names_with_event_word_infix": int(infix is not None),
        "driven_through_process_events": int(bool(case.get("api"))),
        "idle_periods_longer_than_cleanup_age": getattr(sh, "aged", 0),
    }
    base["sample"]["fed"] = fed
    if sh.problems:
        kinds = sorted({k for k, _, _ in sh.problems})
        return dict(base, verdict="violated", nontrivial=True, observed=obs, kinds=kinds, witness={"program": src, "fed": fed, "problems": [(k, d, f) for k, d, f in sh.problems[:5]]})
    if sum(sh.starts_of.values()) == 0:
        return dict(base, verdict="inconclusive", reason="history-started-no-flow", observed=obs)
    return dict(base, verdict="held", nontrivial=sh.nontrivial, observed=obs)


def classify(r):
    kinds = r.get("kinds", ["unknown"])
    known = [k.split(":", 1)[1] for k in kinds if ":" in k]
    plain = [k for k in kinds if ":" not in k]
    if known and not plain:
        return "+".join(sorted(set(known)))
    return "+".join(kinds)
