"""C05 — competing flows: exactly one most-specific action wins per interaction loop.

n flows started from main wait on `match Ev(<subset of params>)` and then start an
action. One external Ev is sent; ALL outcomes of every `random.choice` tie-break
are enumerated (stateless DFS over decision scripts, the interpreter being
deterministic apart from them). Oracle: per loop, argmax of
priority * 0.9^unmentioned; winners observed over the enumeration == argmax set.
A second event that only the previously non-fitting flows fit checks that they
were left untouched.
"""
import random

PROPERTY = "C05"
LEVEL = "exploration"
RULE = (
    "case = generated program of 2-5 flows (subset of 3 scalar parameters mentioned, optional priority in {0.9,0.5}, optional second loop, "
    "shared or distinct actions with arguments, optional non-fitting value), one event with all parameters, then a second event fitting only "
    "the previously non-fitting flows; inside the case EVERY outcome of every random tie-break is executed. quick additionally enumerates "
    "all specificity vectors for n<=3. non-trivial = >=3 flows in one loop with >=2 distinct keys or an exact tie; distinct = program text"
)
MIN_HELD = {"quick": 2000, "thorough": 20000}
ASSUMPTIONS = [
    "oracle key computed with the same float expression order as the interpreter (0.9**unmentioned, then * priority); near-ties (<1e-9, not equal) are not generated",
    "action identity = (action name, arguments); action names are loop-unique",
    "`proceeded` is read from flow status finished vs stopped (a trailing marker send would itself be an action conflict)",
]
SAMPLE_EVERY = 211
PARAMS = ["a", "b", "c"]
NAME_POOL = ["BusStopInfo", "SceneChange", "QuickStartGuide", "RefreshFinishedList", "StatusUpdatedView", "NonStop"]
VAL = {"a": 1, "b": 2, "c": 3}
# a fourth, container-valued event parameter `d` (some programs): a pattern may mention any non-empty part of its members; every
# member it leaves out makes it less specific, exactly like a parameter left out (factor 0.9 each)
MEMBERS = ["k", "m", "n"]
CONT_VAL = {"dict": {"k": 1, "m": 2, "n": 3}, "list": [1, 2, 3]}


def cont_literal(kind, D):
    if kind == "dict":
        return "{" + ", ".join('"%s": %d' % (k, CONT_VAL["dict"][k]) for k in D) + "}"
    return "[" + ", ".join(str(CONT_VAL["dict"][k]) for k in D) + "]"


def fname(i):
    return "f" + "abcdefgh"[i]


def render(flows):
    src = "flow main\n" + "".join("  start %s\n" % fname(f["i"]) for f in flows) + "  match Never()\n\n"
    for f in flows:
        ov = f.get("override")
        if ov:
            # the flow is defined twice: a first definition that an @override one replaces. Only the decorators the
            # overriding definition spells itself count (it is the flow the oracle reasons about)
            if ov == "base-has-loop":
                src += '@loop("basel")\n'
            src += "flow %s\n  match NeverBase()\n\n@override\n" % fname(f["i"])
        if f["loop"]:
            src += '@loop("%s")\n' % f["loop"]
        src += "flow %s\n" % fname(f["i"])
        if f["prio"] is not None:
            src += "  priority %s\n" % f["prio"]
        src += PRELUDES.get(f.get("prelude"), "")
        args = ", ".join(["%s=%s" % (p, 99 if (f["mismatch"] and p == f["S"][0]) else VAL[p]) for p in f["S"]] + (["d=" + cont_literal(f["cont"], f["D"])] if f.get("D") else []))
        aargs = "" if f["aarg"] is None else "x=%d" % f["aarg"]
        if f.get("scoped"):
            # the action is started inside the scope of an or-group (`await <action> or <flow>`); afterwards the flow goes on
            src += "  match Ev(%s)\n  await %s%sAction(%s) or never helper\n  $went_on = %d\n  match NeverAfter()\n\n" % (args, f["act"], "Y" if f["loop"] else "X", aargs, f["i"] + 100)
        elif f.get("fork"):
            nm = "%s%sAction" % (f["act"], "Y" if f["loop"] else "X")
            src += "  match Ev(%s)\n  start %s(x=1) or %s(x=2)\n\n" % (args, nm, nm)
        else:
            src += "  match Ev(%s)\n  start %s%sAction(%s)\n\n" % (args, f["act"], "Y" if f["loop"] else "X", aargs)
    if any(f.get("scoped") for f in flows):
        src += "flow never helper\n  match NeverH()\n\n"
    if any(f.get("prelude") for f in flows):
        src += "flow failing one\n  abort\n\nflow failing two\n  abort\n\nflow done one\n  $z = 1\n\n"
    return src


# statements a competitor went through BEFORE it waits for the event: they finish while the flow is started and change nothing
# the statement talks about (but leave different traces in the head: label stacks of when/else, merged forks, scopes)
PRELUDES = {
    "when-else-all-fail": "  when failing one\n    $w = 1\n  or when failing two\n    $w = 2\n  else\n    $w = 3\n",
    "when-else-one-case": "  when failing one\n    $w = 1\n  else\n    $w = 3\n",
    "when-case-taken": "  when done one\n    $w = 1\n  or when failing two\n    $w = 2\n  else\n    $w = 3\n",
    "or-group": "  await done one or failing one\n",
    "if-while": "  $w = 0\n  while $w < 2\n    if $w == 1\n      break\n    $w = $w + 1\n",
}


def gen_program(rng, flows=None):
    if flows is None:
        n = rng.randint(2, 5)
        flows = []
        alias = {}
        cont = rng.choice(["dict", "list"]) if rng.random() < 0.25 else None
        if rng.random() < 0.35:
            alias = dict(zip(rng.sample(["A", "B", "C"], 2), rng.sample(NAME_POOL, 2)))
        for i in range(n):
            S = [p for p in PARAMS if rng.random() < 0.6]
            mismatch = bool(rng.random() < 0.2 and S)
            prio = rng.choice([None, None, None, 0.9, 0.5])
            loop = rng.choice([None, None, None, "other"])
            act = rng.choice(["A", "B", "C"]) if rng.random() < 0.5 else "U%d" % i
            if act in alias:
                # legal action type names that merely CONTAIN the words the event names are built from
                act = alias[act]
            aarg = rng.choice([None, None, 1, 2])
            override = rng.choice([None, None, None, None, "base-has-loop", "plain"])
            prelude = rng.choice(sorted(PRELUDES)) if rng.random() < 0.25 else None
            fork = rng.random() < 0.15
            scoped = (not fork) and rng.random() < 0.15
            if fork:
                # the flow forks right after its match: `start A(x=1) or A(x=2)` (one alternative is picked); its own action name
                act, aarg = "F%d" % i, None
            flows.append(dict(i=i, S=S, mismatch=mismatch, prio=prio, loop=loop, act=act, aarg=aarg, override=override, prelude=prelude, fork=fork, scoped=scoped))
            if cont:
                flows[-1]["cont"] = cont
                flows[-1]["D"] = [k for k in MEMBERS if rng.random() < 0.6] if rng.random() < 0.75 else []
    ev = {"type": "Ev", "a": 1, "b": 2, "c": 3}
    cont = next((f["cont"] for f in flows if f.get("cont")), None)
    if cont:
        ev["d"] = CONT_VAL[cont]
    return {"flows": flows, "src": render(flows), "event": ev, "cont": cont}


def key_of(f):
    score = 1.0
    if f.get("D"):
        score *= 0.9 ** (len(MEMBERS) - len(f["D"]))  # the members of the container the pattern does not mention
    if f.get("cont"):
        score *= 0.9 ** (len(PARAMS) + 1 - len(f["S"]) - (1 if f.get("D") else 0))
    else:
        score *= 0.9 ** (len(PARAMS) - len(f["S"]))
    if f["prio"] is not None:
        score *= f["prio"]
    return score


def fits(f, ev):
    for p in f["S"]:
        want = 99 if (f["mismatch"] and p == f["S"][0]) else VAL[p]
        if ev.get(p) != want:
            return False
    return True


def oracle(flows, waiting, ev):
    """per loop -> list of argmax flows among waiting flows fitting ev; None if a float near-tie makes it ambiguous"""
    out = {}
    for loop in sorted({f["loop"] or "" for f in flows}):
        el = [f for f in flows if (f["loop"] or "") == loop and f["i"] in waiting and fits(f, ev)]
        if not el:
            continue
        best = max(key_of(f) for f in el)
        for f in el:
            d = abs(key_of(f) - best)
            if 0 < d < 1e-9:
                return None
        out[loop] = [f for f in el if key_of(f) == best]
    return out


def ident(f):
    return (f["act"], f["aarg"])


def ids_of(f, suffix):
    """the action starts a flow may produce when it proceeds"""
    if f.get("fork"):
        return {(f["act"] + suffix, 1), (f["act"] + suffix, 2)}
    return {(f["act"] + suffix, f["aarg"])}


def cases(tier, seed):
    i = 0
    base = seed * 5_000_011
    # exhaustive specificity vectors for n<=3 (all subsets of params per flow), one loop, distinct actions
    import itertools

    subsets = [[p for p, b in zip(PARAMS, bits) if b] for bits in itertools.product([0, 1], repeat=3)]
    for n in (2, 3):
        for combo in itertools.product(range(len(subsets)), repeat=n):
            if tier == "quick" and n == 3 and (sum(combo) + seed) % 3:
                continue  # every third vector in quick, all in thorough
            i += 1
            yield {"id": i, "fam": "vec", "vec": list(combo), "seed": base + i}
    for k in range(6000 if tier == "quick" else 60000):
        i += 1
        yield {"id": i, "fam": "rand", "seed": base + k}
    for k in range(800 if tier == "quick" else 8000):
        i += 1
        yield {"id": i, "fam": "rand", "seed": base + 9_000_000 + k, "api": True}


def setup_worker():
    from . import v2h

    L = v2h.load()
    if not hasattr(L["sm"], "_resolve_action_conflicts"):
        raise RuntimeError("_resolve_action_conflicts missing")


def execute(g, script):
    """one execution under a decision script; returns (per-event observations, rng log)"""
    from . import v2h

    L = v2h.load()
    L["random"].reset(script=script, default_first=True)
    api = v2h.ApiSession(g["src"]) if g.get("api") else None
    st = api.st if api is not None else v2h.mk(g["src"])
    flows = g["flows"]
    obs = []
    ev1 = g["event"]
    # the second event fits only flows that did not fit the first one
    ev2 = {"type": "Ev", "a": 99, "b": 99, "c": 99}
    # make ev2 fit mismatching flows whose other mentioned params keep the normal value:
    reacted = set()  # flows that went past their match and are still running (their action sits in an or-group)
    for ev in (ev1, ev2):
        waiting = {f["i"] for f in flows if _status(st, f) == "started" and f["i"] not in reacted}
        if ev is ev2:
            # choose per-parameter values so that at least the first still-waiting mismatching flow fits
            cand = [f for f in flows if f["i"] in waiting and f["mismatch"]]
            if not cand:
                break
            ev = {"type": "Ev"}
            f0 = cand[0]
            for p in PARAMS:
                ev[p] = 99 if (p == f0["S"][0]) else VAL[p]
            if g.get("cont"):
                ev["d"] = CONT_VAL[g["cont"]]
        if api is not None:
            out = api.run(dict(ev))
            st = api.st
        else:
            out = v2h.run(st, dict(ev))
        starts = [(e["type"][5:-6], e.get("x")) for e in out if e["type"].startswith("Start") and e["type"].endswith("Action")]
        rec = {"event": ev, "second": ev.get("a") == 99 or ev.get("b") == 99 or ev.get("c") == 99, "waiting_before": sorted(waiting), "starts": starts, "status": {f["i"]: _status(st, f) for f in flows}}
        if any(f.get("scoped") for f in flows):
            # the environment finishes every action that was started: flows that started theirs inside an or-group go on
            after = []
            for e in out:
                if e["type"].startswith("Start") and e["type"].endswith("Action"):
                    fin = {"type": e["type"][5:] + "Finished", "action_uid": e["action_uid"], "is_success": True, "return_value": None}
                    o2 = api.run(fin) if api is not None else v2h.run(st, fin)
                    if api is not None:
                        st = api.st
            # (what a flow does next must not be an action: two co-winners reacting to the same Finished event with different
            #  actions would be a new conflict, rightly resolved against one of them)
            for f in flows:
                lst = st.flow_id_states.get(fname(f["i"]), [])
                if f.get("scoped") and lst and lst[-1].context.get("went_on") == f["i"] + 100:
                    after.append(f["i"])
            rec["after"] = after
            rec["status_after_finish"] = {f["i"]: _status(st, f) for f in flows}
        obs.append(rec)
        reacted |= {f["i"] for f in flows if f.get("scoped") and f["i"] in waiting and fits(f, ev)}
    return obs, list(L["random"].log)


def _status(st, f):
    lst = st.flow_id_states.get(fname(f["i"]), [])
    if not lst:
        return "absent"
    s = lst[-1].status
    return getattr(s, "value", str(s))


def judge(flows, obs):
    problems = []
    winners_seen = []
    for o in obs:
        ev = o["event"]
        waiting = set(o["waiting_before"])
        allowed = oracle(flows, waiting, ev)
        if allowed is None:
            return None, None
        per_loop_seen = {}
        for loop in sorted({f["loop"] or "" for f in flows}):
            lf = [f for f in flows if (f["loop"] or "") == loop and f["i"] in waiting]
            fitting = [f for f in lf if fits(f, ev)]
            suffix = "Y" if loop else "X"
            starts = [s for s in o["starts"] if s[0].endswith(suffix)]
            if not fitting:
                if starts:
                    problems.append("action-started-without-fitting-flow")
                for f in lf:
                    if o["status"][f["i"]] != "started":
                        problems.append("nonfitting-flow-disturbed")
                continue
            distinct = sorted(set(starts), key=repr)
            if len(distinct) != 1:
                problems.append("not-exactly-one-action-per-loop(%d)" % len(distinct))
                continue
            won = distinct[0]
            if starts.count(won) != 1:
                problems.append("winning-action-started-%d-times" % starts.count(won))
            allowed_ids = set().union(*[ids_of(f, suffix) for f in allowed[loop]])
            if won not in allowed_ids:
                problems.append("winner-not-most-specific")
            per_loop_seen[loop] = won
            for f in lf:
                s = o["status"][f["i"]]
                if not fits(f, ev):
                    if s != "started":
                        problems.append("nonfitting-flow-disturbed")
                elif won in ids_of(f, suffix):
                    if f.get("scoped"):
                        # still inside its flow (waiting for the action); once the action has finished it must have gone on
                        if s != "started":
                            problems.append("cowinner-not-proceeding(%s)" % s)
                        elif "after" in o and (o["after"].count(f["i"]) != 1 or o["status_after_finish"][f["i"]] != "started"):
                            problems.append("cowinner-lost-after-the-shared-action-finished(%s)" % o["status_after_finish"][f["i"]])
                    elif s != "finished":
                        problems.append("cowinner-not-proceeding(%s)" % s)
                elif f.get("scoped"):
                    # its action was one alternative of an or-group: losing the conflict fails that alternative only, the flow
                    # lives on waiting for the other one - and must not have started anything
                    if s != "started":
                        problems.append("scoped-loser-not-kept-waiting(%s)" % s)
                else:
                    if s != "stopped":
                        problems.append("loser-not-failed(%s)" % s)
        winners_seen.append(per_loop_seen)
    return problems, winners_seen


def run_case(case):
    from . import v2h

    rng = random.Random(case["seed"])
    if case["fam"] == "vec":
        import itertools

        subsets = [[p for p, b in zip(PARAMS, bits) if b] for bits in itertools.product([0, 1], repeat=3)]
        flows = [dict(i=i, S=subsets[v], mismatch=False, prio=rng.choice([None, None, 0.9]), loop=None, act="U%d" % i, aarg=None) for i, v in enumerate(case["vec"])]
        g = gen_program(rng, flows)
    else:
        g = gen_program(rng)
    if case.get("api"):
        g["api"] = True  # driven through RuntimeV2_x.process_events (outgoing events fed back as input)
    flows = g["flows"]
    base = {"key": g["src"] + ("#api" if case.get("api") else ""), "sample": {"program": g["src"], "event": g["event"], "through_process_events": bool(case.get("api"))}}
    loops = {}
    for f in flows:
        loops.setdefault(f["loop"] or "", []).append(f)
    keys_in = lambda fs: len({key_of(f) for f in fs if not f["mismatch"]})  # noqa: E731
    exact_tie = any(len([f for f in fs if not f["mismatch"] and key_of(f) == max(key_of(x) for x in fs if not x["mismatch"])]) > 1 for fs in loops.values() if any(not f["mismatch"] for f in fs))
    base["nontrivial"] = any(len(fs) >= 3 and (keys_in(fs) >= 2 or exact_tie) for fs in loops.values())
    # stateless DFS over decision scripts
    stack = [[]]
    execs = 0
    problems = []
    first_allowed = oracle(flows, {f["i"] for f in flows}, g["event"])
    if first_allowed is None:
        return dict(base, verdict="inconclusive", reason="expected:float-near-tie", nontrivial=False)
    seen_first = {loop: set() for loop in first_allowed}
    choice_points = 0
    max_tie = 0
    witness_exec = None
    second_events = 0
    try:
        while stack and execs < 400:
            script = stack.pop()
            obs, log = execute(g, script)
            execs += 1
            choice_points = max(choice_points, len(log))
            for n, _ in log:
                max_tie = max(max_tie, n)
            # expand alternatives beyond the prescribed prefix
            for pos in range(len(script), len(log)):
                n, picked = log[pos]
                for alt in range(n):
                    if alt != picked:
                        stack.append([i for _, i in log[:pos]] + [alt])
            second_events += sum(1 for o in obs if o.get("second"))
            pr, seen = judge(flows, obs)
            if pr is None:
                return dict(base, verdict="inconclusive", reason="expected:float-near-tie", nontrivial=False)
            if pr and not problems:
                problems = pr
                witness_exec = {"script": script, "rng_log": log, "observations": obs}
            if seen:
                for loop, won in seen[0].items():
                    seen_first.setdefault(loop, set()).add(won)
    except v2h.LoaderReject as e:
        return dict(base, verdict="inconclusive", reason="loader-reject", detail=str(e)[:300])
    except Exception as e:
        problems.append("exception:%s" % type(e).__name__)
        witness_exec = {"exception": "%s: %s" % (type(e).__name__, str(e)[:300])}
    if not problems and not stack:
        for loop, ws in first_allowed.items():
            suffix = "Y" if loop else "X"
            allowed_ids = set().union(*[ids_of(f, suffix) for f in ws])
            if seen_first.get(loop, set()) != allowed_ids:
                problems.append("tied-winner-never-chosen")
                witness_exec = {"allowed": sorted(map(repr, allowed_ids)), "seen": sorted(map(repr, seen_first.get(loop, set())))}
    obsd = {"executions": execs, "max_choice_points": choice_points, "max_tie_size": max_tie, "loops_two": int(len(loops) > 1), "exact_tie_programs": int(exact_tie), "enumeration_truncated": int(bool(stack)), "second_events_judged": second_events}
    if problems:
        return dict(base, verdict="violated", observed=obsd, problems=sorted(set(p.split("(")[0] for p in problems)), witness=dict(witness_exec or {}, program=g["src"], problems=problems))
    if execs == 0:
        return dict(base, verdict="inconclusive", reason="monitor-not-reached")
    return dict(base, verdict="held", observed=obsd)


def classify(r):
    return "+".join(r.get("problems", ["unknown"]))
