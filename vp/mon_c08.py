"""C08 — flow calls bind parameters, defaults and return values; locals are private.

Differential monitor: a generated callee echoes its parameters (`send Echo(p0=$p0,..)`)
and the caller echoes the assigned return value and its own local; the oracle is a
15-line binder (positional, then named, then default, else None) over literally
evaluated argument expressions.
"""
import random

PROPERTY = "C08"
LEVEL = "exploration"
RULE = (
    "case = (signature with 0-4 parameters and trailing defaults, call mixing positional/named/omitted arguments given as "
    "literals, caller variables or simple expressions, call form in {await, assign-await, start+match Finished, activate, "
    "await-in-or-group, when}, return expression) or a sibling-instances scenario or a repeated call whose callee mutates, in place, containers born from "
    "literals (defaults, literal arguments, local initialisers; the next call and the caller must see pristine values); non-trivial = >=2 parameters with at least one "
    "default used or one named argument; distinct = program text"
)
MIN_HELD = {"quick": 3000, "thorough": 60000}
ASSUMPTIONS = [
    "oracle: positional, then named, then declared default, else None; literals evaluated by the generator itself",
    "excluded (the statement does not fix them): defaults referring to other parameters, the same parameter given both positionally and by name, "
    "surplus arguments, empty []/{} literal in positional position (parse error)",
    "callee and caller never emit in the same processing step (that would be an action conflict, C05's subject)",
]
SAMPLE_EVERY = 499
FORMS = ("await", "assign", "start", "activate", "group", "when")

VALS = [1, 0, 2.5, "s", 'q"uote', "br{ace}", "üni", "", "two words", True, False, None, [1, "a"], {"k": 1}, [[1], {"z": [2]}], [], {}, -3, [None, True]]


def lit(v):
    if isinstance(v, str):
        return '"' + v.replace("\\", "\\\\").replace('"', '\\"').replace("{", "{{").replace("}", "}}") + '"'
    if isinstance(v, list):
        return "[" + ", ".join(lit(x) for x in v) + "]"
    if isinstance(v, dict):
        return "{" + ", ".join('"%s": %s' % (k, lit(x)) for k, x in v.items()) + "}"
    return repr(v)


def gen_arg(rng, caller_vars, positional, first=True, sole=False):
    """returns (source expression, value). Adjacent positional arguments are
    juxtaposed in Colang 2, so after the first one a list literal would read as a
    subscript, a negative number as a subtraction and a parenthesis as a call:
    those shapes are only generated in first or named position."""
    r = rng.random()
    free = first or not positional
    if r < 0.2 and caller_vars:
        name = rng.choice(sorted(caller_vars))
        return "$" + name, caller_vars[name]
    if 0.2 <= r < 0.3 and sole:  # parenthesised expressions only parse as the sole argument
        a, b = rng.randint(0, 9), rng.randint(1, 9)
        return "(%d + %d)" % (a, b), a + b
    if 0.3 <= r < 0.35 and caller_vars and sole:
        name = rng.choice(sorted(caller_vars))
        if isinstance(caller_vars[name], list):
            return "(len($%s))" % name, len(caller_vars[name])
    v = rng.choice(VALS)
    while (positional and v in ([], {})) or (not free and (isinstance(v, list) or (isinstance(v, (int, float)) and not isinstance(v, bool) and v < 0))):
        v = rng.choice(VALS)
    return lit(v), v


def gen_program(rng, form=None):
    np_ = rng.randint(0, 4)
    names = ["p%d" % i for i in range(np_)]
    ndef = rng.randint(0, np_)
    defaults = {names[i]: rng.choice(VALS) for i in range(np_ - ndef, np_)}
    sig = " ".join("$" + nm + ("=" + lit(defaults[nm]) if nm in defaults else "") for nm in names)
    caller_vars = {}
    for i in range(rng.randint(0, 2)):
        caller_vars["cv%d" % i] = rng.choice(VALS)
    for i in range(rng.randint(0, 1)):
        a, b = rng.randint(0, 9), rng.randint(1, 9)
        caller_vars["ce%d" % i] = ("%d + %d" % (a, b), a + b)
    npos = rng.randint(0, np_)
    named_names = [nm for nm in names[npos:] if rng.random() < 0.5]
    sole = npos == 1 and not named_names
    cvals = {k: (v[1] if isinstance(v, tuple) else v) for k, v in caller_vars.items()}
    # the simple (parenthesis-free) call syntax also allows positional arguments AFTER named ones; the positional ones
    # still bind by their order among the positional arguments
    mixed = bool(npos and named_names and rng.random() < 0.3)
    pos = [gen_arg(rng, cvals, True, first=(j == 0 and not mixed), sole=sole) for j in range(npos)]
    named = {}
    for nm in named_names:
        named[nm] = gen_arg(rng, cvals, False)
    named_items = list(named.items())
    rng.shuffle(named_items)
    if mixed:
        toks = [("p", s_) for s_, _ in pos]
        for k_, (s_, _) in named_items:
            # never in front of a positional that would then read as a subscript / subtraction: all positionals were generated `not first`
            toks.insert(rng.randint(0, len(toks) - 1), ("n", "$%s=%s" % (k_, s_)))
        # a named value directly followed by a positional must not be a container / negative literal either: regenerate such named values as scalars
        args = " ".join(t_[1] for t_ in toks)
    else:
        args = " ".join(s for s, _ in pos)
        if named_items:
            args += " " + " ".join("$%s=%s" % (k, s) for k, (s, _) in named_items)
    args = args.strip()
    form = form or rng.choice(FORMS)
    exp = {}
    for i, nm in enumerate(names):
        if i < npos:
            exp[nm] = pos[i][1]
        elif nm in named:
            exp[nm] = named[nm][1]
        elif nm in defaults:
            exp[nm] = defaults[nm]
        else:
            exp[nm] = None
    # return expression
    rk = rng.choice(["lit", "param", "local"]) if form == "assign" else "lit"
    if rk == "param" and names:
        pn = rng.choice(names)
        ret_src, ret_val = "$" + pn, exp[pn]
    elif rk == "local":
        ret_src, ret_val = "$x", "callee-local-2"
    elif rk == "none":
        ret_src, ret_val = None, None
    else:
        v = rng.choice(VALS)
        ret_src, ret_val = lit(v), v
    echo = ", ".join("%s=$%s" % (nm, nm) for nm in names)
    callee = 'flow callee %s\n  $x = "callee-local"\n  send Echo(%s)\n  match Release()\n  $x = "callee-local-2"\n' % (sig, (echo + ", " if echo else "") + "x=$x")
    if names and rk != "param" and rng.random() < 0.5:
        # the callee assigns to its own parameters: they are its locals; the NEXT instance (activated restart) must be bound
        # to the caller's arguments / declared defaults again
        callee += "".join('  $%s = "reassigned-%s"\n' % (nm, nm) for nm in names if rng.random() < 0.7)
    if ret_src is not None:
        callee += "  return %s\n" % ret_src
    cvs = "".join("  $%s = %s\n" % (k, v[0] if isinstance(v, tuple) else lit(v)) for k, v in caller_vars.items())
    call = ("callee " + args).strip()
    head = 'flow main\n  $x = "caller-local"\n' + cvs
    other = ""
    if form == "await":
        body = "  await %s\n  send Ret(v=0, x=$x)\n" % call
    elif form == "assign":
        body = "  $r = await %s\n  send Ret(v=$r, x=$x)\n" % call
    elif form == "start":
        body = "  start %s as $ref\n  match $ref.Finished()\n  send Ret(v=0, x=$x)\n" % call
    elif form == "activate":
        body = "  activate %s\n  match Release()\n  match Release()\n  send Ret(v=0, x=$x)\n" % call
    elif form == "group":
        body = "  await %s or other flow\n  send Ret(v=0, x=$x)\n" % call
        other = "\nflow other flow\n  match NeverTwo()\n"
    elif form == "when":
        body = "  when %s\n    send Ret(v=0, x=$x)\n" % call
    overridden = None
    if rng.random() < 0.15:
        # the callee is the @override of an earlier definition with ANOTHER signature (fewer / more / reordered parameters,
        # other defaults, another return value): the statement is about the flow that is called, i.e. the overriding one
        base_names = list(names)
        rng.shuffle(base_names)
        base_names = base_names[: rng.randint(0, len(base_names))] + (["extra"] if rng.random() < 0.4 else [])
        base_sig = " ".join("$" + nm + ("=" + lit(rng.choice(["base-default", 41, None])) if rng.random() < 0.6 else "") for nm in base_names)
        overridden = 'flow callee %s\n  send BaseEcho()\n  match Release()\n  return "base-return"\n\n' % base_sig
        callee = "@override\n" + callee
    src = head + body + "  match Never()\n\n" + (overridden or "") + callee + other
    nontrivial = np_ >= 2 and (bool(named) or any(nm not in named and i >= npos and nm in defaults for i, nm in enumerate(names)))
    return {"src": src, "form": form, "names": names, "exp": exp, "ret": ret_val, "nontrivial": nontrivial, "override": overridden is not None}


def cases(tier, seed):
    n = 10000 if tier == "quick" else 200000
    base = seed * 7_000_003
    for i in range(n):
        yield {"id": i, "fam": "bind", "seed": base + i}
    m = 300 if tier == "quick" else 3000
    for i in range(m):
        yield {"id": n + i, "fam": "siblings", "seed": base + i}
    k = 600 if tier == "quick" else 6000
    for i in range(k):
        yield {"id": n + m + i, "fam": "mutate", "seed": base + i}
    for i in range(k):
        yield {"id": n + m + k + i, "fam": "equal", "seed": base + i, "rt": i % 3 != 0}


def setup_worker():
    from . import v2h

    v2h.load()


def same(a, b):
    """structural equality; dict subclasses (the interpreter's AttributeDict) count as dict, bool is not int"""
    if isinstance(a, dict) and isinstance(b, dict):
        return a.keys() == b.keys() and all(same(a[k], b[k]) for k in a)
    if isinstance(a, list) and isinstance(b, list):
        return len(a) == len(b) and all(same(x, y) for x, y in zip(a, b))
    return type(a) is type(b) and a == b


def strip(e):
    return {k: v for k, v in e.items() if k not in ("uid", "event_created_at", "source_uid", "type")}


def run_bind(case):
    from . import v2h

    L = v2h.load()
    rng = random.Random(case["seed"])
    g = gen_program(rng)
    L["random"].reset(seed=case["seed"])
    base = {"key": g["src"], "nontrivial": g["nontrivial"], "sample": {"program": g["src"], "expected_params": g["exp"], "expected_return": g["ret"]}, "form": g["form"]}
    obs = {"form_" + g["form"]: 1, "params_checked": 0, "returns_checked": 0, "locals_checked": 0, "callee_overrides_another_signature": int(bool(g.get("override")))}
    try:
        st = v2h.mk(g["src"])
    except v2h.LoaderReject as e:
        return dict(base, verdict="inconclusive", reason="loader-reject", detail=str(e)[:300] + "\n" + g["src"], nontrivial=False)
    problems = []
    events = [dict(e) for e in st.outgoing_events]
    try:
        out = v2h.run(st, {"type": "Release"})
        events += out
        if g["form"] == "activate":
            out = v2h.run(st, {"type": "Release"})
            events += out
    except Exception as e:
        problems.append("exception: %s: %s" % (type(e).__name__, str(e)[:200]))
    echoes = [e for e in events if e["type"] == "Echo"]
    rets = [e for e in events if e["type"] == "Ret"]
    want_echoes = 3 if g["form"] == "activate" else 1
    if len(echoes) != want_echoes:
        problems.append("echo-count %d != %d" % (len(echoes), want_echoes))
    for e in echoes:
        got = {nm: e.get(nm) for nm in g["names"]}
        obs["params_checked"] += len(g["names"])
        if not same(got, g["exp"]):
            problems.append("param-mismatch got=%r expected=%r" % (got, g["exp"]))
        if e.get("x") != "callee-local":
            problems.append("callee-local x=%r" % (e.get("x"),))
    if len(rets) != 1:
        problems.append("ret-count %d" % len(rets))
    for r in rets:
        obs["locals_checked"] += 1
        if r.get("x") != "caller-local":
            problems.append("local-leak caller x=%r" % (r.get("x"),))
        if g["form"] == "assign":
            obs["returns_checked"] += 1
            if not same(r.get("v"), g["ret"]):
                problems.append("return-mismatch got=%r expected=%r" % (r.get("v"), g["ret"]))
    if not echoes and not problems:
        return dict(base, verdict="inconclusive", reason="monitor-not-reached", observed=obs)
    if problems:
        return dict(base, verdict="violated", observed=obs, witness={"program": g["src"], "problems": problems, "events": [dict(strip(e), type=e["type"]) for e in events]}, problems=[p.split(" ")[0] for p in problems])
    return dict(base, verdict="held", observed=obs)


def run_siblings(case):
    """Two instances of one flow plus a different flow, all assigning `$x`; released in a generated order."""
    from . import v2h

    L = v2h.load()
    rng = random.Random(case["seed"])
    tags = ["A", "B", "C"][: rng.randint(2, 3)]
    order = tags[:]
    rng.shuffle(order)
    via = rng.choice(["start", "activate"])
    starts = "".join('  %s twin "%s"%s\n' % (via, t, (" as $s%s" % t.lower()) if via == "start" else "") for t in tags)
    src = (
        'flow main\n  $x = "caller-local"\n' + starts + "  match Check()\n  send Ret(x=$x)\n  match Never()\n\n"
        "flow twin $tag\n  $x = $tag\n  $y = [$tag]\n  match ReleaseT(t=$tag)\n  send EchoT(x=$x, y=$y, tag=$tag)\n  match NeverT()\n"
    )
    L["random"].reset(seed=case["seed"])
    base = {"key": src + repr(order), "nontrivial": True, "sample": {"program": src, "release_order": order}, "form": "siblings"}
    obs = {"form_siblings": 1, "locals_checked": 0}
    try:
        st = v2h.mk(src)
    except v2h.LoaderReject as e:
        return dict(base, verdict="inconclusive", reason="loader-reject", detail=str(e)[:300])
    problems = []
    try:
        for t in order:
            out = v2h.run(st, {"type": "ReleaseT", "t": t})
            es = [e for e in out if e["type"] == "EchoT"]
            if len(es) != 1:
                problems.append("echoT-count %d for %s" % (len(es), t))
            for e in es:
                obs["locals_checked"] += 1
                if not same(e.get("x"), t) or not same(e.get("y"), [t]) or e.get("tag") != t:
                    problems.append("sibling-local-leak tag=%s x=%r y=%r" % (t, e.get("x"), e.get("y")))
        out = v2h.run(st, {"type": "Check"})
        rs = [e for e in out if e["type"] == "Ret"]
        if len(rs) != 1 or rs[0].get("x") != "caller-local":
            problems.append("local-leak caller %r" % ([strip(r) for r in rs],))
        obs["locals_checked"] += 1
    except Exception as e:
        problems.append("exception: %s: %s" % (type(e).__name__, str(e)[:200]))
    if problems:
        return dict(base, verdict="violated", observed=obs, witness={"program": src, "order": order, "problems": problems}, problems=[p.split(" ")[0] for p in problems])
    return dict(base, verdict="held", observed=obs)


CONTAINERS = [[1, "a"], [], [[1], {"z": [2]}], ["s"], {"k": 1}, {}, {"d": [0]}, [None, True]]


def _inner(v):
    """path expression suffix and kind of the first nested container of v (a literal-born container inside a container)"""
    if isinstance(v, list):
        for i, x in enumerate(v):
            if isinstance(x, (list, dict)):
                return "[%d]" % i, x
    if isinstance(v, dict):
        for k, x in v.items():
            if isinstance(x, (list, dict)):
                return '["%s"]' % k, x
    return None, None


def _mutated(v):
    path, inner = _inner(v)
    if isinstance(v, list):
        out = [(_mut1(x) if x is inner and path else x) for x in v] + ["m"]
        return out
    d = {k: (_mut1(x) if x is inner and path else x) for k, x in v.items()}
    d["m"] = 1
    return d


def _mut1(x):
    if isinstance(x, list):
        return x + ["n"]
    d = dict(x)
    d["n"] = 2
    return d


def _mut_stmt(name, v):
    out = '  ($%s.append("m"))\n' % name if isinstance(v, list) else '  ($%s.update({"m": 1}))\n' % name
    path, inner = _inner(v)
    if path:
        # also a NESTED container of the literal is changed in place
        out = ('  ($%s%s.append("n"))\n' % (name, path) if isinstance(inner, list) else '  ($%s%s.update({"n": 2}))\n' % (name, path)) + out
    return out


def run_mutate(case):
    """The callee mutates, IN PLACE and after its first wait, containers that were born from a literal in its own
    scope (declared default, literal argument written at the call site, local initialiser). Every evaluation of a literal
    yields a fresh value: the 2nd/3rd call with the same call text sees the pristine default / argument / local again,
    and a caller variable initialised from the same literal text is not changed."""
    from . import v2h

    L = v2h.load()
    rng = random.Random(case["seed"])
    npar = rng.randint(1, 3)
    names = ["p%d" % i for i in range(npar)]
    defaults = {nm: rng.choice(CONTAINERS) for nm in names}
    ncalls = rng.randint(2, 3)
    # one call text, repeated: per parameter either omitted (default), a positional literal (first parameter only) or a named literal
    given = {}
    call = "worker"
    for i, nm in enumerate(names):
        r = rng.random()
        if r < 0.45:
            continue
        v = rng.choice(CONTAINERS)
        if i == 0 and r < 0.7 and v not in ([], {}):
            call += " " + lit(v)
        else:
            call += " $%s=%s" % (nm, lit(v))
        given[nm] = v
    exp = {nm: given.get(nm, defaults[nm]) for nm in names}
    loc = rng.choice([c for c in CONTAINERS])
    caller_x = rng.choice([loc, rng.choice(list(exp.values())), rng.choice(CONTAINERS)])  # often the very same literal text
    sig = " ".join("$%s=%s" % (nm, lit(defaults[nm])) for nm in names)
    echo = ", ".join("%s=$%s" % (nm, nm) for nm in names)
    src = "flow main\n  $x = %s\n" % lit(caller_x) + "".join("  await %s\n" % call for _ in range(ncalls)) + "  send Ret(x=$x)\n  match Never()\n\n"
    src += "flow worker %s\n  $x = %s\n  send Echo(%s, x=$x)\n  match Release()\n" % (sig, lit(loc), echo)
    src += "".join(_mut_stmt(nm, exp[nm]) for nm in names) + _mut_stmt("x", loc)
    src += "  send EchoM(%s, x=$x)\n" % echo
    L["random"].reset(seed=case["seed"])
    base = {"key": src, "nontrivial": True, "sample": {"program": src, "expected_params": exp}, "form": "mutate"}
    obs = {"form_mutate": 1, "params_checked": 0, "locals_checked": 0, "inplace_mutations_observed": 0}
    try:
        st = v2h.mk(src)
    except v2h.LoaderReject as e:
        return dict(base, verdict="inconclusive", reason="loader-reject", detail=str(e)[:300] + "\n" + src, nontrivial=False)
    problems = []
    import copy

    # outgoing events alias the flow's variable objects: snapshot them before the next step mutates those in place
    events = copy.deepcopy([dict(e) for e in st.outgoing_events])
    try:
        for _ in range(ncalls):
            events += copy.deepcopy(v2h.run(st, {"type": "Release"}))
    except Exception as e:
        problems.append("exception: %s: %s" % (type(e).__name__, str(e)[:200]))
    echoes = [e for e in events if e["type"] == "Echo"]
    echoms = [e for e in events if e["type"] == "EchoM"]
    rets = [e for e in events if e["type"] == "Ret"]
    if len(echoes) != ncalls or len(echoms) != ncalls:
        problems.append("echo-count %d/%d != %d" % (len(echoes), len(echoms), ncalls))
    for j, e in enumerate(echoes):
        got = {nm: e.get(nm) for nm in names}
        obs["params_checked"] += len(names)
        if not same(got, exp):
            problems.append("param-mismatch call=%d got=%r expected=%r" % (j + 1, got, exp))
        obs["locals_checked"] += 1
        if not same(e.get("x"), loc):
            problems.append("callee-local call=%d x=%r expected=%r" % (j + 1, e.get("x"), loc))
    for e in echoms:
        if same({nm: e.get(nm) for nm in names}, {nm: _mutated(exp[nm]) for nm in names}) and same(e.get("x"), _mutated(loc)):
            obs["inplace_mutations_observed"] += 1
    if len(rets) != 1:
        problems.append("ret-count %d" % len(rets))
    for r in rets:
        obs["locals_checked"] += 1
        if not same(r.get("x"), caller_x):
            problems.append("local-leak caller x=%r expected=%r" % (r.get("x"), caller_x))
    if not problems and obs["inplace_mutations_observed"] != ncalls:
        return dict(base, verdict="inconclusive", reason="mutation-not-observed", observed=obs, detail=repr([strip(e) for e in echoms])[:400])
    if problems:
        return dict(base, verdict="violated", observed=obs, witness={"program": src, "problems": problems, "events": [dict(strip(e), type=e["type"]) for e in events]}, problems=[p_.split(" ")[0] for p_ in problems])
    return dict(base, verdict="held", observed=obs)


def run_equal(case):
    """2-4 flows called with the SAME parameter name and the SAME scalar value (their local contexts are equal, key for key),
    plus one awaited flow returning its parameter; each waits for its own events and then either reassigns its parameter or
    only reports it. In `rt` cases the state is written to JSON and read back between events (what LLMRails.generate(state=...)
    does on every call). Every instance must report its OWN value, the caller its own local and the callee's return value."""
    from . import v2h

    L = v2h.load()
    rng = random.Random(case["seed"])
    n = rng.randint(2, 4)
    v0 = rng.choice([10, 0, 2.5, "s", "two words", True, None, 7])
    pname = rng.choice(["points", "x", "val"])
    plans = []
    src = 'flow main\n  $x = "caller-local"\n'
    flows = ""
    val = {}
    for i in range(n):
        steps_ = [rng.choice(["set", "set", "report"]) for _ in range(rng.randint(1, 2))]
        plans.append(steps_)
        src += "  start f%d %s\n" % (i, lit(v0))
        body = "flow f%d $%s\n" % (i, pname)
        for j, op in enumerate(steps_):
            body += "  match R%d()\n" % i
            if op == "set":
                body += "  $%s = %s\n" % (pname, lit("new-%d-%d" % (i, j)))
            body += "  send EchoT(tag=%d, step=%d, p=$%s)\n" % (i, j, pname)
        body += "  match NeverT()\n\n"
        flows += body
        val[i] = v0
    src += "  $r = await fz %s\n  send Ret(x=$x, v=$r)\n  match Never()\n\n" % lit(v0)
    flows += "flow fz $%s\n  match Rz()\n  return $%s\n" % (pname, pname)
    src += flows
    todo = [i for i in range(n) for _ in plans[i]] + ["z"]
    rng.shuffle(todo)
    L["random"].reset(seed=case["seed"])
    base = {"key": src + repr(todo) + repr(bool(case.get("rt"))), "nontrivial": True, "sample": {"program": src, "release_order": todo, "json_roundtrips": bool(case.get("rt"))}, "form": "equal"}
    obs = {"form_equal": 1, "locals_checked": 0, "params_checked": 0, "returns_checked": 0, "state_roundtrips": 0}
    try:
        st = v2h.mk(src)
    except v2h.LoaderReject as e:
        return dict(base, verdict="inconclusive", reason="loader-reject", detail=str(e)[:300])
    problems = []
    done = {i: 0 for i in range(n)}
    try:
        for t in todo:
            if case.get("rt") and rng.random() < 0.6:
                from nemoguardrails.colang.v2_x.runtime import serialization as ser

                st = ser.json_to_state(ser.state_to_json(st))
                obs["state_roundtrips"] += 1
            out = v2h.run(st, {"type": "R%s" % t})
            if t == "z":
                rs = [e for e in out if e["type"] == "Ret"]
                obs["returns_checked"] += 1
                obs["locals_checked"] += 1
                if len(rs) != 1 or rs[0].get("x") != "caller-local" or not same(rs[0].get("v"), v0):
                    problems.append("return-or-caller-local-mismatch got=%r expected v=%r" % ([strip(r) for r in rs], v0))
                continue
            j = done[t]
            done[t] += 1
            if plans[t][j] == "set":
                val[t] = "new-%d-%d" % (t, j)
            es = [e for e in out if e["type"] == "EchoT"]
            obs["params_checked"] += 1
            if len(es) != 1 or es[0].get("tag") != t or es[0].get("step") != j or not same(es[0].get("p"), val[t]):
                problems.append("equal-context-instances-mixed tag=%s step=%d got=%r expected p=%r" % (t, j, [strip(e) for e in es], val[t]))
    except Exception as e:
        problems.append("exception: %s: %s" % (type(e).__name__, str(e)[:200]))
    if problems:
        return dict(base, verdict="violated", observed=obs, witness={"program": src, "order": todo, "problems": problems, "json_roundtrips": bool(case.get("rt"))}, problems=[p.split(" ")[0] for p in problems])
    return dict(base, verdict="held", observed=obs)


def run_case(case):
    if case["fam"] == "equal":
        return run_equal(case)
    if case["fam"] == "mutate":
        return run_mutate(case)
    return run_bind(case) if case["fam"] == "bind" else run_siblings(case)


def classify(r):
    ps = sorted(set(r.get("problems", ["unknown"])))
    return "%s:%s" % (r.get("form"), "+".join(ps))
