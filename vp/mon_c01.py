"""C01 — input rails gate every user message before anything else sees it.

History + reference model: rail-action wrappers, a recording LLM and the value
returned by `generate` share one logical clock; a 20-line sequential model says
which rails must have been called, with which text, in which order, whether any
LLM call is allowed, what the reply must be, and (v1) that no prompt of the turn
contains the original text once a rail rewrote it.
"""
import itertools
import random

from . import railsconv as rc
from .railsmon import run_case_for, setup_worker  # noqa: F401

PROPERTY = "C01"
LEVEL = "exploration"
RULE = (
    "case = (generated configuration: k<=4 input rails of three flow shapes, m<=2 output rails, pipeline in {v1 dialog, v1 single-call, v1 general, "
    "v1 passthrough, v2 guardrails library}, rail exceptions on/off; verdict matrix per (turn, rail) in {accept, reject, rewrite}; 1-4 turns). quick: ALL "
    "verdict matrices for k<=2, turns<=2 on the four v1 pipelines and all accept/reject matrices on v2, plus sampled larger ones. non-trivial = >=2 input "
    "rails and (a reject not at the first rail, or a rewrite), or >=2 turns; distinct = (configuration, matrix)"
)
MIN_HELD = {"quick": 300, "thorough": 3000}
ASSUMPTIONS = [
    "rail verdicts are scripted in harness-registered actions (the extension point users have); LLM-driven library rails are not exercised here",
    "oracle: sequential model `for rail in order: call(rail, text); reject -> refusal, stop; rewrite -> text = new`",
    "presence of the current text in a prompt is only a non-vacuity condition (the 3-step pipeline's next-step prompt carries intents only)",
]
SAMPLE_EVERY = 53
CASE_WALL_S = 150
TAG = "C01"


def _mk(ver, mode, k, m, turns, verdicts_in, exc=False, shapes=None, cid="cx", kinds=None):
    spec = {"ver": ver, "k": k, "m": m, "mode": mode if ver == "v1" else "v2", "exc": exc}
    if ver == "v1":
        spec["in_shapes"] = shapes or ["v"] * k
        spec["out_shapes"] = ["v"] * m
        spec["dialog_action"] = False
    V = []
    it = iter(verdicts_in)
    for t in range(turns):
        for i in range(k):
            V.append(["in", t, i, next(it)])
        for i in range(m):
            V.append(["out", t, i, "ok"])
    return {"spec": spec, "turns": turns, "kinds": kinds or ["llm"] * turns, "V": V, "cid": cid, "fault": None}


def cases(tier, seed):
    i = 0
    # exhaustive verdict matrices (v1)
    for mode in ("dialog", "single_call", "general", "passthrough", "multi_step"):
        for k in (1, 2):
            for turns in (1, 2):
                for vs in itertools.product(["ok", "block", "rewrite"], repeat=k * turns):
                    i += 1
                    yield dict(_mk("v1", mode, k, 1, turns, vs, cid="e%d" % i), id=i)
    # the same matrices with rail exceptions instead of refusals (k=2, 2 turns): an `exception` reply is not part of the
    # message list the caller resends, so the turn after a rejected (possibly rewritten-then-rejected) turn exercises the
    # history cache in a different way
    for mode in ("dialog", "single_call", "general", "passthrough"):
        for vs in itertools.product(["ok", "block", "rewrite"], repeat=4):
            i += 1
            yield dict(_mk("v1", mode, 2, 1, 2, vs, exc=True, cid="x%d" % i), id=i)
    # a rail listed twice (check, rewrite, check again): [a, b, a]
    for mode in ("dialog", "single_call", "general", "passthrough", "multi_step"):
        for vs in itertools.product(["ok", "block", "rewrite"], repeat=2):
            i += 1
            c = _mk("v1", mode, 2, 1, 1, vs, cid="r%d" % i)
            c["spec"]["dup_in"] = [0]
            yield dict(c, id=i)
    for k in (1, 2):
        for turns in (1, 2):
            for vs in itertools.product(["ok", "block"], repeat=k * turns):
                i += 1
                yield dict(_mk("v2", "v2", k, 1, turns, vs, cid="e%d" % i), id=i)
    # the user repeats the very same text in every turn while the rails' verdicts differ per turn (all accept/reject matrices;
    # resent message list, and for v1 also a fresh instance per turn is implied by the replays of C16)
    for ver, modes in (("v1", ("dialog", "general", "passthrough", "single_call")), ("v2", ("v2",))):
        for mode in modes:
            for k in (1, 2):
                for vs in itertools.product(["ok", "block"], repeat=k * 3):
                    i += 1
                    c = _mk(ver, mode, k, 1, 3, vs, cid="u%d" % i)
                    c["same_user"] = True
                    yield dict(c, id=i)
    # directed: conversation carried through the state object for >=3 turns, with and without rail exceptions,
    # earlier turns rejected at every rail position (found by the thorough tier: v1-state-api-history-truncated)
    for mode in ("passthrough", "general", "dialog"):
        for exc in (True, False):
            for k in (2, 3):
                for b0 in range(k):
                    for b1 in range(k):
                        vs = []
                        for t, b in ((0, b0), (1, b1)):
                            vs += ["ok"] * b + ["block"] + ["ok"] * (k - b - 1)
                        vs += ["ok"] * k + ["ok"] * k
                        i += 1
                        c = _mk("v1", mode, k, 1, 4, vs, exc=exc, cid="s%d" % i)
                        c["api"] = "state"
                        yield dict(c, id=i)
    rng = random.Random(77 + seed)
    n1, n2 = (500, 60) if tier == "quick" else (6000, 600)
    for _ in range(n1):
        i += 1
        c = rc.gen_case(rng, "v1", tier, force={"evt": True, "note": True})  # incl. rail actions that return a value AND an event of their own
        yield dict(c, id=i)
    for _ in range(n2):
        i += 1
        c = rc.gen_case(rng, "v2", tier)
        yield dict(c, id=i)
    yield from param_cases(tier, seed, i)


def param_cases(tier, seed, i0):
    """The library's parameterised rail (`content safety check input $model=<name>`, Colang 1.0) configured 2-3 times with
    different parameter values: ALL accept/reject matrices over 2 turns (k=2) resp. a seeded sample (k=3)."""
    i = i0
    rng = random.Random(99 + seed)
    for mode in ("general", "passthrough"):
        for vs in itertools.product(["ok", "block"], repeat=4):
            i += 1
            yield {"id": i, "fam": "param", "mode": mode, "k": 2, "turns": 2, "vs": list(vs), "same": False, "cid": "p%d" % i}
        for _ in range(8 if tier == "quick" else 64):
            i += 1
            yield {"id": i, "fam": "param", "mode": mode, "k": 3, "turns": 3, "vs": [rng.choice(["ok", "ok", "block"]) for _x in range(9)], "same": rng.random() < 0.3, "cid": "p%d" % i}


def run_param(case):
    from .railsconv import rails

    L = rails.load()
    log = rails.Log()
    k, turns, vs, cid = case["k"], case["turns"], case["vs"], case["cid"]
    names = ["m%d" % j for j in range(k)] if not case.get("same") else ["m0"] * k  # `same`: one parameter value listed k times
    y = rails.MAIN_MODELS + ("passthrough: True\n" if case["mode"] == "passthrough" else "") + "rails:\n  input:\n    flows:\n" + "".join("      - content safety check input $model=%s\n" % n for n in names)
    base = {"key": repr((case["mode"], k, turns, vs, case.get("same"))), "nontrivial": "block" in vs, "ver": "v1", "fam": "param",
            "sample": {"family": "library rail configured several times with different parameters", "config": y, "verdicts": vs}}
    obs = {"param_turns": 0, "param_rail_calls": 0, "param_rejections": 0}
    state = {"t": 0, "calls": []}

    async def content_safety_check_input(context=None):
        ctx = context or {}
        state["calls"].append((ctx.get("model"), ctx.get("user_message")))
        idx = len(state["calls"]) - 1
        v = vs[state["t"] * k + idx] if idx < k else "ok"
        return {"allowed": v != "block", "policy_violations": []}

    try:
        cfg = L["RailsConfig"].from_content("", y)
        llm = L["RecLLM"](script=lambda prompt: "BOT-%s-%d answer" % (cid, state["t"]), log=log)
        app = L["LLMRails"](cfg, llm=llm)
        app.register_action(content_safety_check_input, "content_safety_check_input")
    except Exception as e:
        return dict(base, verdict="inconclusive", reason="app-build-failed:%s" % type(e).__name__, detail=str(e)[:300], nontrivial=False)
    msgs = []
    for t in range(turns):
        state["t"], state["calls"] = t, []
        log.items[:] = []
        text = "USER-%s-%d question" % (cid, t)
        msgs.append({"role": "user", "content": text})
        try:
            reply = app.generate(messages=list(msgs))
        except Exception as e:
            return dict(base, verdict="violated", what="generate-raised-without-fault", observed=obs, witness={"turn": t, "exception": "%s: %s" % (type(e).__name__, str(e)[:300])})
        tv = vs[t * k:(t + 1) * k]
        nb = tv.index("block") if "block" in tv else None
        want_calls = [(names[j], text) for j in range(k if nb is None else nb + 1)]
        llm_calls = [e for e in log.items if e["kind"] == "llm"]
        content = reply.get("content") if isinstance(reply, dict) else None
        obs["param_turns"] += 1
        obs["param_rail_calls"] += len(state["calls"])
        obs["param_rejections"] += int(nb is not None)
        w = {"turn": t, "config": y, "verdicts_of_the_turn": tv, "rails_ran_with": state["calls"], "expected": want_calls, "reply": str(content)[:200], "llm_calls": len(llm_calls)}
        if state["calls"] != want_calls:
            return dict(base, verdict="violated", what="input-rail-calls-differ", observed=obs, witness=w)
        if nb is not None and llm_calls:
            return dict(base, verdict="violated", what="llm-called-after-input-rejection", observed=obs, witness=w)
        if nb is not None and content != "I'm sorry, I can't respond to that.":
            return dict(base, verdict="violated", what="reply-is-not-the-rejecting-rails-refusal", observed=obs, witness=w)
        if nb is None and content != "BOT-%s-%d answer" % (cid, t):
            return dict(base, verdict="violated", what="no-generation-for-accepted-message", observed=obs, witness=w)
        msgs.append({"role": "assistant", "content": content})
    return dict(base, verdict="held", observed=obs)


def run_case(case):
    if case.get("fam") == "param":
        return run_param(case)
    r = run_case_for(TAG, case)
    spec = case["spec"]
    if r.get("verdict") == "violated" and spec.get("ver") == "v1":
        t_fail = (r.get("witness") or {}).get("turn")
        r["note_in_earlier_turn"] = any(s_ == "in" and v_ == "note" and t_ < (t_fail or 0) for s_, t_, idx, v_ in case["V"])
        shapes = spec.get("in_shapes") or []
        turns_ = range(0, (t_fail or 0) + 1) if r.get("what") == "earlier-masked-original-text-in-later-prompt" else [t_fail]
        r["evt_rewrite_in_failing_turn"] = any(s_ == "in" and t_ in turns_ and v_ == "rewrite" and idx < len(shapes) and shapes[idx] == "evt" for s_, t_, idx, v_ in case["V"])
    vin = [v for s, t, idx, v in case["V"] if s == "in"]
    late_reject = any(v == "block" and idx > 0 for s, t, idx, v in case["V"] if s == "in")
    r["nontrivial"] = (spec["k"] >= 2 and (late_reject or "rewrite" in vin)) or case["turns"] >= 2
    return r


def classify(r):
    if r.get("ver") == "v1" and r.get("note_in_earlier_turn") and r.get("what") in ("input-rail-calls-differ", "llm-call-before-last-input-rail", "no-generation-for-accepted-message", "reply-is-not-the-rejecting-rails-refusal", "llm-called-after-input-rejection"):
        # structural: in an EARLIER turn of the conversation an input rail said something without `stop`
        return "leftover-input-rails-instance-after-rail-message-without-stop"
    if r.get("ver") == "v1" and r.get("evt_rewrite_in_failing_turn") and r.get("what") in ("original-text-in-prompt-after-rewrite", "input-rail-calls-differ", "earlier-masked-original-text-in-later-prompt"):
        # structural: in the failing turn a rail of the `evt` shape (its action returns the rewritten text as return value
        # together with an event of its own) rewrote the message
        return "rewrite-lost-when-rail-action-returns-events"
    return "%s:%s" % (r.get("ver"), r.get("what"))
