"""C19 — embeddings under caching and batching: every request gets the vector of
its OWN text, list results keep the input order, every request completes.

Controlled-interleaving explorer.  The real `BasicEmbeddingsIndex` (real
`cache_embeddings`, real key generators / stores, real Annoy index) runs on a
*virtual-time* event loop that never blocks and whose clock only moves when the
schedule driver says so.  The embedding model is a gated fake: `encode_async`
parks on a future.  At every idle point of the loop (no ready handle, no due
timer) the driver picks ONE of the enabled logical events

    A<i>      request i arrives                     (a task is created)
    B<i>-<j>  requests i..j arrive in the same loop iteration (burst)
    T         the earliest pending timer fires      (= the batch hold ends)
    R<k>      model call k returns                  (its gate is released)
    x&y&z     several of the above land in the same loop iteration

until none is enabled.  Then the loop is quiescent (all gates released, no
timer, no ready handle) and every request must be done.  Verdicts are decided
on these logical events only; wall clock is the worker's SIGALRM watchdog
(inconclusive) and a logical step budget catches a non-yielding spin.
"""
import hashlib
import itertools
import random

PROPERTY = "C19"
LEVEL = "exploration"
RULE = (
    "case = (index config: max_batch_size 1..5 x hold {0,>0} x cache {off, in_memory x md5/hash, filesystem x md5/hash} "
    "x use_batching, request list of <=12 requests of kind batch/search/list with unique or duplicate/empty texts, "
    "schedule = sequence of logical events arrive/burst/timer/release (optionally several in one loop iteration) chosen at loop "
    "idle points); quick enumerates all base-3 decision scripts of length 5 (thorough: 6) for 3-4 batch requests x bs 1..3 x 5 caches x 2 text modes and adds seeded random "
    "schedules; non-trivial = >=2 requests overlapped (a model call with >=2 texts, >=2 model calls in flight, or an arrival "
    "while a batch was held or a model call was in flight); distinct = (config, requests, executed event trace)"
)
MIN_HELD = {"quick": 6000, "thorough": 60000}
MAX_INCONCLUSIVE = 0.02
EXHAUSTIVE = {"quick": False, "thorough": False}
ASSUMPTIONS = [
    "oracle: f(text) = 8 floats from sha256(text); a batch/search request must see f(own text), a list request [f(t) for t in texts] in order",
    "the embedding model is a fake whose encode_async returns [f(d) for d in docs] after its gate is released (or at once: 'instant' calls)",
    "virtual-time SelectorEventLoop (CPython 3.12 private fields _ready/_scheduled read to detect idleness); timers fire in time order",
    "redis store not explored (no redis module / server offline); key generator 'hash' is Python hash() (PYTHONHASHSEED=0), there is no sha256 generator",
    "the in_memory store is re-created on every _get_embeddings call by the code under test, so it can only hit within one call (observed, not judged)",
    "search: the vector handed to the Annoy index is recorded by a delegating proxy and compared to f(query); when the query equals an indexed text the first hit must be that text (max_results = all items, exact for these sizes)",
    "the code under test and the fake model use only loop-native waiting (futures, events, timers); a thread/executor hand-off would not be seen by the idle detector",
    "a request that spins without yielding (logical step budget) or a loop that does not become idle within 3000 iterations without any external event counts as 'does not complete'",
]
SAMPLE_EVERY = 1201
CASE_WALL_S = 60
STEP_BUDGET = 60000
MAX_SETTLE_ITERS = 3000

CACHES = ("off", "mem-md5", "mem-hash", "fs-md5", "fs-hash")
POOL = ["a", "b", "", "a b", "A", " "]


# ----------------------------------------------------------------------------- oracle
def fm(model, text):
    """a second, model-dependent oracle for the two-index family: the vector of `text` under embedding model `model`"""
    return f("%s|%s" % (model, text)) if model != "m" else f(text)


def f(text):
    h = hashlib.sha256(text.encode("utf-8")).digest()
    return [(b - 128) / 128.0 for b in h[:8]]


def _as_lists(r):
    try:
        return [[float(v) for v in x] for x in r]
    except Exception:
        return repr(r)[:200]


def judge(kind, text, result, search_vec, item_texts):
    """-> None if right, else (what, observed, expected)."""
    if kind == "batch":
        got = _as_lists([result])
        got = got[0] if isinstance(got, list) else got
        return None if got == f(text) else ("wrong-vector", got, f(text))
    if kind == "list":
        got = _as_lists(result)
        exp = [f(t) for t in text]
        if got == exp:
            return None
        if isinstance(got, list) and sorted(map(repr, got)) == sorted(map(repr, exp)):
            return ("wrong-order", got, exp)
        return ("wrong-vector", got, exp)
    # search
    if search_vec != f(text):
        return ("wrong-vector", search_vec, f(text))
    if text in item_texts:
        top = result[0].text if result else None
        if top != text:
            return ("wrong-search-hit", top, text)
    return None


# ----------------------------------------------------------------------------- case generation
def _cache_cfg(name, tmpdir):
    if name == "off":
        return None
    store, kg = name.split("-")
    if store == "mem":
        return {"enabled": True, "key_generator": kg, "store": "in_memory", "store_config": {}}
    return {"enabled": True, "key_generator": kg, "store": "filesystem", "store_config": {"cache_dir": tmpdir}}


def _texts(rng, n, kinds, uniq, items):
    out = []
    for i in range(n):
        def one():
            if uniq:
                return "q%d-%d-%s" % (i, len(out), rng.choice(["x", "yy", "z z"]))
            return rng.choice(POOL)

        if kinds[i] == "list":
            k = rng.randint(1, 4)
            if uniq:
                out.append(["q%d.%d-%s" % (i, j, rng.choice(["x", "yy"])) for j in range(k)])
            else:
                out.append([rng.choice(POOL) for _ in range(k)])
        elif kinds[i] == "search" and items and rng.random() < 0.7:
            # query an indexed text (unique mode: each indexed text at most once)
            if uniq:
                free = [t for t in items if t not in out]
                out.append(free[0] if free else one())
            else:
                out.append(rng.choice(items))
        else:
            out.append(one())
    return out


def cases(tier, seed):
    i = 0
    # --- systematic part: all base-3 decision scripts
    L = 5 if tier == "quick" else 6
    for uniq in (True, False):
        for bs in (1, 2, 3):
            for cache in CACHES:
                for n in (3, 4):
                    rng = random.Random("sys-%s-%s-%s-%s-%s" % (seed, uniq, bs, cache, n))
                    kinds = ["batch"] * n
                    texts = _texts(rng, n, kinds, uniq, [])
                    if not uniq and len(set(texts)) == n:
                        texts[-1] = texts[0]
                    if tier == "quick" and n == 4 and cache in ("mem-hash", "fs-hash"):
                        continue
                    for script in itertools.product(range(3), repeat=L):
                        i += 1
                        yield {
                            "id": i, "mode": "sys", "cache": cache, "bs": bs, "hold": 0.01, "batching": True,
                            "kinds": kinds, "texts": texts, "items": [], "script": list(script), "seed": 0,
                            "instant": 0.0, "w": [1, 1, 1, 1], "uniq": uniq,
                        }
    # --- random part
    nrand = 7000 if tier == "quick" else 75000
    rng = random.Random("rnd-%s-%s" % (tier, seed))
    for _ in range(nrand):
        i += 1
        uniq = rng.random() < 0.5
        n = rng.randint(1, 12)
        has_index = rng.random() < 0.3
        batching = rng.random() < 0.85
        kw = rng.choice([(6, 2, 1), (3, 3, 2), (1, 0, 0), (2, 4, 1)]) if has_index else rng.choice([(6, 0, 1), (1, 0, 0), (3, 0, 3)])
        kinds = [rng.choices(["batch", "search", "list"], weights=kw)[0] for _ in range(n)]
        items = []
        if has_index:
            k = rng.randint(2, 8)
            items = (["doc%d-%s" % (j, rng.choice(["k", "mm"])) for j in range(k)] if uniq
                     else rng.sample(POOL, min(k, len(POOL))) + rng.choices(POOL, k=rng.randint(0, 2)))
        texts = _texts(rng, n, kinds, uniq, items)
        yield {
            "id": i, "mode": "rnd", "cache": rng.choice(CACHES), "bs": rng.randint(1, 5),
            "hold": rng.choice([0.0, 0.01, 0.01, 5.0]), "batching": batching,
            "kinds": kinds, "texts": texts, "items": items, "script": [], "seed": rng.randrange(1 << 30),
            "instant": rng.choice([0.0, 0.0, 0.0, 0.25, 1.0]),
            # weights of the event classes arrive / burst / timer / release
            "w": rng.choice([[1, 1, 1, 1], [4, 2, 1, 1], [1, 0, 3, 3], [2, 2, 0.3, 2], [2, 2, 2, 0.3], [1, 4, 1, 1]]),
            "uniq": uniq, "cp": rng.choice([0, 0, 0.2, 0.5]), "cancel": rng.choice([0, 0, 0, 1, 2]),
            # the embedding provider fails on one of the first model calls (every request must still complete - with an error
            # when its own text was in that call)
            "fail": [rng.randrange(3)] if rng.random() < 0.08 else [],
        }


    # --- bulk part: more texts in ONE model-facing call than any plausible per-request limit of a provider (hundreds),
    #     as a list request, as a big index build, or as one large batch of concurrent searches
    nbulk = 60 if tier == "quick" else 600
    rngb = random.Random("bulk-%s-%s" % (tier, seed))
    for _ in range(nbulk):
        i += 1
        shape = rngb.choice(["list", "items", "bigbatch"])
        big = rngb.choice([101, 130, 257])
        uniq = rngb.random() < 0.7
        if shape == "list":
            kinds = ["list"] + ["batch"] * rngb.randint(0, 2)
            texts = [["b%d-%s" % (j, "x" if uniq or j % 7 else "dup") for j in range(big)]] + ["tail%d" % j for j in range(len(kinds) - 1)]
            items, bs = [], rngb.randint(1, 5)
        elif shape == "items":
            kinds = ["search"] * rngb.randint(1, 3)
            items = ["doc%d-%s" % (j, "k" if uniq or j % 9 else "same") for j in range(big)]
            texts = [rngb.choice(items) for _ in kinds]
            bs = rngb.randint(1, 5)
        else:
            kinds = ["batch"] * big
            texts = ["s%d-%s" % (j, "x" if uniq or j % 5 else "dup") for j in range(big)]
            items, bs = [], big + rngb.randint(0, 8)
        yield {
            "id": i, "mode": "rnd", "cache": rngb.choice(CACHES), "bs": bs, "hold": rngb.choice([0.01, 0.01, 5.0]), "batching": True,
            "kinds": kinds, "texts": texts, "items": items, "script": [], "seed": rngb.randrange(1 << 30), "instant": 0.0,
            "w": rngb.choice([[1, 4, 1, 1], [2, 2, 1, 3], [1, 1, 1, 1]]), "uniq": uniq, "cp": 0, "bulk": shape,
        }


    # --- two (three) indexes with different embedding models and the same cache configuration in one process
    ntwo = 300 if tier == "quick" else 3000
    rngt = random.Random("two-%s-%s" % (tier, seed))
    for _ in range(ntwo):
        i += 1
        k = rngt.randint(2, 6)
        texts = [rngt.choice(["shared text", "a", "b b", "q%d" % rngt.randint(0, 3), "B:x", "x", ":x", "mA:x"]) for _ in range(k)]
        yield {"id": i, "fam": "twoidx", "mode": "twoidx", "cache": rngt.choice(CACHES), "nidx": rngt.choice([2, 2, 3]), "texts": texts,
               "batching": rngt.random() < 0.5, "shuffle": rngt.random() < 0.5, "share_dir": rngt.random() < 0.5, "seed": rngt.randrange(1 << 30),
               "conc": rngt.choice([0, 1, 3]), "odd_names": rngt.random() < 0.3}


# ----------------------------------------------------------------------------- worker side
_W = {}
_CUR = [None]


class Violation(Exception):
    pass


class ModelDown(Exception):
    pass


def setup_worker():
    import asyncio
    import contextvars

    from nemoguardrails.embeddings import basic, cache
    from nemoguardrails.embeddings.index import IndexItem
    from nemoguardrails.embeddings.providers import register_embedding_provider
    from nemoguardrails.embeddings.providers.base import EmbeddingModel

    from . import steps

    cls = basic.BasicEmbeddingsIndex
    for name in ("_get_embeddings", "_batch_get_embeddings", "_run_batch", "search", "add_item", "add_items", "build"):
        if not callable(getattr(cls, name, None)):
            raise RuntimeError("BasicEmbeddingsIndex.%s is gone" % name)
    if not callable(getattr(cache, "cache_embeddings", None)):
        raise RuntimeError("cache.cache_embeddings is gone")
    for kg in ("md5", "hash"):
        cache.KeyGenerator.from_name(kg)
    for st in ("in_memory", "filesystem"):
        cache.CacheStore.from_name(st)

    req_var = contextvars.ContextVar("c19_req", default=None)

    class GatedModel(EmbeddingModel):
        engine_name = "verif_gated_c19"

        def __init__(self, embedding_model=None, **kw):
            self.model = embedding_model or "m"

        def encode(self, documents):
            ctl = _CUR[0]
            ctl.sync_calls += 1
            return [fm(self.model, d) for d in documents]

        async def encode_async(self, documents):
            ctl = _CUR[0]
            docs = list(documents)
            k = len(ctl.calls)
            ctl.calls.append(docs)
            for _ in range(getattr(ctl, "yields", 0)):
                await asyncio.sleep(0)  # the model call takes a while: other requests of the same loop run meanwhile
            if not (ctl.auto or ctl.instant_now()):
                fut = asyncio.get_running_loop().create_future()
                ctl.gates[k] = fut
                ctl.max_in_flight = max(ctl.max_in_flight, len(ctl.pending_gates()))
                await fut
            elif not ctl.auto:
                ctl.instant_calls += 1
            if not ctl.auto and (k - ctl.build_calls) in ctl.fail_calls:
                ctl.failed_docs += docs
                raise ModelDown("the embedding provider failed on model call %d" % (k - ctl.build_calls))
            return [fm(self.model, d) for d in docs]

    register_embedding_provider(GatedModel)

    # count batches at the real entry point (delegating wrapper)
    orig_run_batch = cls._run_batch

    async def counted_run_batch(self, *a, **k):
        ctl = _CUR[0]
        if ctl is not None:
            ctl.batches += 1
        return await orig_run_batch(self, *a, **k)

    cls._run_batch = counted_run_batch

    class VLoop(asyncio.SelectorEventLoop):
        """Never blocks (the driver always queues `stop` first); virtual clock."""

        def __init__(self):
            super().__init__()
            self._vt = 1000.0

        def time(self):
            return self._vt

    probe = VLoop()
    try:
        if not hasattr(probe, "_ready") or not hasattr(probe, "_scheduled") or not hasattr(probe, "_clock_resolution"):
            raise RuntimeError("event loop internals _ready/_scheduled/_clock_resolution missing")
    finally:
        probe.close()

    class RecordingIndex:
        """Delegates to the real AnnoyIndex, records the query vector per request."""

        def __init__(self, inner, ctl):
            self._inner = inner
            self._ctl = ctl

        def get_nns_by_vector(self, vector, *a, **k):
            self._ctl.search_vecs[req_var.get()] = _as_lists([vector])[0]
            return self._inner.get_nns_by_vector(vector, *a, **k)

        def __getattr__(self, name):
            return getattr(self._inner, name)

    import asyncio.locks as locks

    _install_steps([basic, cache, locks], steps)
    _W.update(asyncio=asyncio, basic=basic, cache=cache, IndexItem=IndexItem, VLoop=VLoop, req_var=req_var,
              RecordingIndex=RecordingIndex, steps=steps)


# Logical step budget.  vp.steps raises only once per case; a mutant that makes two
# requests spin without yielding would hang on the second one, so this monitor uses
# its own sys.monitoring tool id with a callback that keeps raising while over budget.
_ST = {"count": 0, "armed": False, "blown": False}
_TOOL = 4


def _install_steps(modules, steps):
    import sys

    mon = sys.monitoring
    mon.use_tool_id(_TOOL, "vp-c19-steps")

    def on_start(code, offset):
        _ST["count"] += 1
        if _ST["armed"] and _ST["count"] > _ST.get("budget", STEP_BUDGET):
            _ST["blown"] = True
            raise steps.StepBudgetExceeded("logical step budget %d exceeded" % STEP_BUDGET)

    mon.register_callback(_TOOL, mon.events.PY_START, on_start)
    n = 0
    for m in modules:
        for co in steps._code_objects(m):
            mon.set_local_events(_TOOL, co, mon.events.PY_START)
            n += 1
    if n < 20:
        raise RuntimeError("step counter instrumented only %d code objects" % n)


def _steps_start(scale=1):
    _ST.update(count=0, armed=True, blown=False, budget=STEP_BUDGET * max(1, scale))


def _steps_stop():
    _ST["armed"] = False
    return _ST["count"]


class Ctl:
    def __init__(self, rng, instant_p):
        self.rng = rng
        self.instant_p = instant_p
        self.auto = False
        self.calls = []
        self.gates = {}
        self.max_in_flight = 0
        self.instant_calls = 0
        self.sync_calls = 0
        self.batches = 0
        self.search_vecs = {}
        self.fail_calls = set()  # model calls (counted after the index build) that end with an exception of the provider
        self.failed_docs = []
        self.build_calls = 0

    def instant_now(self):
        return self.instant_p > 0 and self.rng.random() < self.instant_p

    def pending_gates(self):
        return [k for k, g in self.gates.items() if not g.done()]


class Driver:
    def __init__(self, loop):
        self.loop = loop
        self.iters = 0

    def timers(self):
        return [h for h in self.loop._scheduled if not h._cancelled]

    def _due(self):
        lim = self.loop.time() + self.loop._clock_resolution
        return any(h._when < lim for h in self.timers())

    def settle(self):
        n = 0
        while self.loop._ready or self._due():
            n += 1
            if n > MAX_SETTLE_ITERS:
                raise Violation("livelock")
            self.loop.call_soon(self.loop.stop)
            self.loop.run_forever()
        self.iters += n

    def fire_timer(self):
        self.loop._vt = max(self.loop._vt, min(h._when for h in self.timers()))
        self.settle()


def _pick(rng, script, pos, enabled, w):
    """enabled: list of (cls, label, payload) in canonical order."""
    if pos < len(script):
        return enabled[script[pos] % len(enabled)]
    classes = sorted({e[0] for e in enabled})
    ws = [max((list(w) + [0.6])["ABTRX".index(c)], 0.0) for c in classes]
    if sum(ws) <= 0:
        ws = [1.0] * len(classes)
    c = rng.choices(classes, weights=ws)[0]
    return rng.choice([e for e in enabled if e[0] == c])


def run_twoidx(case):
    """Two (three) indexes with DIFFERENT embedding models and the same cache configuration in one process; the same texts go
    through all of them, in a generated order. Every index must get the vectors of ITS model. Model calls return at once
    (the scheduling families cover interleavings; this one covers what the indexes share)."""
    import os
    import shutil
    import tempfile

    W = _W
    asyncio = W["asyncio"]
    rng = random.Random(case["seed"])
    shm = "/dev/shm" if os.path.isdir("/dev/shm") and os.access("/dev/shm", os.W_OK) else None
    shared_dir = case["cache"].startswith("fs") and case.get("share_dir", True)
    tmpdirs = []
    ctl = Ctl(rng, 0)
    ctl.auto = True
    _CUR[0] = ctl
    models = (["mA", "mB", "mC"] if not case.get("odd_names") else ["m", "m:B", "m:B:x"])[: case["nidx"]]
    texts = case["texts"]
    sample = {"family": "twoidx", "cache": case["cache"], "models": models, "texts": texts, "use_batching": case["batching"], "same_cache_dir": bool(shared_dir)}
    base = {"nontrivial": True, "sample": sample, "cfg": case["cache"], "mode": "twoidx"}
    obs = {"requests": 0, "vectors_compared": 0, "searches_compared": 0, "two_index_cases": 1}
    problem = None
    loop = asyncio.new_event_loop()
    asyncio.set_event_loop(loop)
    _steps_start(scale=40)
    try:
        idxs = {}
        common = tempfile.mkdtemp(prefix="c19cache_", dir=shm) if case["cache"].startswith("fs") else None
        if common:
            tmpdirs.append(common)
        for m in models:
            d = common
            if case["cache"].startswith("fs") and not shared_dir:
                d = tempfile.mkdtemp(prefix="c19cache_", dir=shm)
                tmpdirs.append(d)
            idxs[m] = W["basic"].BasicEmbeddingsIndex(embedding_model=m, embedding_engine="verif_gated_c19", cache_config=_cache_cfg(case["cache"], d),
                                                      use_batching=case["batching"], max_batch_size=3, max_batch_hold=0.01)
        II = W["IndexItem"]

        async def go():
            nonlocal problem
            if case.get("conc"):
                # first the indexes work at the same time: every text goes to all of them while the others' model calls are in flight
                ctl.yields = case["conc"]
                for t in dict.fromkeys(texts):
                    order = list(models)
                    rng.shuffle(order)
                    got = await asyncio.wait_for(asyncio.gather(*[idxs[m_]._get_embeddings([t]) for m_ in order]), 30)
                    obs["requests"] += len(order)
                    for m_, g_ in zip(order, got):
                        obs["vectors_compared"] += 1
                        if _as_lists(g_) != [fm(m_, t)]:
                            other = next((o for o in models if o != m_ and _as_lists(g_) == [fm(o, t)]), None)
                            problem = ("vector-of-another-index-model" if other else "wrong-vector", {"index_model": m_, "text": t, "got_is_vector_of_model": other, "phase": "concurrent"})
                            return
                ctl.yields = 0
                obs["two_index_concurrent_phases"] = 1
            plan = [(m, t) for t in texts for m in models]
            if case.get("shuffle"):
                rng.shuffle(plan)
            for m, t in plan:
                got = _as_lists(await asyncio.wait_for(idxs[m]._get_embeddings([t]), 30))
                obs["requests"] += 1
                obs["vectors_compared"] += 1
                if got != [fm(m, t)]:
                    other = next((o for o in models if o != m and got == [fm(o, t)]), None)
                    problem = ("vector-of-another-index-model" if other else "wrong-vector", {"index_model": m, "text": t, "got_is_vector_of_model": other, "got": got[0][:3], "expected": fm(m, t)[:3]})
                    return
            for m in models:
                await idxs[m].add_items([II(text=t) for t in dict.fromkeys(texts)])
                await idxs[m].build()
            for m in models:
                for t in list(dict.fromkeys(texts))[:3]:
                    res = await asyncio.wait_for(idxs[m].search(t, max_results=len(texts)), 30)
                    obs["requests"] += 1
                    obs["searches_compared"] += 1
                    if not res or res[0].text != t:
                        problem = ("search-misses-own-text", {"index_model": m, "query": t, "first_hit": res[0].text if res else None})
                        return

        loop.run_until_complete(go())
    except Exception as e:
        problem = ("exception:%s" % type(e).__name__, {"exception": repr(e)[:300]})
    finally:
        _steps_stop()
        try:
            loop.close()
        except Exception:
            pass
        for d in tmpdirs:
            shutil.rmtree(d, ignore_errors=True)
        _CUR[0] = None
    key = repr(("twoidx", case["cache"], models, texts, case["batching"], bool(shared_dir), bool(case.get("shuffle")), case.get("conc"), bool(case.get("odd_names"))))
    if problem:
        return dict(base, key=key, verdict="violated", observed=obs, mech=problem[0], witness=dict(problem[1], config=sample))
    return dict(base, key=key, verdict="held", observed=obs)


def run_case(case):
    import os
    import shutil
    import tempfile

    if case.get("fam") == "twoidx":
        return run_twoidx(case)

    W = _W
    asyncio, steps = W["asyncio"], W["steps"]
    rng = random.Random(case["seed"])
    kinds, texts, items = case["kinds"], case["texts"], case["items"]
    n = len(kinds)
    shm = "/dev/shm" if os.path.isdir("/dev/shm") and os.access("/dev/shm", os.W_OK) else None
    tmpdir = tempfile.mkdtemp(prefix="c19cache_", dir=shm) if case["cache"].startswith("fs") else None
    ctl = Ctl(rng, case["instant"])
    _CUR[0] = ctl
    loop = W["VLoop"]()
    asyncio.set_event_loop(loop)
    drv = Driver(loop)
    trace = []
    obs = {"requests": 0, "vectors_compared": 0, "lists_compared": 0, "searches_compared": 0}
    sample = {"cache": case["cache"], "max_batch_size": case["bs"], "hold": case["hold"], "use_batching": case["batching"],
              "requests": [[k, t] for k, t in zip(kinds, texts)], "index_items": items}
    base = {"nontrivial": False, "sample": sample, "cfg": case["cache"], "mode": case["mode"]}
    tasks = {}
    cancelled = set()
    problem = None  # (mechanism, detail)
    arr = {"idle": 0, "hold": 0, "model": 0, "hold+model": 0}
    compound_steps = 0
    build_calls = 0
    idx = None
    _steps_start(scale=40 if case.get("bulk") else 1)
    try:
        idx = W["basic"].BasicEmbeddingsIndex(
            embedding_model="m", embedding_engine="verif_gated_c19", cache_config=_cache_cfg(case["cache"], tmpdir),
            use_batching=case["batching"], max_batch_size=case["bs"], max_batch_hold=case["hold"],
        )
        # ---- build phase (gates auto-released): add_items / add_item / build keep the order
        if items:
            ctl.auto = True
            II = W["IndexItem"]
            cut = rng.randint(0, len(items))

            async def build():
                if cut:
                    await idx.add_items([II(text=t) for t in items[:cut]])
                for t in items[cut:]:
                    await idx.add_item(II(text=t))
                await idx.build()

            bt = loop.create_task(build())
            drv.settle()
            if not bt.done():
                problem = ("build-pending-at-quiescence", {})
            elif bt.exception() is not None:
                problem = ("exception:%s" % type(bt.exception()).__name__, {"where": "build", "exception": repr(bt.exception())[:300]})
            else:
                got = _as_lists(idx._embeddings)
                obs["lists_compared"] += 1
                if got != [f(t) for t in items]:
                    problem = ("wrong-order-build", {"items": items, "got": got, "expected": [f(t) for t in items]})
            idx.embeddings_index = W["RecordingIndex"](idx._index, ctl)
            ctl.auto = False
        build_calls = len(ctl.calls)
        ctl.build_calls = build_calls
        ctl.fail_calls = set(case.get("fail") or [])

        async def req(i):
            W["req_var"].set(i)
            if kinds[i] == "batch":
                return await idx._batch_get_embeddings(texts[i])
            if kinds[i] == "list":
                return await idx._get_embeddings(list(texts[i]))
            return await idx.search(texts[i], max_results=len(items))

        # ---- the controlled schedule
        nxt = 0
        pos = 0
        while problem is None:
            enabled = []
            if nxt < n:
                enabled.append(("A", "A%d" % nxt, 1))
            if n - nxt >= 2:
                k = 2 if case["mode"] == "sys" else rng.randint(2, min(n - nxt, 5))
                enabled.append(("B", "B%d-%d" % (nxt, nxt + k - 1), k))
            if drv.timers():
                enabled.append(("T", "T", None))
            for g in ctl.pending_gates():
                enabled.append(("R", "R%d" % (g - build_calls), g))
            if case.get("cancel") and len(cancelled) < case["cancel"]:
                # a CLIENT gives up on one of its requests (task.cancel() / a wait_for timeout): the other requests must
                # still complete with their own vectors
                for i_, t_ in tasks.items():
                    if not t_.done() and i_ not in cancelled:
                        enabled.append(("X", "X%d" % i_, i_))
            if not enabled or all(e[0] == "X" for e in enabled):
                break
            step = [_pick(rng, case["script"], pos, enabled, case["w"])]
            pos += 1
            # compound step: several logical events land in the SAME loop iteration
            if case.get("cp", 0) and len(enabled) > 1 and rng.random() < case["cp"]:
                for _ in range(rng.randint(1, 2)):
                    taken = {e[1] for e in step}
                    arrivals = any(e[0] in "AB" for e in step)
                    rest = [e for e in enabled if e[1] not in taken and not (arrivals and e[0] in "AB")]
                    if rest:
                        step.append(rng.choice(rest))
                compound_steps += 1 if len(step) > 1 else 0
            trace.append("&".join(e[1] for e in step))
            hold, model = bool(drv.timers()), bool(ctl.pending_gates())
            for c, label, payload in step:
                if c in "AB":
                    arr["hold+model" if hold and model else "hold" if hold else "model" if model else "idle"] += payload
                    for _ in range(payload):
                        tasks[nxt] = loop.create_task(req(nxt))
                        nxt += 1
                elif c == "T":
                    loop._vt = max(loop._vt, min(h._when for h in drv.timers()))
                elif c == "X":
                    cancelled.add(payload)
                    tasks[payload].cancel()
                elif not ctl.gates[payload].done():  # (a cancellation in the same step may already have cancelled this gate)
                    ctl.gates[payload].set_result(None)
            drv.settle()
            if _ST["blown"]:
                problem = ("no-progress-spin", {"steps": _ST["count"]})
        # ---- quiescence: nothing enabled, loop idle
        if problem is None:
            pend = [i for i, t in tasks.items() if not t.done()]
            if pend:
                problem = ("pending-at-quiescence", {"pending_requests": pend, "texts": [texts[i] for i in pend],
                                                     "queue": repr(getattr(idx, "_req_queue", None))[:200]})
        if problem is None:
            for i in range(n):
                t = tasks[i]
                obs["requests"] += 1
                if i in cancelled and t.cancelled():
                    obs["requests_cancelled_by_client"] = obs.get("requests_cancelled_by_client", 0) + 1
                    obs[{"batch": "vectors_compared", "list": "lists_compared", "search": "searches_compared"}[kinds[i]]] += 1  # accounted for
                    continue
                if t.cancelled():
                    problem = ("request-cancelled-although-its-client-did-not-cancel", {"request": i, "kind": kinds[i], "text": texts[i], "client_cancelled": sorted(cancelled)})
                    break
                if t.exception() is not None and ctl.failed_docs and not isinstance(t.exception(), steps.StepBudgetExceeded):
                    if isinstance(t.exception(), ModelDown):
                        # the provider failed on a model call of the batch this request belongs to (its own text may even have come
                        # from the cache: the batch is computed as a whole): the request ends with the provider's error
                        obs["requests_failed_with_their_model_call"] = obs.get("requests_failed_with_their_model_call", 0) + 1
                        obs[{"batch": "vectors_compared", "list": "lists_compared", "search": "searches_compared"}[kinds[i]]] += 1  # accounted for
                        continue
                if t.exception() is not None:
                    e = t.exception()
                    key = "no-progress-spin" if isinstance(e, steps.StepBudgetExceeded) else "exception:%s" % type(e).__name__
                    problem = (key, {"request": i, "kind": kinds[i], "text": texts[i], "exception": repr(e)[:300]})
                    break
                bad = judge(kinds[i], texts[i], t.result(), ctl.search_vecs.get(i), items)
                obs[{"batch": "vectors_compared", "list": "lists_compared", "search": "searches_compared"}[kinds[i]]] += 1
                if bad:
                    problem = (bad[0], {"request": i, "kind": kinds[i], "text": texts[i], "observed": bad[1], "expected": bad[2]})
                    break
    except Violation as v:
        problem = (str(v), {"iterations_without_idle": MAX_SETTLE_ITERS})
    finally:
        used = _steps_stop()
        for t in list(tasks.values()) + list(asyncio.all_tasks(loop)):
            if not t.done():
                t.cancel()
        try:
            for _ in range(20):
                if not loop._ready:
                    break
                loop.call_soon(loop.stop)
                loop.run_forever()
        except BaseException:
            pass
        for t in tasks.values():
            if t.done() and not t.cancelled():
                t.exception()  # mark retrieved
        asyncio.set_event_loop(None)
        loop.close()
        _CUR[0] = None
        if tmpdir:
            shutil.rmtree(tmpdir, ignore_errors=True)

    calls = ctl.calls[build_calls:] if items else ctl.calls
    asked = sum(len(t) if isinstance(t, list) else 1 for t in texts)
    sent = sum(len(c) for c in calls)
    max_docs = max([len(c) for c in calls] or [0])
    overlap_arr = arr["hold"] + arr["model"] + arr["hold+model"]
    nontrivial = max_docs >= 2 or ctl.max_in_flight >= 2 or overlap_arr > 0
    sched = " ".join(trace)
    obs.update({
        "model_calls": len(calls), "batches_formed": ctl.batches, "max_model_call_docs": max_docs,
        "max_calls_in_flight": ctl.max_in_flight, "instant_model_calls": ctl.instant_calls,
        "texts_served_from_cache": max(0, asked - sent) if case["cache"] != "off" else 0,
        "cases_with_cache_hit": int(case["cache"] != "off" and asked > sent),
        "arrivals_idle": arr["idle"], "arrivals_during_hold": arr["hold"], "arrivals_during_model": arr["model"],
        "arrivals_during_hold_and_model": arr["hold+model"], "timer_events": sum(x.split("&").count("T") for x in trace), "compound_steps": compound_steps,
        "max_steps": used, "max_loop_iterations": drv.iters, "sync_encode_calls": ctl.sync_calls,
        "shapes_modelcalls_requests": ["%d/%d" % (len(calls), n)],
        "schedules": [hashlib.sha1(sched.encode()).hexdigest()[:12]],
        "configs": ["%s|bs%d|hold%s|batching%d" % (case["cache"], case["bs"], case["hold"], case["batching"])],
        "max_leftover_req_results": len(getattr(idx, "_req_results", None) or {}),
    })
    sample["schedule"] = sched
    sample["model_calls"] = calls
    base.update(nontrivial=nontrivial, key=repr((case["cache"], case["bs"], case["hold"], case["batching"], kinds, texts, items, sched)))
    if problem is not None:
        mech, detail = problem
        w = dict(detail, mechanism=mech, config=sample, schedule=sched, model_calls=calls)
        return dict(base, verdict="violated", observed=obs, witness=w, mechanism=mech)
    compared = obs["vectors_compared"] + obs["lists_compared"] + obs["searches_compared"]
    if obs["requests"] != n or compared < n:
        return dict(base, verdict="inconclusive", reason="monitor-not-reached", observed=obs)
    return dict(base, verdict="held", observed=obs)


def classify(r):
    return r.get("mechanism") or r.get("mech") or r.get("witness", {}).get("mechanism", "unclassified")
