"""Quiescence / dispatch-index invariants of a Colang 2 State, evaluated after
`run_to_completion` returned (C09). Pure observation: a from-scratch scan of all
flow instances compared with the interpreter's incremental structures.

check_state(state) -> (problems: list[(kind, detail)], facts: dict)
"""

_M = {}


def _mods():
    if not _M:
        from nemoguardrails.colang.v2_x.lang import colang_ast as ast
        from nemoguardrails.colang.v2_x.runtime import flows as fl
        from nemoguardrails.colang.v2_x.runtime import statemachine as sm

        _M.update(ast=ast, fl=fl, sm=sm)
    return _M


LISTENING = ("waiting", "started", "starting")


def check_state(state, check_names=True):
    M = _mods()
    sm, fl, ast = M["sm"], M["fl"], M["ast"]
    HS = fl.FlowHeadStatus
    problems = []
    facts = {"listening_flows": 0, "index_entries": 0, "active_heads": 0, "forked_flows": 0, "flows": len(state.flow_states)}

    def note(k, msg):
        problems.append((k, msg))

    if state.internal_events:
        note("pending-internal-events", str([getattr(e, "name", e) for e in state.internal_events])[:300])
    expected = {}
    for fs in state.flow_states.values():
        cfg = state.flow_configs.get(fs.flow_id)
        if cfg is None:
            note("flow-without-config", fs.flow_id)
            continue
        status = getattr(fs.status, "value", str(fs.status))
        listening = status in LISTENING
        if not listening:
            if fs.heads:
                note("ended-instance-holds-heads", "%s %s heads=%d" % (fs.flow_id, status, len(fs.heads)))
            continue
        facts["listening_flows"] += 1
        nact = 0
        for h in fs.heads.values():
            if h.status == HS.INACTIVE:
                continue
            nact += 1
            if h.position < 0 or h.position >= len(cfg.elements):
                note("active-head-out-of-range", "%s %s pos=%d len=%d" % (fs.flow_id, status, h.position, len(cfg.elements)))
                continue
            el = cfg.elements[h.position]
            if sm.is_match_op_element(el):
                name = None
                if check_names:
                    try:
                        name = sm.get_event_name_from_element(state, fs, el)
                    except Exception:
                        name = None
                    # second opinion: the name of the reference event the MATCHER builds for this statement (another code
                    # path of the interpreter) - an event with that name is what the head is waiting for
                    try:
                        ref_name = getattr(sm.get_event_from_element(state, fs, el), "name", None)
                    except Exception:
                        ref_name = None
                    if name is not None and ref_name is not None and name != ref_name:
                        note("index-name-differs-from-the-matchers-event-name", "%s pos=%d index=%r matcher=%r" % (fs.flow_id, h.position, name, ref_name))
                    facts["names_cross_checked"] = facts.get("names_cross_checked", 0) + (1 if name is not None and ref_name is not None else 0)
                expected[(fs.uid, h.uid)] = name
            elif isinstance(el, ast.WaitForHeads):
                pass
            elif h.status == HS.MERGING:
                note("merging-head-left-over", "%s %s" % (fs.flow_id, type(el).__name__))
            else:
                note("head-parked-on-executable-statement", "%s %s %s op=%s head=%s" % (fs.flow_id, status, type(el).__name__, getattr(el, "op", None), h.status))
        facts["active_heads"] += nact
        if nact > 1:
            facts["forked_flows"] += 1
        # (a `started` instance without any head is legitimate: an activated flow that
        #  finished without ever waiting "runs once and stays activated")
        for uid in fs.child_flow_uids:
            if uid not in state.flow_states:
                note("dangling-child-reference", fs.flow_id)
        for uid in fs.action_uids:
            if uid not in state.actions:
                note("dangling-action-reference", fs.flow_id)
        for k, v in fs.context.items():
            if isinstance(v, fl.FlowState) and v.uid not in state.flow_states:
                note("flow-variable-refers-to-missing-instance", "%s.$%s" % (fs.flow_id, k))
            elif isinstance(v, fl.Action) and v.uid not in state.actions:
                note("action-variable-refers-to-missing-action", "%s.$%s" % (fs.flow_id, k))
    actual = {}
    for name, lst in state.event_matching_heads.items():
        for t in lst:
            t = tuple(t)
            if t in actual:
                note("duplicate-index-entry", "%s under %s and %s" % (t, actual[t], name))
            actual[t] = name
    facts["index_entries"] = len(actual)
    stale = set(actual) - set(expected)
    missing = set(expected) - set(actual)
    if stale:
        note("stale-index-entry", "%d stale, e.g. under %r" % (len(stale), actual[sorted(stale)[0]]))
    if missing:
        t = sorted(missing)[0]
        fs = state.flow_states[t[0]]
        note("waiting-head-missing-from-index", "%d missing, e.g. flow %s event %r" % (len(missing), fs.flow_id, expected[t]))
    for t in set(actual) & set(expected):
        if expected[t] is not None and actual[t] != expected[t]:
            note("index-entry-under-wrong-event-name", "registered %r, statement waits for %r" % (actual[t], expected[t]))
    rev = state.event_matching_heads_reverse_map
    if set(rev.keys()) != {a + b for a, b in actual}:
        note("reverse-map-keys-differ", "%d vs %d" % (len(rev), len(actual)))
    else:
        for (a, b), name in actual.items():
            if rev.get(a + b) != name:
                note("reverse-map-name-differs", "%r vs %r" % (rev.get(a + b), name))
    n = 0
    for fid, lst in state.flow_id_states.items():
        for fs in lst:
            n += 1
            if fs.uid not in state.flow_states or state.flow_states[fs.uid] is not fs:
                note("flow-id-index-stale-instance", fid)
            elif fs.flow_id != fid:
                note("flow-id-index-wrong-bucket", "%s in %s" % (fs.flow_id, fid))
    if n != len(state.flow_states):
        note("flow-id-index-count-differs", "%d vs %d" % (n, len(state.flow_states)))
    return problems, facts


def index_shape(facts):
    return "L%d-H%d-I%d-F%d" % (min(facts["listening_flows"], 12), min(facts["active_heads"], 16), min(facts["index_entries"], 16), min(facts["forked_flows"], 6))
