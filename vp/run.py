"""Parent process of a check: enumerate cases, feed them to worker subprocesses,
fold the three-valued verdicts, write evidence, print VIOLATION / KNOWN-FINDING.

usage: python -m vp.run Cxx [--tier quick|thorough] [--replay file] [--jobs N]
                            [--limit N] [--keep-going]
exit:  0 held on everything explored (or only listed known findings)
       1 VIOLATION (a violation no open known finding lists)
       2 INCONCLUSIVE (too few conclusive cases / monitor never reached)
"""
import argparse
import hashlib
import importlib
import json
import os
import queue
import subprocess
import sys
import tempfile
import threading
import time

from . import REPO, VERIF

BATCH = 8
HARD_TIMEOUT_S = 240  # parent-side: no result line for this long -> kill worker


def load_known(prop):
    path = os.path.join(VERIF, "known_findings.json")
    if not os.path.exists(path):
        return {}
    data = json.load(open(path))
    out = {}
    for e in data.get("findings", []):
        if e.get("property") == prop and e.get("status") == "open":
            out[e["key"]] = e
    return out


class Feeder:
    """Thread-safe source of cases with re-queue support."""

    def __init__(self, it):
        self.it = it
        self.lock = threading.Lock()
        self.requeued = []
        self.done = False

    def take(self, n):
        out = []
        with self.lock:
            while self.requeued and len(out) < n:
                out.append(self.requeued.pop())
            while len(out) < n and not self.done:
                try:
                    out.append(next(self.it))
                except StopIteration:
                    self.done = True
        return out

    def give_back(self, cases):
        with self.lock:
            self.requeued.extend(cases)


def spawn_worker(prop, logdir, idx):
    env = dict(os.environ)
    env["PYTHONDONTWRITEBYTECODE"] = "1"
    env["PYTHONHASHSEED"] = "0"
    env["VERIF_REPO"] = REPO
    env["PYTHONPATH"] = VERIF + os.pathsep + env.get("PYTHONPATH", "")
    env.setdefault("OPENAI_API_KEY", "sk-verif-offline")
    env["TOKENIZERS_PARALLELISM"] = "false"
    for k in ("OMP_NUM_THREADS", "OPENBLAS_NUM_THREADS", "MKL_NUM_THREADS"):
        env[k] = "1"
    cwd = tempfile.mkdtemp(prefix="vpw_%s_%d_" % (prop, idx))
    err = open(os.path.join(logdir, "worker%d.err" % idx), "ab")
    p = subprocess.Popen(
        [sys.executable, "-m", "vp.worker", prop],
        stdin=subprocess.PIPE,
        stdout=subprocess.PIPE,
        stderr=err,
        cwd=cwd,
        env=env,
    )
    p._vp_cwd = cwd
    p._vp_err = err
    return p


def kill_worker(p):
    try:
        p.kill()
    except Exception:
        pass
    try:
        p.wait(timeout=10)
    except Exception:
        pass
    try:
        p._vp_err.close()
    except Exception:
        pass
    subprocess.call(["rm", "-rf", p._vp_cwd])


def readline_timeout(p, timeout):
    """Read one line from p.stdout or return None on timeout/EOF ('' on EOF)."""
    box = []

    def rd():
        try:
            box.append(p.stdout.readline())
        except Exception:
            box.append(b"")

    t = threading.Thread(target=rd, daemon=True)
    t.start()
    t.join(timeout)
    if t.is_alive():
        return None
    return box[0]


def worker_thread(prop, feeder, results, logdir, idx, stop_flag):
    p = None
    try:
        while not stop_flag.is_set():
            batch = feeder.take(BATCH)
            if not batch:
                break
            if p is None or p.poll() is not None:
                if p is not None:
                    kill_worker(p)
                p = spawn_worker(prop, logdir, idx)
            try:
                for c in batch:
                    p.stdin.write((json.dumps(c) + "\n").encode())
                p.stdin.flush()
            except (BrokenPipeError, OSError):
                feeder.give_back(batch)
                kill_worker(p)
                p = None
                results.put({"_worker_restart": idx})
                # avoid hot loop if the worker cannot even start
                time.sleep(0.5)
                if results.qsize() > 100000:
                    break
                continue
            got = 0
            while got < len(batch):
                line = readline_timeout(p, HARD_TIMEOUT_S)
                if line is None or line == b"":
                    # the case in progress is the culprit
                    reason = "worker-hung" if line is None else "worker-died"
                    culprit = batch[got]
                    results.put(
                        {
                            "id": culprit.get("id"),
                            "verdict": "inconclusive",
                            "reason": reason,
                            "case": culprit,
                        }
                    )
                    feeder.give_back(batch[got + 1 :])
                    kill_worker(p)
                    p = None
                    break
                try:
                    r = json.loads(line)
                except Exception:
                    continue
                r.setdefault("case", batch[got])
                results.put(r)
                got += 1
    finally:
        if p is not None:
            try:
                p.stdin.close()
            except Exception:
                pass
            try:
                p.wait(timeout=20)
            except Exception:
                pass
            kill_worker(p)
        results.put({"_thread_done": idx})


def case_hash(r):
    k = r.get("key")
    if k is None:
        k = json.dumps(r.get("case"), sort_keys=True, default=str)
    return hashlib.sha1(str(k).encode()).hexdigest()


def main(argv=None):
    ap = argparse.ArgumentParser()
    ap.add_argument("prop")
    ap.add_argument("--tier", default=os.environ.get("VERIF_TIER", "quick"))
    ap.add_argument("--replay")
    ap.add_argument("--jobs", type=int, default=int(os.environ.get("VERIF_JOBS", "0")))
    ap.add_argument("--limit", type=int, default=0)
    ap.add_argument("--no-evidence", action="store_true")
    args = ap.parse_args(argv)
    prop = args.prop.upper()
    tier = args.tier if args.tier in ("quick", "thorough") else "quick"
    seed = int(os.environ.get("VERIF_SEED", "0") or 0)
    t0 = time.time()

    from . import deps

    deps.ensure()

    mon = importlib.import_module("vp.mon_%s" % prop.lower())
    known = load_known(prop)

    if args.replay:
        rep = json.load(open(args.replay))
        case_list = [rep["case"]]
        it = iter(case_list)
        jobs = 1
    else:
        it = iter(mon.cases(tier, seed))
        if args.limit:
            import itertools

            it = itertools.islice(it, args.limit)
        jobs = args.jobs or min(16, os.cpu_count() or 1)
        jobs = min(jobs, getattr(mon, "MAX_JOBS", 16))

    logdir = tempfile.mkdtemp(prefix="vplog_%s_" % prop)
    feeder = Feeder(it)
    results = queue.Queue()
    stop_flag = threading.Event()
    threads = []
    for i in range(jobs):
        t = threading.Thread(
            target=worker_thread,
            args=(prop, feeder, results, logdir, i, stop_flag),
            daemon=True,
        )
        t.start()
        threads.append(t)

    counts = {"held": 0, "violated": 0, "inconclusive": 0}
    reasons = {}
    observed = {}
    distinct = set()
    samples = []
    sample_every = max(1, getattr(mon, "SAMPLE_EVERY", 97))
    violations = []  # (key, result)
    inc_samples = []
    known_hits = {}
    restarts = 0
    alive = jobs
    n = 0
    max_samples = 6
    while alive > 0:
        r = results.get()
        if "_thread_done" in r:
            alive -= 1
            continue
        if "_worker_restart" in r:
            restarts += 1
            if restarts > 50:
                stop_flag.set()
            continue
        n += 1
        v = r.get("verdict", "inconclusive")
        if v not in counts:
            v = "inconclusive"
        counts[v] += 1
        for k, val in (r.get("observed") or {}).items():
            if isinstance(val, (int, float)):
                if k.startswith("max_"):
                    observed[k] = max(observed.get(k, 0), val)
                else:
                    observed[k] = observed.get(k, 0) + val
            elif isinstance(val, list):
                s = observed.setdefault(k, set())
                if isinstance(s, set):
                    s.update(str(x) for x in val)
        if v == "inconclusive":
            reason = r.get("reason", "unspecified")
            reasons[reason] = reasons.get(reason, 0) + 1
            if not reason.startswith("expected:") and len(inc_samples) < 5:
                inc_samples.append({"reason": reason, "detail": str(r.get("detail", ""))[:600], "case": r.get("case"), "observed": r.get("observed")})
        else:
            if r.get("nontrivial"):
                distinct.add(case_hash(r))
            if len(samples) < max_samples and (
                r.get("sample") is not None and (n % sample_every == 1 or r.get("nontrivial") and len(samples) < 2)
            ):
                samples.append(r["sample"])
        if v == "violated":
            try:
                key = mon.classify(r)
            except Exception as e:  # classifier bug must not hide the violation
                key = "unclassified(%s)" % type(e).__name__
            parts = str(key).split("+")
            if key in known:
                known_hits.setdefault(key, []).append(r)
            elif len(parts) > 1 and all(p_ in known for p_ in parts):
                # one execution showing several listed mechanisms at once
                for p_ in parts:
                    known_hits.setdefault(p_, []).append(r)
            else:
                violations.append((key, r))
    for t in threads:
        t.join(timeout=5)

    # cross-case obligations (e.g. "every tied winner observed under some RNG outcome")
    extra_cov = {}
    if hasattr(mon, "finalize") and not args.replay:
        try:
            fin = mon.finalize(tier, seed, observed, counts) or {}
        except Exception as e:
            fin = {"inconclusive": "finalize raised %r" % (e,)}
        extra_cov = fin.get("coverage", {})
        for w in fin.get("violations", []):
            key = w.get("mechanism", "cross-case")
            r = {"verdict": "violated", "witness": w, "case": w.get("case"), "mechanism": key}
            counts["violated"] += 1
            if key in known:
                known_hits.setdefault(key, []).append(r)
            else:
                violations.append((key, r))
        if fin.get("inconclusive"):
            reasons["finalize: " + str(fin["inconclusive"])] = 1

    wall = time.time() - t0
    # ----- fold
    min_held = getattr(mon, "MIN_HELD", {}).get(tier, 1)
    max_inc = getattr(mon, "MAX_INCONCLUSIVE", 0.10)
    hard_reasons = set(getattr(mon, "HARD_INCONCLUSIVE", ("hook-missing", "monitor-not-reached")))
    inconclusive_msgs = []
    if args.replay or args.limit:
        min_held = 0
    conclusive = counts["held"] + counts["violated"]
    if conclusive < min_held:
        inconclusive_msgs.append("only %d conclusive cases (< %d)" % (conclusive, min_held))
    soft_inc = sum(c for k, c in reasons.items() if not k.startswith("expected:"))
    if n and soft_inc / float(n) > max_inc:
        inconclusive_msgs.append("inconclusive share %d/%d > %.0f%% %s" % (soft_inc, n, max_inc * 100, json.dumps(reasons)))
    for hr in hard_reasons:
        for k in reasons:
            if k.startswith(hr):
                inconclusive_msgs.append("%s x%d" % (k, reasons[k]))
    for k in reasons:
        if k.startswith("finalize: "):
            inconclusive_msgs.append(k)

    # ----- evidence
    for k in list(observed):
        if isinstance(observed[k], set):
            vals = sorted(observed[k])
            observed[k] = {"distinct": len(vals), "values": vals[:40]}
    if not samples:
        samples = [{"note": "no sample captured"}]
    cov = {
        "evaluations": n,
        "distinct_nontrivial": len(distinct),
        "rule": getattr(mon, "RULE", ""),
        "samples": samples,
        "held": counts["held"],
        "violated": counts["violated"],
        "inconclusive": counts["inconclusive"],
        "inconclusive_reasons": reasons,
        "inconclusive_samples": inc_samples,
        "observed": observed,
        "known_findings_hit": {k: len(v) for k, v in known_hits.items()},
        "new_violation_mechanisms": sorted({str(k) for k, _ in violations}),
        "workers": jobs,
        "worker_restarts": restarts,
        "repo": REPO,
    }
    ex = getattr(mon, "EXHAUSTIVE", {}).get(tier)
    if ex is not None and not args.limit:
        cov["exhaustive"] = bool(ex)
    cov.update(extra_cov)
    ev = {
        "property_id": prop,
        "tier": tier,
        "seed": seed,
        "level": getattr(mon, "LEVEL", "exploration"),
        "coverage": cov,
        "assumptions": getattr(mon, "ASSUMPTIONS", []),
        "wall_s": round(wall, 2),
        "violations": len(violations),
    }
    if not args.replay and not args.no_evidence and not args.limit:
        os.makedirs(os.path.join(VERIF, "evidence"), exist_ok=True)
        tmp = os.path.join(VERIF, "evidence", "%s.json.tmp" % prop)
        with open(tmp, "w") as f:
            json.dump(ev, f, indent=1, default=str)
        os.replace(tmp, os.path.join(VERIF, "evidence", "%s.json" % prop))

    # ----- report
    print(
        "%s tier=%s seed=%d cases=%d held=%d violated=%d inconclusive=%d distinct_nontrivial=%d wall=%.1fs"
        % (prop, tier, seed, n, counts["held"], counts["violated"], counts["inconclusive"], len(distinct), wall)
    )
    if reasons:
        print("  inconclusive reasons: %s" % json.dumps(reasons))
    short_obs = {k: v if not isinstance(v, dict) else v.get("distinct") for k, v in observed.items()}
    print("  observed: %s" % json.dumps(short_obs, default=str))
    for key, rs in sorted(known_hits.items()):
        print("KNOWN-FINDING: property=%s %s -- %s (%d cases this run)" % (prop, key, known[key].get("what_fails", ""), len(rs)))
    rc = 0
    if violations:
        rdir = os.path.join(VERIF, "replays", prop)
        os.makedirs(rdir, exist_ok=True)
        seen_keys = {}
        for key, r in violations:
            seen_keys.setdefault(key, []).append(r)
        for key, rs in seen_keys.items():
            r = min(rs, key=lambda x: len(json.dumps(x, default=str)))
            h = case_hash(r)[:12]
            path = os.path.join(rdir, "%s.json" % h)
            with open(path, "w") as f:
                json.dump({"property": prop, "mechanism": key, "count": len(rs), "case": r.get("case"), "result": r}, f, indent=1, default=str)
            print("VIOLATION property=%s replay=%s mechanism=%s cases=%d" % (prop, path, key, len(rs)))
            w = r.get("witness")
            if w is not None:
                print("  witness: %s" % json.dumps(w, default=str)[:1500])
        rc = 1
    elif inconclusive_msgs:
        for m in inconclusive_msgs:
            print("INCONCLUSIVE property=%s reason=%s" % (prop, m))
        for smp in inc_samples[:3]:
            print("  inconclusive sample: %s" % json.dumps(smp, default=str)[:1200])
        rc = 2
    subprocess.call(["rm", "-rf", logdir]) if rc == 0 else print("  worker logs: %s" % logdir)
    return rc


if __name__ == "__main__":
    sys.exit(main())
