"""Runtime-monitoring machinery for the NeMo-Guardrails properties C01..C20.

Layout: run.py (parent: sharding, verdict folding, evidence), worker.py (one
long-lived subprocess per core), steps.py (logical step budget), fakes.py,
v2h.py (Colang 2 micro harness), rails.py (LLMRails harness), mon_cXX.py (one
monitor per property).
"""
import os

REPO = os.environ.get("VERIF_REPO", "/repo")
VERIF = os.path.dirname(os.path.dirname(os.path.abspath(__file__)))
