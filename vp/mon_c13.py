"""C13 -- parsing ignores meaningless layout and reports every bad file as a
Colang parsing error that names the file.

Two case families.

(a) layout (metamorphic): the real `parse_colang_file` runs on a Colang source
    and on a copy with blank lines / whitespace-only lines / trailing spaces /
    end-of-line comments (2.x only) / indentation x2, x3 / all together.  The
    two results must be equal once positions and source text are stripped.
    Sources: every shipped .co file (version decided like the loader would) and
    generated valid programs (for those the flow names and every string literal
    the generator wrote must also be found in the result).

(b) robustness: the real `RailsConfig.from_path(dir)` runs on a directory with a
    `config.yml` (colang_version 1.0 or 2.x) and ONE .co file holding mutated /
    truncated shipped sources or token soups.  Allowed outcomes: a config, or
    `ColangParsingError` whose text contains the file path.  Hangs are decided by
    a logical step budget (sys.monitoring PY_START on the repo's parser/loader
    modules and lark's lexer/LALR driver), proportional to the input length.
"""
import hashlib
import os
import random

from . import REPO

PROPERTY = "C13"
LEVEL = "exploration"
RULE = (
    "layout case = (shipped .co file | generated valid program, Colang version, transform in {blank, blank_ws, trail, "
    "trail_tab, comment(2.x), comment_ellipsis(2.x), indent2, indent3, combo}, per-line coin seed); non-trivial = the transform changed >=1 line and the "
    "base parse has >=1 flow or message. robustness case = (version, kind in {mut, soup}, seed file window, seed); "
    "non-trivial = text differs from its seed window and the version heuristic let the real parser run on it; "
    "distinct = sha1(version, transformed/mutated text)"
)
MIN_HELD = {"quick": 2000, "thorough": 20000}
MAX_INCONCLUSIVE = 0.10
EXHAUSTIVE = {"quick": False, "thorough": False}
ASSUMPTIONS = [
    "layout oracle: json of the parse result without _source/_source_mapping(line numbers, line_text)/source_code must be "
    "byte-identical; the 1.0 `comment` attached to an element is kept (it is semantic: bot instruction)",
    "lines inside triple-quoted strings, 1.0 multi-line strings/doc comments are never touched; no blank line is inserted "
    "inside a 1.0 `\\`/` or` continuation; no comment/trailing space is added to a line holding a triple quote",
    "generated programs are accepted (100% of 12000 calibration seeds) by the unchanged tree; a rejected one is a violation",
    "robustness oracle: isinstance(exc, ColangParsingError) and file path in str(exc), or a RailsConfig returned",
    "hang = logical steps of parsing the case file > K*(len(text)+50), K=500 for 2.x (lark lexer/LALR driver counted; max 9.7 "
    "steps/char over all shipped files) and K=60 for 1.0 (max 1.04), i.e. >= 50x head-room; the rest of from_path (directory "
    "walk, imported library files) runs under 500*(chars of all importable library .co files); the wall-clock watchdog only "
    "yields inconclusive",
    "valid Unicode only (no lone surrogates); files are written as UTF-8",
    "import statements whose quoted path exists on this machine are skipped (expected: they would load foreign directories)",
]
SAMPLE_EVERY = 499
CASE_WALL_S = 90
HARD_INCONCLUSIVE = ("hook-missing", "monitor-not-reached")

STEP_K = {"2.x": 500, "1.0": 60}  # >= 50x the maximum steps/char seen on the shipped files (9.7 with lark, 1.04)
CO_ROOTS = ("nemoguardrails", "examples", "tests")
FILE_NAME = "c13_case_file.co"
_LOOP_TOOL = 4  # sys.monitoring tool id of the loop-frame analysis (vp.steps uses 3)


def _budget(n_chars, ver):
    return STEP_K.get(ver, 500) * (n_chars + 50)


def shipped_files(repo=None):
    repo = repo or REPO
    out = []
    for r in CO_ROOTS:
        for dp, dn, fn in os.walk(os.path.join(repo, r)):
            dn.sort()
            for f in sorted(fn):
                if f.endswith(".co"):
                    out.append(os.path.relpath(os.path.join(dp, f), repo))
    return sorted(out)


def cases(tier, seed):
    from . import c13_gen as g

    files = shipped_files()
    quick = tier == "quick"
    i = 0
    # ---- (a) layout over shipped files
    reps = 2 if quick else 8
    for path in files:
        try:
            has_ellipsis = bool(g.ELLIPSIS_ONLY.search(open(os.path.join(REPO, path), encoding="utf-8").read()))
        except (OSError, UnicodeDecodeError):
            has_ellipsis = True
        for tf in g.TRANSFORMS:
            if tf == "comment_ellipsis" and not has_ellipsis:
                continue
            for rep in range(reps):
                if tf.startswith("indent") and rep > 0:
                    continue
                i += 1
                yield {"id": i, "fam": "layout", "src": "file", "path": path, "tf": tf, "dense": rep == 0, "seed": "%d-%d" % (seed, rep)}
    # ---- (a) layout over generated valid programs
    ngen = 250 if quick else 2000
    for n in range(ngen):
        for ver in ("2.x", "1.0"):
            has_ellipsis = ver == "2.x" and bool(g.ELLIPSIS_ONLY.search(g.gen_v2("%d-%d" % (seed, n))[0]))
            for tf in g.TRANSFORMS:
                if not g.applicable(tf, ver) or (tf == "comment_ellipsis" and not has_ellipsis):
                    continue
                i += 1
                yield {"id": i, "fam": "layout", "src": "gen", "ver": ver, "gseed": "%d-%d" % (seed, n), "tf": tf, "dense": n % 2 == 0, "seed": "%d-%d" % (seed, n)}
    # ---- (b') directed: arrangements of import statements
    for n in range(40 if quick else 400):
        i += 1
        yield {"id": i, "fam": "robust", "ver": "2.x", "kind": "imports", "seed": "%d-%d" % (seed, n)}
    # ---- (b) robustness
    nrob = 6000 if quick else 80000
    rng = random.Random("c13-cases-%d" % seed)
    for n in range(nrob):
        ver = "2.x" if n % 2 == 0 else "1.0"
        kind = "soup" if n % 4 >= 2 and n % 8 < 6 else "mut"
        i += 1
        c = {"id": i, "fam": "robust", "ver": ver, "kind": kind, "seed": "%d-%d" % (seed, n)}
        if kind == "mut":
            c["path"] = rng.choice(files) if files else None
            c["gen"] = rng.random() < 0.15
            c["cross"] = rng.random() < 0.1
        yield c


# ----------------------------------------------------------------------------
# worker side
# ----------------------------------------------------------------------------
_W = {}


def setup_worker():
    import importlib
    import tempfile

    from . import steps

    import nemoguardrails.colang as colang
    from nemoguardrails.colang.v2_x.lang.colang_ast import Source
    from nemoguardrails.colang.v2_x.runtime.errors import ColangParsingError
    from nemoguardrails.rails.llm import config as cfgmod

    for name in ("parse_colang_file", "_parse_colang_files_recursively", "_load_imported_paths", "format_colang_parsing_error_message", "colang_path_dirs"):
        if not hasattr(cfgmod, name):
            raise RuntimeError("nemoguardrails.rails.llm.config.%s is gone" % name)
    if not hasattr(colang, "_is_colang_v2"):
        raise RuntimeError("nemoguardrails.colang._is_colang_v2 is gone")
    names = [
        "nemoguardrails.colang",
        "nemoguardrails.rails.llm.config",
        "nemoguardrails.colang.v1_0.lang.colang_parser",
        "nemoguardrails.colang.v1_0.lang.comd_parser",
        "nemoguardrails.colang.v1_0.lang.coyml_parser",
        "nemoguardrails.colang.v1_0.lang.utils",
        "nemoguardrails.colang.v1_0.lang.parser",
        "nemoguardrails.colang.v2_x.lang.parser",
        "nemoguardrails.colang.v2_x.lang.transformer",
        "nemoguardrails.colang.v2_x.lang.utils",
        "nemoguardrails.colang.v2_x.lang.colang_ast",
        "lark.lexer",
        "lark.parsers.lalr_parser",
        "lark.parsers.lalr_parser_state",
        "lark.parser_frontends",
        "lark.indenter",
        "lark.visitors",
        "lark.parse_tree_builder",
    ]
    mods = []
    for n in names:
        try:
            mods.append(importlib.import_module(n))
        except ImportError:
            if n.startswith("nemoguardrails"):
                raise
    _W["codes"] = steps.install(mods)
    # the loader's own loops (import resolution, directory walk) make no calls into the parser while they spin:
    # count their jumps too (sys.monitoring JUMP events, local to these code objects)
    import sys as _sys

    mon = _sys.monitoring
    try:
        mon.use_tool_id(5, "vp-c13-loader-jumps")
    except ValueError:
        pass
    _W["jumps"] = {"n": 0, "budget": None}

    def on_jump(code, src, dst):
        j = _W["jumps"]
        j["n"] += 1
        if j["budget"] is not None and j["n"] > j["budget"]:
            j["budget"] = None
            raise steps.StepBudgetExceeded("loader loop in %s made more than %d jumps" % (code.co_name, j["n"] - 1))

    mon.register_callback(5, mon.events.JUMP, on_jump)
    njump = 0
    for fname_ in ("_load_imported_paths", "_load_path", "_join_config", "_parse_colang_files_recursively"):
        fn_ = getattr(cfgmod, fname_, None)
        if fn_ is not None:
            mon.set_local_events(5, fn_.__code__, mon.events.JUMP)
            njump += 1
    if njump < 3:
        raise RuntimeError("loader functions to watch vanished from rails/llm/config.py (%d found)" % njump)
    _W["code_objects"] = [co for m_ in mods for co in steps._code_objects(m_)]
    # observation point: the loader's own call of parse_colang_file (looked up through module globals)
    real_parse = cfgmod.parse_colang_file
    _W["parse_calls"] = []

    def counting_parse(filename, content, *a, **k):
        if filename != FILE_NAME:
            return real_parse(filename, content, *a, **k)
        # the case file gets its own budget, proportional to its length; whatever the loader
        # does before/after (directory walk, imported library files) runs under _W["lib_budget"]
        _W["parse_calls"].append(False)
        steps.stop()
        steps.start(_budget(len(content), k.get("version") or (a[1] if len(a) > 1 else "1.0")))
        try:
            r = real_parse(filename, content, *a, **k)
        finally:
            _W["file_steps"] = steps.stop()
            steps.start(_W["lib_budget"])
        if r:
            _W["parse_calls"][-1] = True  # {} = skipped by the version heuristic
        return r

    cfgmod.parse_colang_file = counting_parse
    lib_chars = 0
    for root in cfgmod.colang_path_dirs:
        for dp, dn, fn in os.walk(root):
            for f in fn:
                if f.endswith(".co"):
                    try:
                        lib_chars += os.path.getsize(os.path.join(dp, f))
                    except OSError:
                        pass
    grammar = os.path.join(os.path.dirname(importlib.import_module("nemoguardrails.colang.v2_x.lang.parser").__file__), "grammar", "colang.lark")
    from . import c13_gen as g

    _W.update(
        colang=colang,
        parse=colang.parse_colang_file,
        Source=Source,
        CPE=ColangParsingError,
        cfgmod=cfgmod,
        lib_budget=_budget(lib_chars + 2000, "2.x"),
        dir=tempfile.mkdtemp(prefix="c13cfg_"),
        base={},
        terminals=g.grammar_terminals(open(grammar, encoding="utf-8").read()),
        repo=os.path.realpath(os.environ.get("VERIF_REPO", REPO)),
    )
    # warm-up outside any budget: the first 2.x parse builds the (cached) LALR tables
    colang.parse_colang_file("warm.co", "flow main\n  match Ev()\n", version="2.x")
    colang.parse_colang_file("warm.co", "define flow x\n  user y\n  bot z\n", version="1.0")
    if len(_W["terminals"]) < 40:
        raise RuntimeError("grammar terminals not found in %s" % grammar)
    import atexit
    import shutil

    atexit.register(shutil.rmtree, _W["dir"], True)


_DROP = ("_source", "_source_mapping", "source_code")


def norm(o):
    """Parse result without positions and source text."""
    import dataclasses

    if dataclasses.is_dataclass(o) and not isinstance(o, type):
        if isinstance(o, _W["Source"]):
            return None
        d = {f.name: norm(getattr(o, f.name)) for f in dataclasses.fields(o) if f.name not in _DROP}
        d["__cls"] = type(o).__name__
        return d
    if isinstance(o, dict):
        d = {str(k): norm(v) for k, v in o.items() if k not in _DROP}
        sm = o.get("_source_mapping")
        if isinstance(sm, dict) and sm.get("comment") is not None:
            d["__comment"] = sm.get("comment")
        return d
    if isinstance(o, (list, tuple)):
        return [norm(x) for x in o]
    if isinstance(o, (str, int, float, bool)) or o is None:
        return o
    if hasattr(o, "value"):
        return str(o)
    return repr(type(o))


def _dump(parsed):
    import json

    return json.dumps(norm(parsed), sort_keys=True, ensure_ascii=False)


def _decide_version(path, text):
    """The version under which the repository itself loads this file: the
    nearest config.yml up the tree, the v2_x / .v1.co naming, else the loader's
    own content heuristic."""
    import yaml

    full = os.path.join(_W["repo"], path)
    d = os.path.dirname(full)
    cand = None
    while cand is None and d.startswith(_W["repo"]) and d != _W["repo"]:
        for n in ("config.yml", "config.yaml"):
            p = os.path.join(d, n)
            if os.path.exists(p):
                try:
                    y = yaml.safe_load(open(p, encoding="utf-8").read()) or {}
                    cand = str(y.get("colang_version", "1.0"))
                except Exception:
                    cand = None
                break
        d = os.path.dirname(d)
    if cand not in ("1.0", "2.x"):
        if "/v2_x/" in "/" + path or "colang_2" in path:
            cand = "2.x"
        elif path.endswith(".v1.co"):
            cand = "1.0"
        else:
            cand = "2.x" if _W["colang"]._is_colang_v2(text) else "1.0"
    return cand


def _parse(text, ver, name="layout.co"):
    from . import steps

    steps.start(_budget(len(text), ver))
    try:
        return _W["parse"](name, text, version=ver)
    finally:
        _W["last_steps"] = steps.stop()


def _base_for_file(path):
    b = _W["base"].get(path)
    if b is not None:
        return b
    full = os.path.join(_W["repo"], path)
    text = open(full, encoding="utf-8").read()
    ver = _decide_version(path, text)
    tried = []
    res = None
    for v in (ver, "1.0" if ver == "2.x" else "2.x"):
        try:
            r = _parse(text, v)
        except Exception as e:  # a shipped file the parser rejects: nothing to compare
            tried.append("%s:%s" % (v, type(e).__name__))
            continue
        if r:  # {} = skipped by the loader's version heuristic
            res = (text, v, _dump(r), r)
            break
        tried.append("%s:skipped" % v)
    if res is None:
        res = (text, None, None, tried)
    if len(_W["base"]) > 400:
        _W["base"].clear()
    _W["base"][path] = res
    return res


def _count_units(parsed):
    return len(parsed.get("flows", [])) + len(parsed.get("user_messages", {})) + len(parsed.get("bot_messages", {}))


def run_layout(case):
    from . import c13_gen as g
    from . import steps

    tf = case["tf"]
    expect = None
    if case["src"] == "file":
        text, ver, base, parsed = _base_for_file(case["path"])
        label = case["path"]
        if ver is None:
            return {"verdict": "inconclusive", "reason": "shipped-file-not-parseable", "detail": "%s %s" % (label, parsed), "nontrivial": False}
    else:
        ver = case["ver"]
        text, names, toks = (g.gen_v2 if ver == "2.x" else g.gen_v1)(case["gseed"])
        label = "gen:%s:%s" % (ver, case["gseed"])
        expect = (names, toks)
        try:
            parsed = _parse(text, ver)
            base = _dump(parsed) if parsed else None
        except steps.StepBudgetExceeded:
            raise
        except Exception as e:
            parsed, base = None, "%s: %s" % (type(e).__name__, str(e)[:200])
        if not parsed:
            return {
                "verdict": "violated",
                "nontrivial": True,
                "key": "gen-reject:" + label,
                "mech": "generated-valid-program-rejected",
                "ver": ver,
                "tf": "none",
                "witness": {"program": text, "version": ver, "observed": base or "skipped by version heuristic", "expected": "flows " + repr(names)},
            }
    if not g.applicable(tf, ver):
        return {"verdict": "inconclusive", "reason": "expected: transform-not-applicable", "nontrivial": False}
    rng = random.Random("c13-tf-%s-%s-%s" % (label, tf, case["seed"]))
    new, changed = g.transform(text, ver, tf, rng, dense=case.get("dense", False))
    if new is None:
        return {"verdict": "inconclusive", "reason": changed, "nontrivial": False}
    obs = {
        "layout_compared": 1,
        "layout_%s_%s" % (ver, tf): 1,
        "lines_changed": changed,
        "max_lines_changed": changed,
        "layout_src_" + case["src"]: 1,
        "max_layout_step_ratio": 0.0,
    }
    out = {
        "key": hashlib.sha1((ver + "\0" + new).encode("utf-8", "surrogatepass")).hexdigest(),
        "nontrivial": bool(changed) and _count_units(parsed) > 0,
        "ver": ver,
        "tf": tf,
        "fam": "layout",
        "sample": {"family": "layout", "source": label, "version": ver, "transform": tf, "lines_changed": changed, "transformed_head": new[:400]},
    }
    err = None
    try:
        p2 = _parse(new, ver)
        t = _dump(p2) if p2 else None
    except steps.StepBudgetExceeded as e:
        t, err = None, "StepBudgetExceeded: %s" % e
    except Exception as e:
        t, err = None, "%s: %s" % (type(e).__name__, str(e)[:300])
    obs["max_layout_step_ratio"] = round(_W.get("last_steps", 0) / float(_budget(len(new), ver)), 5)
    mech = None
    detail = None
    if err is not None:
        mech, detail = "layout-changes-acceptance", err
    elif t is None:
        mech, detail = "layout-changes-acceptance", "transformed text skipped by the version heuristic"
    elif t != base:
        mech, detail = "layout-changes-parse", _first_diff(base, t)
    elif expect is not None:
        obs["generated_tokens_checked"] = len(expect[1])
        got = [f.get("id") if isinstance(f, dict) else getattr(f, "name", None) for f in parsed["flows"]]
        missing = [x for x in expect[1] if x not in base]
        if ver == "1.0":
            got = [x for x in got if x in expect[0]]
        if sorted(got) != sorted(expect[0]) or missing:
            mech, detail = "generated-program-content-lost", "flows %r expected %r; string literals missing from the result: %r" % (got, expect[0], missing[:5])
    if mech:
        return dict(
            out,
            verdict="violated",
            mech=mech,
            observed=obs,
            witness={"source": label, "version": ver, "transform": tf, "detail": detail, "original": text[:3000], "transformed": new[:3000]},
        )
    return dict(out, verdict="held", observed=obs)


def _first_diff(a, b):
    n = min(len(a), len(b))
    i = next((k for k in range(n) if a[k] != b[k]), n)
    return "results differ at char %d: ...%s | vs | ...%s" % (i, a[max(0, i - 80) : i + 80], b[max(0, i - 80) : i + 80])


def _robust_text(case):
    """(text, seed window or None, version of the config.yml)."""
    from . import c13_gen as g

    rng = random.Random("c13-rob-%s-%s-%s" % (case["ver"], case["kind"], case["seed"]))
    ver = case["ver"]
    if case["kind"] == "soup":
        return g.soup(ver, rng, _W["terminals"]), None, ver
    if case["kind"] == "imports":
        # arrangements of import lines (repeated, unresolvable, late, spelled twice): the file must load or be rejected
        # as a parsing error - the import resolution loop must end either way
        mods = ["core", "timing", "llm", "guardrails", "avatars"]
        picks = [rng.choice(mods) for _ in range(rng.randint(1, 3))]
        picks.insert(rng.randint(0, len(picks)), rng.choice(picks))  # one module is named twice
        if rng.random() < 0.2:
            picks.insert(rng.randint(0, len(picks)), rng.choice(["utils", "no_such_module_qq"]))  # and sometimes one cannot be resolved
        lines = ["import %s" % m_ for m_ in picks]
        if rng.random() < 0.3:
            lines.insert(rng.randint(0, len(lines)), "")
        body = "flow main\n  match Never()\n"
        if rng.random() < 0.25:
            body += "\nimport %s\n" % rng.choice(mods)
        return "\n".join(lines) + "\n\n" + body, None, "2.x"
    seed_text = None
    if not case.get("gen") and case.get("path"):
        text, fver, _b, _p = _base_for_file(case["path"])
        if fver is not None:
            seed_text = text
            if not case.get("cross"):
                ver = fver  # the version the repository itself loads this file under
    if seed_text is None:
        seed_text = (g.gen_v2 if ver == "2.x" else g.gen_v1)("rob-" + case["seed"])[0]
    s0 = g.window(seed_text, rng)
    s = s0
    for _ in range(rng.choice([1, 1, 2, 2, 3, 5])):
        s = g.mutate_once(s, rng)
    return s, s0, ver


def _import_hazard(text):
    import re

    for m in re.finditer(r"import\s*(?:\.\.\.\s*)?[\"']([^\"'\n]*)[\"']", text):
        p = m.group(1)
        if p == "" or os.path.exists(p) or os.path.isabs(p) or p.startswith("."):
            return p
    return None


def _raiser(e):
    """(file basename, function) of the innermost repository frame of the traceback, else the innermost frame."""
    import traceback

    tb = traceback.extract_tb(e.__traceback__)
    pick = None
    for fr in tb:
        if "/nemoguardrails/" in fr.filename.replace("\\", "/"):
            pick = fr
    pick = pick or (tb[-1] if tb else None)
    if pick is None:
        return "?", "?"
    return os.path.basename(pick.filename), pick.name


class _StopAnalysis(BaseException):
    pass


def _loop_frame(text, ver):
    """Where a non-terminating parse loops.  The parse is repeated with a second
    PY_START observer: after the budget has run out once, the stack depth of every
    function entry is recorded over a window of another budget+1000 entries.  The
    shallowest entry seen in the window is a direct callee of the frame that never
    returns; that caller (file:function) names the mechanism."""
    import sys

    mon = sys.monitoring
    b = _budget(len(text), ver)
    st = {"n": 0, "min": None, "name": "unknown"}

    def cb(code, offset):
        st["n"] += 1
        n = st["n"]
        if n <= b:
            return
        f = sys._getframe(1)
        depth = 0
        g = f
        while g is not None:
            depth += 1
            g = g.f_back
        if st["min"] is None or depth < st["min"]:
            st["min"] = depth
            c = f.f_back
            st["name"] = "%s:%s" % (os.path.basename(c.f_code.co_filename), c.f_code.co_name) if c is not None else "unknown"
        if n > 2 * b + 1000:
            raise _StopAnalysis()

    if not _W.get("loop_tool"):
        mon.use_tool_id(_LOOP_TOOL, "vp-c13-loop")
        _W["loop_tool"] = True
    mon.register_callback(_LOOP_TOOL, mon.events.PY_START, cb)
    for co in _W["code_objects"]:
        mon.set_local_events(_LOOP_TOOL, co, mon.events.PY_START)
    try:
        _W["parse"](FILE_NAME, text, version=ver)
        return "outside-file-parse"
    except _StopAnalysis:
        return st["name"]
    except Exception:
        return "outside-file-parse"
    finally:
        for co in _W["code_objects"]:
            mon.set_local_events(_LOOP_TOOL, co, 0)
        mon.register_callback(_LOOP_TOOL, mon.events.PY_START, None)


def run_robust(case):
    from . import steps

    text, seed_text, ver = _robust_text(case)
    try:
        data = text.encode("utf-8")
    except UnicodeEncodeError:
        return {"verdict": "inconclusive", "reason": "expected: not-valid-unicode", "nontrivial": False}
    hz = _import_hazard(text)
    if hz is not None:
        return {"verdict": "inconclusive", "reason": "expected: import-of-existing-path", "detail": hz, "nontrivial": False}
    d = _W["dir"]
    with open(os.path.join(d, "config.yml"), "w", encoding="utf-8") as f:
        f.write('colang_version: "%s"\nmodels: []\n' % ver)
    fpath = os.path.join(d, FILE_NAME)
    with open(fpath, "wb") as f:
        f.write(data)
    with open(fpath, "r", encoding="utf-8") as f:
        content = f.read()  # what the loader will see (universal newlines: \r\n and \r become \n)
    budget = _budget(len(content), ver)
    del _W["parse_calls"][:]
    _W["file_steps"] = 0
    outcome = None
    info = {}
    steps.start(_W["lib_budget"])
    _W["jumps"].update(n=0, budget=2_000_000)
    # loading a file of a few kB takes milliseconds of CPU; 40 s of CPU time inside ONE load is a hang that makes neither
    # calls nor jumps (a regular expression backtracking exponentially)
    steps.cpu_start(40)
    try:
        from nemoguardrails import RailsConfig

        RailsConfig.from_path(d)
        outcome = "ok"
    except _W["CPE"] as e:
        msg = str(e)
        cause = e.__cause__
        info = {"message": msg[:400], "cause": type(cause).__name__ if cause is not None else "none"}
        outcome = "parsing-error" if fpath in msg else "parsing-error-without-file"
    except steps.StepBudgetExceeded as e:
        outcome = "step-budget"
        info = {"message": str(e)}
        if isinstance(e, steps.CpuBudgetExceeded):
            fn_, func_ = _raiser(e)
            info["where"] = "%s:%s" % (fn_, func_)
    except steps.WatchdogTimeout:
        raise
    except Exception as e:
        fn, func = _raiser(e)
        outcome = "other"
        info = {"exc_type": type(e).__name__, "raiser_file": fn, "raiser": func, "message": str(e)[:300]}
    finally:
        steps.cpu_stop()
        steps.stop()
        _W["jumps"]["budget"] = None
    used = _W["file_steps"]
    if outcome == "step-budget":
        msg_ = info.get("message", "")
        if "CPU-time budget" in msg_:
            info["loop_frame"] = "cpu-time:" + info.get("where", "?")
        elif msg_.startswith("loader loop in "):
            info["loop_frame"] = "config.py:" + msg_[len("loader loop in "):].split(" ")[0]
        else:
            info["loop_frame"] = _loop_frame(content, ver)
    reached = len(_W["parse_calls"])
    parsed_really = any(_W["parse_calls"])
    obs = {
        "robust_cases": 1,
        "robust_%s_%s" % (ver, case["kind"]): 1,
        "outcome_" + outcome: 1,
        "max_robust_step_ratio": round(used / float(budget), 5),
        "max_robust_steps_per_char": round(used / float(len(content) + 50), 2),
        "loader_parse_calls": reached,
    }
    if outcome == "parsing-error":
        obs["wrapped_exception_classes"] = [info["cause"]]
        obs["wrapped_%s" % ver] = 1
    if outcome == "ok":
        obs["accepted_%s" % ver] = 1
        if not parsed_really:
            obs["accepted_because_skipped_by_version_heuristic"] = 1
    out = {
        "key": hashlib.sha1((ver + "\0" + text).encode("utf-8")).hexdigest(),
        "nontrivial": text != seed_text and (outcome != "ok" or parsed_really),
        "ver": ver,
        "fam": "robust",
        "outcome": outcome,
        "exc_type": info.get("exc_type"),
        "loop_frame": info.get("loop_frame"),
        "raiser": info.get("raiser"),
        "raiser_file": info.get("raiser_file"),
        "sample": {"family": "robust", "version": ver, "kind": case["kind"], "text_head": text[:300], "outcome": outcome, "info": info},
    }
    if outcome in ("ok", "parsing-error"):
        if reached == 0:
            return dict(out, verdict="inconclusive", reason="monitor-not-reached", observed=obs, detail="from_path never called config.parse_colang_file for the case file")
        return dict(out, verdict="held", observed=obs)
    return dict(
        out,
        verdict="violated",
        observed=obs,
        witness={
            "colang_version": ver,
            "kind": case["kind"],
            "file_text": text[:4000],
            "expected": "a RailsConfig or ColangParsingError naming %s" % fpath,
            "observed": outcome,
            "info": info,
            "steps": used,
            "budget": budget,
        },
    )


def run_case(case):
    if case.get("fam") == "layout":
        return run_layout(case)
    return run_robust(case)


def classify(r):
    """Mechanism = exception type + raising function (robustness) or kind of
    difference + version + transform family (layout)."""
    if r.get("fam") == "robust" or r.get("outcome"):
        o = r.get("outcome")
        if o == "other":
            if r.get("raiser") == "format_colang_parsing_error_message":
                return "error-formatter-assumes-line"
            if r.get("exc_type") == "ValueError" and r.get("raiser") == "_load_imported_paths":
                return "unresolved-import-valueerror"
            return "escaped:%s@%s:%s" % (r.get("exc_type"), r.get("raiser_file"), r.get("raiser"))
        if o == "step-budget":
            return "nonterminating@%s" % r.get("loop_frame")
        return "%s:%s" % (o, r.get("ver"))
    tf = r.get("tf", "?")
    if tf == "comment_ellipsis":
        return "comment-after-ellipsis-shortcut"
    if tf == "trail_tab" and r.get("ver") == "2.x" and r.get("mech") == "layout-changes-acceptance":
        return "trailing-tab-rejected-2.x"
    fam = "indent" if tf.startswith("indent") else "blank" if tf.startswith("blank") else tf
    return "%s:%s:%s" % (r.get("mech", "layout"), r.get("ver"), fam)


def finalize(tier, seed, observed, counts):
    """Cross-case obligation: both families, both versions and every transform
    were actually exercised; both allowed robustness outcomes were seen."""
    need = ["layout_compared", "robust_cases", "outcome_ok", "outcome_parsing-error", "layout_src_file", "layout_src_gen", "generated_tokens_checked"]
    for ver in ("1.0", "2.x"):
        need += ["robust_%s_mut" % ver, "robust_%s_soup" % ver, "layout_%s_blank" % ver, "layout_%s_trail" % ver, "layout_%s_indent2" % ver]
    need += ["layout_2.x_comment", "layout_2.x_comment_ellipsis", "layout_2.x_trail_tab", "layout_1.0_trail_tab"]
    missing = [k for k in need if not observed.get(k)]
    cov = {"step_budget_per_char": dict(STEP_K), "obligations_checked": len(need)}
    if missing:
        return {"coverage": cov, "inconclusive": "never exercised: %s" % ",".join(missing)}
    return {"coverage": cov}
