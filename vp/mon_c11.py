"""C11 — a saved or aged conversation state continues exactly like the live one.

Differential monitor over every cut point c of a history h = h1.h2:
  live      : state after h1, continue with h2
  restored  : json_to_state(state_to_json(state after h1)), continue with h2
  aged      : restored, clock advanced by 6 s (> the 5 s clean-up age) before h2
  aged-live : a second live state after h1 with the clock advanced before h2
All branches replay identical ControlledRandom seeds under a frozen FakeClock;
outgoing events are compared up to fresh identifiers (uuids -> first-occurrence
indices, timestamps dropped).
"""
import random
import re

PROPERTY = "C11"
LEVEL = "exploration"
RULE = (
    "case = (generated hierarchy program + a variable-holder flow with set / nested list / shared reference / dict / regex / flow, action and event "
    "references, event history of 8 events incl. action Finished and the variable dump/probe events); inside the case EVERY cut point 0..len is "
    "exercised with four branches (live, restored, restored+aged, live+aged). non-trivial = at some cut the state had >=1 finished/stopped and >=1 "
    "running non-main flow instance; distinct = (program, history)"
)
MIN_HELD = {"quick": 200, "thorough": 4000}
ASSUMPTIONS = [
    "equality is up to identifiers: uuid-like substrings are replaced by first-occurrence indices per branch; timestamps dropped",
    "the interpreter is deterministic apart from random.choice (same seed replayed in every branch) and uuid values",
    "FakeClock replaces datetime in statemachine.py and flows.py, so no branch ages by accident",
]
SAMPLE_EVERY = 61
CASE_WALL_S = 150

UUID = re.compile(r"[0-9a-f]{8}-[0-9a-f]{4}-[0-9a-f]{4}-[0-9a-f]{4}-[0-9a-f]{12}|\(([a-z ]+)\)[0-9a-f]{8}-[0-9a-f-]{4,}|[0-9a-f]{4}-[0-9a-f]{4}-[0-9a-f]{4}-[0-9a-f]{4}-[0-9a-f]{12}")

VAR_LINES = {
    "set": ('$s = {"x", "y"}', "s=$s"),
    "nested": ('$l = [1, {"k": [2, 3]}, [[4]]]', "l=$l"),
    "shared": ("$l2 = $l", "l2=$l2"),
    "dict": ('$d = {"a": {"b": [1, 2]}, "c": None}', "d=$d"),
    "str": ('$t = "q\\"uote üni"', "t=$t"),
    "num": ("$n = 2.5", "n=$n"),
    "regex": ('$r = regex("a+")', None),
    "flowref": ("start helper as $href", "hstatus=$href.status"),
    "actionref": ("start HolderAction() as $aref", None),
    # an action whose start arguments are arbitrary values: a dict that looks like the serialiser's own markers, a set
    "actionargs": ('start PayloadAction(payload={"__type": "ref", "__id": 5}, more=[{"__type": "set", "value": [1]}], tags={"a", "b"}) as $pref', "pargs=$pref.start_event_arguments"),
    "markerdict": ('$md = {"__type": "ref", "__id": 7, "inner": {"__type": "Foo"}}', "md=$md"),
}


def holder_flow(rng):
    picks = [k for k in ("set", "nested", "shared", "dict", "str", "num", "regex", "flowref", "actionref", "actionargs", "markerdict") if rng.random() < 0.6]
    if "shared" in picks and "nested" not in picks:
        picks.insert(0, "nested")
    picks.sort(key=lambda k: ["set", "nested", "shared", "dict", "str", "num", "regex", "flowref", "actionref", "actionargs", "markerdict"].index(k))
    lines = ['@loop("vars")', "flow varholder"]
    dump = []
    for k in picks:
        lines.append("  " + VAR_LINES[k][0])
        if VAR_LINES[k][1]:
            dump.append(VAR_LINES[k][1])
    if "regex" in picks:
        lines.append("  match Probe(x=$r)")
        lines.append("  send RegexOk()")
    lines.append("  match Dump()")
    lines.append("  send Vars(%s)" % ", ".join(dump or ["none=1"]))
    lines.append("  match NeverV()")
    src = "\n".join(lines) + '\n\n@loop("vars")\nflow helper\n  match HelperGo()\n  send HelperDone()\n'
    return src, picks


# Template programs for state shapes random hierarchies rarely reach: an action shared by two flows
# (identical-action co-winners) whose first owner ends long before the action finishes; a flow variable
# referring to a finished flow / action that is read after the clean-up age; an activated flow restarted
# after its old instance aged away.
TEMPLATES = {
    # two names for ONE list / dict object before the cut; after the cut one name is updated in place, the other one is reported
    "alias-made-before-cut": (
        "flow main\n  activate varholder\n  $a = [1, 2]\n  $b = $a\n  $d = {\"k\": [1]}\n  $e = $d\n  match A()\n  ($a.append(3))\n  ($d[\"k\"].append(2))\n"
        "  send Rep(a=$a, b=$b, d=$d, e=$e)\n  match A()\n  ($b.append(4))\n  send Rep(a=$a, b=$b)\n  match Never()\n",
        [["X", "A", "A"], ["A", "X", "A"], ["A", "A"]],
    ),
    "int-keyed-dict": (
        "flow main\n  activate varholder\n  $d = {1: \"x\", 2: \"y\"}\n  match A()\n  send Rep(v=$d[1], d=$d)\n  match Never()\n",
        [["X", "A"], ["A"]],
    ),
    # a dict variable that got its value from another variable / came in as a flow parameter (an interpreter-held dict object
    # in the live state, a plain dict after a restore); after the cut it is copied by name, one name is updated in place,
    # the other one is reported
    "dict-copied-by-name-after-cut": (
        "flow main\n  activate varholder\n  $order = {\"n\": 1, \"items\": [\"a\"]}\n  $cart = $order\n  start keeper $cart\n  match A()\n"
        "  $alias = $cart\n  ($cart.update({\"n\": 2}))\n  send Rep(w=\"main\", alias=$alias, cart=$cart, order=$order)\n  match A()\n"
        "  send Rep2(e=$alias)\n  match Never()\n\n"
        "flow keeper $basket\n  match B()\n  $mine = $basket\n  ($basket.update({\"k\": 9}))\n  send Rep(w=\"keeper\", mine=$mine, basket=$basket)\n  match B()\n"
        "  start reporter $mine\n  match Never()\n\n"
        "flow reporter $got\n  send Rep(w=\"reporter\", got=$got)\n  match Never()\n",
        [["X", "A", "B", "A", "B"], ["B", "A", "X", "B", "A"], ["A", "A", "B", "B"]],
    ),
    # flows called with the same parameter name and the same scalar value: their local contexts are equal, key for key, when the
    # state is saved; afterwards one of them reassigns its parameter and the others report theirs
    "equal-contexts": (
        "flow main\n  activate varholder\n  start fa 10\n  start fb 10\n  start fc 10\n  match Never()\n\n"
        "flow fa $points\n  match A()\n  $points = $points * 2\n  send Rep(w=\"a\", p=$points)\n  match A()\n  send Rep(w=\"a\", p=$points)\n\n"
        "flow fb $points\n  match B()\n  send Rep(w=\"b\", p=$points)\n  match B()\n  $points = \"other\"\n  send Rep(w=\"b\", p=$points)\n\n"
        "flow fc $points\n  match C()\n  send Rep(w=\"c\", p=$points)\n  match C()\n  send Rep(w=\"c\", p=$points)\n",
        [["X", "A", "B", "C", "A", "B", "C"], ["A", "X", "C", "B", "B", "A", "C"], ["X", "X", "B", "A", "C", "C"]],
    ),
    "shared-action-owner-ends-first": (
        "flow main\n  activate varholder\n  start fa\n  start fb\n  match Never()\n\n"
        "flow fa\n  match Go()\n  start SharedAction() as $s\n\n"
        "flow fb\n  match Go()\n  start SharedAction() as $s\n  match $s.Finished()\n  send DoneB()\n  match Tail()\n  send TailB()\n",
        [["Go", "X", ["FIN", 0], "Tail", "X"], ["Go", ["FIN", 0], "Tail"], ["X", "Go", "X", "X", ["FIN", 0], "Tail"]],
    ),
    "finished-flow-referenced-later": (
        "flow main\n  activate varholder\n  start fb as $ref\n  match $ref.Finished()\n  match Ask()\n  send Answer(s=$ref.status, u=$ref.uid)\n  match Never()\n\n"
        "flow fb\n  match B()\n  start WorkAction() as $w\n",
        [["B", "X", "Ask", "X"], ["X", "B", "Ask"], ["B", "Ask", "Ask"]],
    ),
    "finished-action-referenced-later": (
        "flow main\n  activate varholder\n  start WorkAction() as $w\n  match $w.Finished()\n  match Ask()\n  send Answer(s=$w.status)\n  match Never()\n",
        [[["FIN", 0], "X", "Ask"], ["X", ["FIN", 0], "Ask", "X"]],
    ),
    # a member of an awaited group of flows finishes long before the group completes (its instance ages away while the
    # waiting flow's scope still names it)
    "group-member-done-before-aging": (
        "flow main\n  activate varholder\n  await (fx and fy) or fz\n  send DoneG()\n  match Tail()\n  send TailG()\n  match Never()\n\n"
        "flow fx\n  match A()\n\nflow fy\n  match B()\n\nflow fz\n  match C()\n",
        [["A", "X", "B", "Tail"], ["B", "A", "Tail"], ["A", "X", "C", "Tail", "X"], ["C", "Tail"]],
    ),
    "when-group-member-done-before-aging": (
        "flow main\n  activate varholder\n  when fx and fy\n    send DoneW()\n  or when fz\n    send OtherW()\n  match Tail()\n  send TailW()\n  match Never()\n\n"
        "flow fx\n  match A()\n\nflow fy\n  match B()\n\nflow fz\n  match C()\n",
        [["A", "X", "B", "Tail"], ["B", "X", "A", "Tail"], ["A", "C", "Tail"]],
    ),
    "or-group-of-flow-and-action": (
        "flow main\n  activate varholder\n  start fa\n  match Never()\n\n"
        "flow fa\n  await fx or WaitAction()\n  send DoneA()\n  match Tail()\n  send TailA()\n\n"
        "flow fx\n  match A()\n",
        [["X", "A", "X", "Tail"], [["FIN", 0], "X", "Tail"], ["X", "X", "A", "Tail"]],
    ),
    "activated-restart-after-aging": (
        "flow main\n  activate varholder\n  activate fz\n  match Never()\n\n"
        "flow fz\n  match Tick()\n  start FzAction() as $z\n  match $z.Finished()\n  send Tock()\n",
        [["Tick", ["FIN", 0], "X", "Tick", ["FIN", 1], "X"], ["Tick", "X", ["FIN", 0], "Tick"]],
    ),
}


def cases(tier, seed):
    base = seed * 2_000_003
    n = 260 if tier == "quick" else 6000
    for i in range(n):
        yield {"id": i, "seed": base + i, "hlen": 8 if tier == "quick" or i % 3 else 12}
    k = n
    reps = 2 if tier == "quick" else 10
    for name in sorted(TEMPLATES):
        for hi in range(len(TEMPLATES[name][1])):
            for r in range(reps):
                k += 1
                yield {"id": k, "seed": base + k, "tmpl": name, "hist": hi}
    for name in sorted(API_PROGRAMS):
        for aged in (False, True):
            for r in range(reps):
                k += 1
                yield {"id": k, "seed": base + k, "prog": name, "aged": aged}
    # the documented way to keep a Colang 2 conversation: LLMRails.generate(messages=..., state=<what the last call returned>).
    # A saved state may be continued MORE THAN ONCE (retry, regenerate, branch), by the same instance or by another one
    for r in range(30 if tier == "quick" else 300):
        k += 1
        yield {"id": k, "seed": base + k, "rails_state": True}


_S = {}


def setup_worker():
    from . import v2h

    v2h.load()
    from nemoguardrails.colang.v2_x.runtime import serialization as ser

    if not hasattr(ser, "state_to_json") or not hasattr(ser, "json_to_state"):
        raise RuntimeError("serialization API missing")
    _S["ser"] = ser


def canon(steps_out):
    m = {}

    def c(x):
        if isinstance(x, str):
            return UUID.sub(lambda mm: m.setdefault(mm.group(0), "U%d" % len(m)), x)
        if isinstance(x, dict):
            return {k: c(v) for k, v in sorted(x.items()) if k not in ("uid", "event_created_at", "source_uid")}
        if isinstance(x, (list, tuple)):
            return [c(v) for v in x]
        if isinstance(x, (set, frozenset)):
            return sorted((c(v) for v in x), key=repr)
        if isinstance(x, (int, float, bool)) or x is None:
            return x
        return c(str(x)) if not isinstance(x, str) else x

    return [[c(o) for o in step] for step in steps_out]


class Branch:
    """A state plus the list of actions it has started so far (to resolve ("FIN", k) items)."""

    def __init__(self, st, started):
        self.st = st
        self.started = list(started)
        self.finished = set()

    def note(self, out):
        for e in out:
            if e["type"].startswith("Start") and e["type"].endswith("Action"):
                self.started.append((e["type"][5:], e["action_uid"]))

    def feed(self, item, seed):
        from . import v2h

        if isinstance(item, list):  # ["FIN", k]
            if not self.started:
                return []
            idx = item[1] % len(self.started)
            if idx in self.finished:
                return []
            self.finished.add(idx)
            name, uid = self.started[idx]
            ev = {"type": name + "Finished", "action_uid": uid, "is_success": True, "return_value": None}
        elif item == "Probe":
            ev = {"type": "Probe", "x": "caaat"}
        else:
            ev = {"type": item}
        out = v2h.run(self.st, ev)
        self.note(out)
        return out


def build(src, h1, seed):
    from . import v2h

    L = v2h.load()
    L["random"].reset(seed=seed)
    L["clock"].reset()
    st = v2h.mk(src)
    b = Branch(st, [])
    b.note([dict(e) for e in st.outgoing_events])
    for item in h1:
        b.feed(item, seed)
    return b


def replay(b, h2, seed):
    from . import v2h

    L = v2h.load()
    L["random"].reset(seed=seed + 17)
    outs = []
    for item in h2:
        outs.append(b.feed(item, seed))
    return outs


RAILS_STATE_CO = '''import core

flow main
  $n = 0
  $log = []
  while True
    user said something as $u
    $n = $n + 1
    ($log.append($u.transcript))
    bot say "count {$n} after {$log}"
'''


def run_rails_state(case):
    """A tree of continuations: every returned state is kept (as the caller gets it: a plain JSON-able dict); each step continues
    from ANY saved state, on the one long-lived LLMRails instance or on a fresh one. The reply is a function of the path from
    the root (counter and list of the user texts so far)."""
    import asyncio
    import json

    from . import rails

    L = rails.load()
    rng = random.Random(case["seed"])
    base = {"key": "rails-state:%d" % case["seed"], "nontrivial": True, "fam": "rails-state", "sample": {"family": "LLMRails.generate(state=...) continuation tree", "program": RAILS_STATE_CO}}
    obs = {"rails_state_cases": 1, "continuations": 0, "continuations_of_an_already_continued_state": 0, "continuations_on_fresh_instance": 0}
    try:
        cfg = L["RailsConfig"].from_content(RAILS_STATE_CO, 'colang_version: "2.x"\nmodels: []\n')
        mk = lambda: L["LLMRails"](cfg, llm=L["RecLLM"](script=lambda p_: "", log=rails.Log()))  # noqa: E731
        shared = mk()
    except Exception as e:
        return dict(base, verdict="inconclusive", reason="app-build-failed:%s" % type(e).__name__, detail=str(e)[:300], nontrivial=False)
    nodes = [{"state": {}, "path": [], "used": 0}]
    steps_log = []
    for stepno in range(rng.randint(4, 9)):
        i = rng.randrange(len(nodes)) if rng.random() < 0.6 else len(nodes) - 1
        node = nodes[i]
        text = "w%d" % stepno
        fresh = rng.random() < 0.25
        app = mk() if fresh else shared
        state_in = json.loads(json.dumps(node["state"]))  # what a caller stores between requests
        try:
            res = asyncio.run(asyncio.wait_for(app.generate_async(messages=[{"role": "user", "content": text}], state=state_in), 60))
        except Exception as e:
            return dict(base, verdict="violated", mech="continuation-raised:%s" % type(e).__name__, observed=obs, witness={"steps": steps_log, "failing": {"from_node": i, "text": text, "fresh_instance": fresh}, "exception": str(e)[:300]})
        obs["continuations"] += 1
        obs["continuations_of_an_already_continued_state"] += int(node["used"] > 0)
        obs["continuations_on_fresh_instance"] += int(fresh)
        node["used"] += 1
        path = node["path"] + [text]
        want = "count %d after %s" % (len(path), path)
        got = [m_.get("content") for m_ in (res.response or []) if isinstance(m_, dict)]
        steps_log.append({"from_node": i, "already_continued": node["used"] - 1, "fresh_instance": fresh, "text": text, "reply": got})
        if got != [want]:
            return dict(base, verdict="violated", mech="restored-differs:continued-state" + (":second-continuation" if node["used"] > 1 else ""), observed=obs,
                        witness={"steps": steps_log, "expected_reply": want, "got": got, "path_of_user_texts": path})
        nodes.append({"state": res.state, "path": path, "used": 0})
    return dict(base, verdict="held", observed=obs)


def run_case(case):
    if case.get("rails_state"):
        return run_rails_state(case)
    if case.get("prog"):
        return run_api(case)
    from . import gen_v2, steps, v2h

    L = v2h.load()
    ser = _S["ser"]
    rng = random.Random(case["seed"])
    hsrc, picks = holder_flow(rng)
    if case.get("tmpl"):
        tsrc, thists = TEMPLATES[case["tmpl"]]
        src = tsrc + "\n" + hsrc
        hist = list(thists[case["hist"]]) + ["Dump"]
        picks = picks + ["tmpl:" + case["tmpl"]]
        case = dict(case, hlen=0)
    else:
        g = gen_v2.gen_hierarchy(rng, max_flows=5, with_vars=rng.random() < 0.5, loops=rng.random() < 0.2, main_kids_first=True, ext_end=rng.random() < 0.3)
        src = g["src"].replace("flow main\n", "flow main\n  activate varholder\n", 1) + "\n" + hsrc
        hist = []
    for _ in range(case["hlen"]):
        r = rng.random()
        if r < 0.2:
            hist.append(["FIN", rng.randint(0, 7)])
        elif r < 0.3:
            hist.append("Dump")
        elif r < 0.38:
            hist.append("Probe")
        elif r < 0.44:
            hist.append("HelperGo")
        else:
            hist.append("E%d" % rng.randint(1, 3))
    if "Dump" not in hist:
        hist.append("Dump")
    hist = [list(h) if isinstance(h, (list, tuple)) else h for h in hist]
    base = {"key": repr((src, hist)), "picks": picks, "sample": {"program": src, "history": hist, "variables": picks}, "tmpl": case.get("tmpl")}
    obs = {"round_trips": 0, "cuts": 0, "max_json_kb": 0, "cleanups_removed_instances": 0, "events_compared": 0}
    for k in picks:
        obs[("tmpl_" + k[5:]) if k.startswith("tmpl:") else ("var_" + k)] = 1
    nontrivial = False
    problems = []
    try:
        for cut in range(0, len(hist) + 1):
            h1, h2 = hist[:cut], hist[cut:]
            live = build(src, h1, case["seed"])
            st = live.st
            stat = [getattr(f.status, "value", str(f.status)) for f in st.flow_states.values() if f.flow_id != "main"]
            if any(s in ("finished", "stopped") for s in stat) and any(s in ("started", "starting") for s in stat):
                nontrivial = True
            try:
                js = ser.state_to_json(st)
            except Exception as e:
                problems.append(("serialise-failed", cut, "%s: %s" % (type(e).__name__, str(e)[:200])))
                break
            obs["max_json_kb"] = max(obs["max_json_kb"], len(js) // 1024)
            try:
                r1 = Branch(ser.json_to_state(js), live.started)
                r2 = Branch(ser.json_to_state(js), live.started)
            except Exception as e:
                problems.append(("restore-failed", cut, "%s: %s" % (type(e).__name__, str(e)[:200])))
                break
            obs["round_trips"] += 2
            live2 = build(src, h1, case["seed"])
            L["clock"].reset()
            a = b = c = d = None
            try:
                a = canon(replay(live, h2, case["seed"]))
            except steps.StepBudgetExceeded:
                raise
            except Exception as e:
                # the live run itself raises: outside this property (C10); compare nothing at this cut
                obs["live_exceptions"] = obs.get("live_exceptions", 0) + 1
                continue
            try:
                b = canon(replay(r1, h2, case["seed"]))
            except steps.StepBudgetExceeded:
                raise
            except Exception as e:
                problems.append(("restored-raises", cut, "%s: %s" % (type(e).__name__, str(e)[:200])))
                break
            n_before = len(r2.st.flow_states)
            L["clock"].advance(6)
            try:
                c = canon(replay(r2, h2, case["seed"]))
            except steps.StepBudgetExceeded:
                raise
            except Exception as e:
                problems.append(("aged-restored-raises", cut, "%s: %s" % (type(e).__name__, str(e)[:200])))
                break
            try:
                d = canon(replay(live2, h2, case["seed"]))
            except steps.StepBudgetExceeded:
                raise
            except Exception as e:
                problems.append(("aged-live-raises", cut, "%s: %s" % (type(e).__name__, str(e)[:200])))
                break
            L["clock"].reset()
            if h2 and len(r2.st.flow_states) < n_before:
                obs["cleanups_removed_instances"] += 1
            obs["cuts"] += 1
            obs["events_compared"] += sum(len(s) for s in a)
            if a != b:
                problems.append(("restored-differs", cut, _firstdiff(a, b)))
                break
            if a != d:
                problems.append(("aged-live-differs", cut, _firstdiff(a, d)))
                break
            if b != c:
                problems.append(("aged-restored-differs", cut, _firstdiff(b, c)))
                break
    except v2h.LoaderReject as e:
        return dict(base, verdict="inconclusive", reason="loader-reject", detail=str(e)[:300])
    except steps.StepBudgetExceeded:
        return dict(base, verdict="inconclusive", reason="expected:nonterminating(C10)")
    finally:
        L["clock"].reset()
    base["nontrivial"] = nontrivial
    if problems:
        kind, cut, detail = problems[0]
        return dict(base, verdict="violated", observed=obs, kind=kind, detail=str(detail)[:300], witness={"program": src, "history": hist, "cut": cut, "problem": kind, "detail": detail})
    if obs["round_trips"] == 0:
        return dict(base, verdict="inconclusive", reason="monitor-not-reached", observed=obs)
    return dict(base, verdict="held", observed=obs)


def _firstdiff(a, b):
    for i, (x, y) in enumerate(zip(a, b)):
        if x != y:
            return {"step": i, "left": x, "right": y}
    return {"len": (len(a), len(b))}


# ----------------------------------------------------------------------------- through the runtime API, with runtime-level actions
# The way LLMRails uses the state: every turn goes through RuntimeV2_x.process_events, the returned State is serialised and
# restored before the next turn. These programs use what only exists at that level: locally executed actions with return
# values, flows added / removed at run time (AddFlowsAction / RemoveFlowsAction, as the flow-generation library flows do).
API_PROGRAMS = {
    "teach-then-use": (
        "flow main\n  match Hi()\n  send Hello()\n  match Teach()\n  $src = await FetchSourceAction(which=\"a\")\n  $added = await AddFlowsAction(config=$src)\n"
        "  send Learned(n=len($added))\n  start taught a\n  match Again()\n  start taught a\n  match Never()\n",
        ["Hi", "Teach", "Again", "Merci", "X"],
    ),
    "teach-later-await": (
        "flow main\n  activate teacher\n  activate user flow\n  match Never()\n\n"
        "flow teacher\n  match Teach()\n  $src = await FetchSourceAction(which=\"b\")\n  await AddFlowsAction(config=$src)\n  send Learned()\n\n"
        "flow user flow\n  match Use()\n  await taught b\n  send Used()\n",
        ["Teach", "Use", "Merci", "Use", "Teach", "Merci"],
    ),
    "teach-remove-teach": (
        "flow main\n  match Teach()\n  $src = await FetchSourceAction(which=\"a\")\n  await AddFlowsAction(config=$src)\n  send Learned()\n  match Forget()\n"
        "  await RemoveFlowsAction(flow_ids=[\"taught a\"])\n  send Forgot()\n  match Teach()\n  $src = await FetchSourceAction(which=\"c\")\n  await AddFlowsAction(config=$src)\n"
        "  start taught a\n  match Never()\n",
        ["Teach", "X", "Forget", "Teach", "Merci"],
    ),
    "local-action-values": (
        "flow main\n  activate counter\n  match Never()\n\n"
        "flow counter\n  match Tick()\n  $v = await CountAction(step=2)\n  send Count(v=$v[\"n\"], tags=$v[\"tags\"])\n",
        ["Tick", "Tick", "X", "Tick"],
    ),
    # the library's own questions about flows ("is there a flow with this id?"), asked about a flow whose only instance finished
    # long ago: the answer must not depend on whether the finished instance has been discarded meanwhile
    "ask-about-finished-flow": (
        "flow main\n  activate asker\n  match Go()\n  await helper\n  send Done()\n  match Never()\n\n"
        "flow helper\n  send HelperRan()\n\n"
        "flow asker\n  match Check()\n  $e = await CheckValidFlowExistsAction(flow_id=\"helper\")\n  $d = await CheckFlowDefinedAction(flow_id=\"helper\")\n"
        "  $u = await CheckValidFlowExistsAction(flow_id=\"unknown flow\")\n  send Result(exists=$e, defined=$d, unknown=$u)\n",
        ["Check", "Go", "X", "Check", "X", "Check"],
    ),
}
TAUGHT = {
    "a": "flow taught a\n  send Bonjour()\n  match Merci()\n  send DeRien()\n",
    "b": "flow taught b\n  send Salut()\n  match Merci()\n",
    "c": "flow taught a\n  send Hola()\n  match Merci()\n",
}


def run_api(case):
    import asyncio

    from . import steps, v2h

    L = v2h.load()
    ser = _S["ser"]
    from nemoguardrails import RailsConfig
    from nemoguardrails.colang.v2_x.runtime.runtime import RuntimeV2_x

    name = case["prog"]
    src, hist = API_PROGRAMS[name]
    aged = bool(case.get("aged"))
    base = {"key": repr((name, aged)), "picks": ["api:" + name], "sample": {"program": src, "history": hist, "aged": aged}, "nontrivial": True}
    obs = {"api_programs": 1, "api_" + name: 1, "round_trips": 0, "cuts": 0, "events_compared": 0}

    def mkrt():
        rt = RuntimeV2_x(RailsConfig.from_content(src, 'colang_version: "2.x"\nmodels: []\n'))
        cnt = {"n": 0}

        async def fetch_source(which="a"):
            return TAUGHT[which]

        async def count(step=1):
            cnt["n"] += step
            return {"n": cnt["n"], "tags": ["t%d" % cnt["n"], {"k": (cnt["n"],)}]}

        rt.register_action(fetch_source, "FetchSourceAction")
        rt.register_action(count, "CountAction")
        # the library's flow-inspection actions, as LLMRails registers them (the methods use no instance state: no LLM, no index)
        from nemoguardrails.actions.v2_x.generation import LLMGenerationActionsV2dotx

        gen = object.__new__(LLMGenerationActionsV2dotx)
        rt.register_action(gen.check_if_flow_exists, "CheckValidFlowExistsAction")
        rt.register_action(gen.check_if_flow_defined, "CheckFlowDefinedAction")
        return rt

    async def play(cut, age):
        L["random"].reset(seed=case["seed"])
        L["clock"].reset()
        rt = mkrt()
        out, st = await rt.process_events([], None, blocking=True)
        steps_out = [out]
        for i, ev in enumerate(hist):
            if cut is not None and i == cut:
                st = ser.json_to_state(ser.state_to_json(st))
                obs["round_trips"] += 1
                if age:
                    L["clock"].advance(6.5)
            out, st = await rt.process_events([{"type": ev}], st, blocking=True)
            steps_out.append(out)
        return canon(steps_out)

    def run(cut, age=False):
        steps.start(20_000_000)
        try:
            return asyncio.run(play(cut, age))
        finally:
            steps.stop()

    try:
        live = run(None)
    except Exception as e:
        return dict(base, verdict="inconclusive", reason="api-live-run-raised:%s" % type(e).__name__, detail=str(e)[:300], observed=obs, nontrivial=False)
    if sum(len(x) for x in live) < 3:
        return dict(base, verdict="inconclusive", reason="api-live-run-silent", observed=obs, nontrivial=False)
    problems = []
    for cut in range(0, len(hist)):
        obs["cuts"] += 1
        try:
            got = run(cut, aged)
        except Exception as e:
            problems.append(("restored-raises" if not aged else "aged-restored-raises", cut, "%s: %s" % (type(e).__name__, str(e)[:200])))
            break
        obs["events_compared"] += sum(len(x) for x in live)
        if got != live:
            first = next(i for i, (a, b) in enumerate(zip(got, live)) if a != b)
            problems.append(("restored-differs" if not aged else "aged-restored-differs", cut, {"step": first, "live": live[first], "restored": got[first]}))
            break
    if problems:
        kind, cut, det = problems[0]
        return dict(base, verdict="violated", kind=kind, detail=det if isinstance(det, str) else json_dumps(det), observed=obs,
                    witness={"program": src, "history": hist, "cut": cut, "problem": kind, "detail": det, "driven_through": "RuntimeV2_x.process_events"})
    return dict(base, verdict="held", observed=obs)


def json_dumps(x):
    import json

    return json.dumps(x, default=str)[:600]


def classify(r):
    if r.get("fam") == "rails-state":
        return r.get("mech", "rails-state:unclassified")
    kind = r.get("kind", "unknown")
    det = r.get("detail", "")
    if kind == "restored-differs" and r.get("tmpl") in ("alias-made-before-cut", "int-keyed-dict"):
        # structural: the program of the template has two names for one list/dict object / a dict with int keys at the cut
        return "restored-differs:" + r["tmpl"]
    if kind == "serialise-failed" and "Unhandled type in encode_to_dict" in det:
        m = re.search(r"<class '([^']+)'>", det)
        return "value-not-serialisable:%s" % (m.group(1) if m else "?")
    if kind.endswith("raises"):
        return "%s:%s" % (kind, det.split(":")[0])
    return kind
