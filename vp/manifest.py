"""Regenerates /verif/MANIFEST.json from the registered checks below.
usage: python -m vp.manifest   (then validate with jsonschema)"""
import json
import os

from . import VERIF

ALL = ["C%02d" % i for i in range(1, 21)]

# property -> (level category, technique, level text, level note, design ref)
CHECKS = {}


def reg(pid, cat, technique, text, note, ref):
    CHECKS[pid] = (cat, technique, text, note, ref)


reg(
    "C07", "exploration",
    "differential runtime monitor: real interpreter vs. boolean evaluation of the group formula, exhaustive small scope",
    "Runs the real parser/expander/interpreter on `match`/`await`/`when`/reference-`Finished` groups for ALL and/or trees with <=4 leaves (thorough <=5, sampled to 7) and ALL ordered subsets of the leaves with irrelevant and repeated events; the marker must fire at exactly the first step the formula is true. Held on the executions observed, exhaustive in that scope; not a proof for larger formulas.",
    "trusts the 6-line formula evaluator, CPython, and that parameterless distinct events are representative of group leaves",
    "DESIGN.md §3 C07",
)

reg(
    "C01", "exploration",
    "history + reference model: rail-action wrappers, recording LLM and generate() results on one logical clock, judged by a sequential rails model",
    "~1000 (thorough ~7500) generated conversations: ALL verdict matrices {accept,reject,rewrite}^(k*turns) for k<=2, turns<=2 on the four v1 pipelines (3-step dialog, single-call, general, passthrough) and all accept/reject matrices on the v2 guardrails library, plus sampled k<=4 / 4 turns / three rail-flow shapes / rail exceptions. Per turn: rails called in configured order with the current text, none after a reject, no LLM call of the turn stamped before the last rail or after a reject, reply = the rejecting rail's refusal / exception message, and (v1) no prompt of the turn - nor of later turns - contains the original token once a rail rewrote the text.",
    "trusts the 20-line sequential model, the prompt-keyed fake LLM and harness-registered rail actions; LLM-driven library rails and third-party rails are not exercised",
    "DESIGN.md §3 C01",
)
reg(
    "C02", "exploration",
    "history + reference model on the bot text, re-evaluated on every later turn of the conversation",
    "~950 (thorough ~7500) conversations: ALL output verdict matrices for m=1 x 3 turns and m=2 x 2 turns on four v1 pipelines, all accept/reject matrices m<=2 x 3 turns on v2, plus sampled mixes of predefined-message and LLM turns. Every LLM-originated text (unique token) must be shown to all output rails in order in that turn, a rejected text never returned, a rewritten one returned rewritten - on every turn, including all turns after a reject/rewrite.",
    "as C01; output-rail verdicts are functions of the text shown and accept refusals/predefined texts",
    "DESIGN.md §3 C02",
)
reg(
    "C03", "fault_enumeration",
    "failpoints inside the registered actions at every call index of each conversation (pairs in thorough), judged by the C01/C02 model on the following turns",
    "For ~85 (thorough ~820) generated conversations whose turns replay the same verdict vector, EVERY custom-action call index of the fault-free run is faulted once (input rail, output rail, dialog action; v1 four pipelines and v2): generate must return a well-formed message, never the turn's LLM token after a rail fault, only a refusal or the internal-error text; the next turns must satisfy the full C01/C02 model.",
    "the fault-free call count comes from the sequential model (a failpoint never reached makes the case inconclusive, not held); LLM provider failures are excluded by the property",
    "DESIGN.md §3 C03",
)
reg(
    "C04", "exploration",
    "differential runtime monitor (marker vs. executable matching spec) + icontract post-condition on the real recursive scoring function",
    "20k (thorough 300k) generated (pattern, payload) pairs near the decision boundary (payload = instance of the pattern edited by add/drop/reorder/alter), through the real parser and interpreter; the marker after `match E(p=<pattern>)` must be emitted iff the 25-line spec says so, and an icontract post-condition judges every recursive call of _compute_arguments_dict_matching_score made for the test event (inner scores that cancel out are still caught). Instance clause: reference matches on two actions / two flow instances in all arrival orders. Held on the executions observed.",
    "trusts the executable spec `matches`, the generator's rendering of patterns to Colang source, icontract; cross-type numeric comparisons and regex-vs-number are outside the statement and not generated",
    "DESIGN.md §3 C04",
)
reg(
    "C08", "exploration",
    "differential runtime monitor: echoed parameters / returned value / locals vs. a 15-line binder",
    "10k (thorough 200k) generated signatures and calls (positional/named/omitted, defaults, literals, caller variables and expressions; six call forms: await, $r = await, start+match Finished, activate with restarts, await in or-group, when) plus sibling-instance scenarios; callee echoes its bound parameters and its local, caller echoes the assigned return value and its own local. Held on the executions observed.",
    "trusts the binder oracle and the literal renderer; corner cases the statement does not fix (defaults referring to parameters, same parameter twice, surplus arguments) are not generated",
    "DESIGN.md §3 C08",
)

reg(
    "C05", "exploration",
    "runtime monitor with exhaustive enumeration of the interpreter's random tie-breaks (stateless DFS over decision scripts) vs. an argmax model",
    "Generated programs of 2-5 competing flows (all specificity vectors for n<=3; random priorities, loops, shared/distinct actions with arguments, non-fitting values); for each program EVERY outcome of every random.choice is executed. Oracle per loop: winners = argmax of priority*0.9^unmentioned; one distinct action started once; co-winners finished, losers stopped, non-fitting flows untouched and still reacting to a later fitting event; over the enumeration the observed winner set must equal the argmax set. Held on the executions observed.",
    "trusts the key formula mirrored from the documentation (float expression order as in the interpreter, near-ties not generated) and ControlledRandom replacing statemachine.random",
    "DESIGN.md §3 C05",
)
reg(
    "C09", "exploration",
    "invariant at a hook: from-scratch scan of the State after every run_to_completion vs. the incremental dispatch index",
    "After every run_to_completion (both bindings) a from-scratch scan checks: no pending internal event; every listening flow's active heads are on match/WaitForHeads; no MERGING head left; ended instances hold no heads; no dangling child/action/flow-variable reference; event_matching_heads == scanned set (no missing, stale, duplicate entry, right event name); reverse map == inverse; flow_id_states == grouping. ~4e4 states (thorough ~1e6) from generated hierarchies, exhaustive 3-letter histories, and/or formulas, call-binding and conflict programs and the shipped library under UMIM streams. Held on the states observed.",
    "trusts the scan (uses the repo's is_match_op_element/get_event_name_from_element but never the index); states only reachable through ungenerated constructs are not covered",
    "DESIGN.md §3 C09",
)

reg(
    "C06", "exploration",
    "trace checker with an independent shadow hierarchy over the internal-event stream, end-of-instance stamps and Start/Stop action events, judged at quiescence",
    "6.6k (thorough 156k) generated hierarchies (start/await/activate/when-else/groups, actions named after their owner) x histories with late/early/dead-uid Finished events, plus template scenarios (shared identical action, two activators, never-waiting activated flow, nested await). At every quiescent point: ended(starter) => child not running; activated flow has exactly one running instance iff an activator runs (never two; never-waiting kind started once); every Stop preceded by Start, by no other Stop and by no fed Finished; no unfinished unstopped action all of whose owners ended. Two genuine orphan mechanisms are open known findings, recognised structurally (start stamp after the starter's end stamp; surviving restart chain of an ended instance). Held otherwise on the histories observed.",
    "trusts the hooks on five statemachine functions (looked up through module globals; 0 observed StartFlow events => case inconclusive) and status values read at quiescence; obligations are checked only when run_to_completion returns",
    "DESIGN.md §3 C06",
)

reg(
    "C10", "fault_enumeration",
    "logical step budget (sys.monitoring call counter) per run_to_completion + fault injection at every statement position x error kind with a fault-free twin run compared on unrelated witness flows",
    "(T) 1.2k (thorough 30k) generated programs (loops/recursion each with a wait, activated flows finishing/failing immediately, mutual activation, hierarchies with loops, conflict losers) x random histories: every run_to_completion must stay below B=400*(elements+flows+10) function entries into statemachine.py/eval.py. (I) for each generated victim flow EVERY statement position after its first wait x 9 error kinds is injected (marker `send AtFault()` in front), driven through RuntimeV2_x.process_events next to a fault-free twin: no exception may escape, a ColangError must reach the error-watch flow, witness flows in their own loops must emit exactly what they emit in the twin for the same and all later events.",
    "termination is decided on a logical counter, not proven: `exceeds B` stands for `does not terminate`; positions before the victim's first wait are excluded by design (a flow failing while being started fails its starter)",
    "DESIGN.md §3 C10",
)

reg(
    "C11", "exploration",
    "differential runtime monitor: live vs. JSON-restored vs. aged continuations at every cut point of a history, compared up to fresh identifiers",
    "260 (thorough 6k) generated programs (hierarchies + a variable-holder flow with set, nested/shared lists, dict, regex, flow/action references) x histories of 8-12 events; at EVERY cut point the state is serialised and restored twice, and four branches (live, restored, restored+6s, live+6s) replay the rest under a frozen fake clock and identical tie-break seeds; serialisation/restoration must succeed and all branches must emit the same events modulo uuids.",
    "trusts the canonicalisation of identifiers, FakeClock/ControlledRandom substitution; state reachable only through ungenerated constructs (LLM library flows, custom objects in variables) is not covered",
    "DESIGN.md §3 C11",
)

reg(
    "C19", "exploration",
    "controlled-interleaving explorer on a virtual-time event loop with a gated embedding model; history with unique values judged against f(text)",
    "The real BasicEmbeddingsIndex + cache_embeddings + Annoy run on a virtual-time asyncio loop; a gated fake model parks every encode_async; at every loop-idle point the driver picks the next logical event (request arrival, several arrivals in one iteration, hold timer, model return). 18.6k (thorough 118k) schedules: all small ones enumerated, larger sampled; 1-12 requests via _batch_get_embeddings / search / _get_embeddings, max_batch_size 1-5, holds 0/0.01/5 s, caches off / in_memory x {md5,hash} / filesystem x {md5,hash}, unique and duplicate/empty texts. Oracle: every vector == f(own text), list order kept, search query vector == f(query), at quiescence every request is done without exception; no-progress decided on a logical step budget.",
    "trusts the virtual-time loop's idle detection (loop-native waiting only), f = sha256-derived vector; redis store and real providers' thread-pool paths are not explored",
    "DESIGN.md §3 C19",
)

reg(
    "C18", "exploration",
    "exhaustive small-scope differential: every chunking of a text through the real StreamingHandler on three feeding paths vs. a 6-line string spec",
    "One case = (prefix, suffix, stop list, text); ALL 2^(n-1) chunkings for n<=8 (thorough n<=10) and sampled chunkings to n=40 are fed to fresh handlers on three paths (on_llm_new_token...on_llm_end with rotating chunk object types, push_chunk, push_chunk piped into a second handler). 253k (thorough 4.1M) chunkings: the joined streamed chunks and the final `.completion` must equal strip_suffix(cut_at_earliest_stop(strip_prefix(text))); 19 short configurations incl. multi-character suffixes, two-stop lists, self-overlapping stops and stops overlapping the suffix, plus the production patterns. Held on the chunkings observed (exhaustive in the stated scope).",
    "oracle order (prefix, stop, suffix) is pinned by the repository's own streaming tests; patterns changed mid-stream, buffering mode and top-k line waiting are not explored",
    "DESIGN.md §3 C18",
)
reg(
    "C20", "exploration",
    "history + reference model at the HTTP boundary: recorded realpaths of every directory handed to RailsConfig.from_path, stubbed generation recording its input messages, datastore compared with a dict model after every request",
    "The real FastAPI app through TestClient; api.RailsConfig.from_path is wrapped to record lexical and real paths, api.LLMRails is a recording stub (every 20th thread sequence uses the real LLMRails with offline fakes). ~4.8k (thorough ~31k) cases: config-id strings from a grammar (separators, dot sequences, percent/unicode encodings, absolute paths, NUL, over-long, .yml suffixes, bait directories root_evil/ and outside/, an in-root symlink) as config_id and in every position of config_ids, cold and warm cache, three server modes; and request sequences over <=3 thread ids with and without context. Oracle: every loaded realpath is the root or below it; any other id gets the fixed reply with zero generation; messages handed to generation == stored thread + new; store afterwards == that + reply; other threads unchanged.",
    "operator-placed symlinks inside the root are outside the statement; streaming with thread ids (unsupported TODO in api.py), the auto-reload watcher and the Redis store are not explored",
    "DESIGN.md §3 C20",
)

reg(
    "C12", "exploration",
    "structural invariant at a hook: icontract post-condition on the real initialize_flow + from-scratch scan of every compiled flow, with dynamic confirmation of jumps under random histories",
    "Every .co the repository ships (141 config directories, 58 loose files, docs) loaded through the real loader, plus 4000 v2 and 2000 v1 generated programs (thorough 30000/15000; nesting of if/elif/else, while, when/or when/else, break/continue, and/or groups, await/start/activate). v2: an icontract post-condition on statemachine.initialize_flow and an independent scan must agree that no composite element or non-primitive op remains, every Goto/ForkHead/CatchPatternFailure/Break/Continue label exists in the same flow and points at that Label, every MergeHeads has its ForkHead, every Break/Continue belongs to the innermost loop, and forward reachability (slide semantics) never reaches the end with an open scope nor re-enters an open one. v1: every _next/_next_else/_next_on_break/_next_on_continue/branch_heads target lands inside the flow, loop exits have the loop shape. Dynamic: generated programs are executed; an `Invalid label` log, label/fork KeyError or IndexError counts as the same violation.",
    "trusts the reachability model of slide(); duplicate label names (the per-group copies of a `when` body) are counted as an observation, not a violation; v1 jumps that are wrong but still inside the flow are outside the statement (C14 covers behaviour)",
    "DESIGN.md §3 C12",
)

reg(
    "C13", "exploration",
    "metamorphic monitor (parse result under layout transforms) + robustness fuzz of RailsConfig.from_path with an exception-type oracle and a logical step budget on the parser modules",
    "(a) every shipped .co file (185) and generated valid programs of both Colang versions are parsed by the real parser before and after blank-line / whitespace-only-line / trailing-space / trailing-tab / end-of-line-comment (2.x) / indentation x2,x3 / combined transforms; the parse results must be equal modulo positions. (b) ~6000 (thorough 80000) character/line/truncation mutations of shipped files and token soups from the grammar's terminals (valid Unicode incl. NUL, BOM, U+2028, CRLF) are loaded with RailsConfig.from_path: the outcome must be a config or ColangParsingError naming the file; hangs are decided by a per-file logical step budget (>=50x the maximum seen on valid files) on the repository's parser modules and lark's lexer/LALR driver.",
    "trusts the normaliser (positions/source text stripped, v1 comments kept as semantic) and the generators of valid programs; a hang inside one C-level regex match is invisible to the step counter (wall-clock watchdog = inconclusive)",
    "DESIGN.md §3 C13",
)
reg(
    "C14", "exploration",
    "differential runtime monitor: compute_next_steps vs. a reference interpreter of the generated AST, plus used-instance vs. fresh-instance comparison",
    "2400 (thorough 12000) generated Colang 1.0 programs (user/bot steps, set, if/else if/else, bounded while, break/continue, do subflow, execute with/without result) x 24 history runs each through the real parser, coyml conversion, sliding and compute_next_steps: at every turn that follows a flow the decided steps must equal the reference interpreter's (obligations cease where the history leaves the flow); all histories are replayed on the same flow_configs object in two orders and on a fresh object and must give identical event traces; every call runs under a logical step budget.",
    "trusts the generator-based reference interpreter (sequencing, conditions, assignment, subflow call/return); competing intents, when/else when, goto/labels are outside the property's structured subset",
    "DESIGN.md §3 C14",
)

reg(
    "C15", "exploration",
    "differential runtime monitor (shared instance vs. isolated replay) under enumerated sequential interleavings and enumerated release orders of gated LLM calls",
    "347 (thorough ~4200) conversation sets on one LLMRails instance: (1) every interleaving of the turns of <=3 conversations (enumerated up to 6/20 interleavings, sampled above) with texts built to collide in a role-free ':'-join, mimic other roles, or print like context JSON; (2) asyncio.gather of generate_async on a gated LLM whose parked calls are released in every order (<=4 calls; sampled above) with per-conversation llm_params and gated rail actions. Each conversation is then replayed alone on a fresh instance with prompt-keyed identical answers: replies, the exact prompts, the LLM attributes at every call and the texts shown to rails must be equal, and at rest the LLM attributes must be the configured ones. Two mechanisms are open known findings (LLMParams save/restore under overlap; a new model_kwargs key left as None), recognised by a save/restore model that must reproduce every observed value.",
    "trusts the prompt-keyed answer table and the gating of suspension points (asyncio interleavings at LLM and rail awaits only, no real threads); streaming handlers and observability contextvars are not compared",
    "DESIGN.md §3 C15",
)
reg(
    "C16", "exploration",
    "table-driven model check of the real LLMRails.generate with recording rail actions, recording LLM and the returned log, exhaustive over the option/verdict grid",
    "ALL 16 subsets of {input, dialog, retrieval, output} x ALL 3^(k+m) verdict vectors for k,m<=2 rails x option spellings (list, dict; thorough: partial dict, GenerationOptions object) x text pairs (incl. template/variable syntax; thorough: empty, unicode, multi-line, long) on general and dialog pipelines, plus named-rail selection and LLM-worded refusals: ~27k (thorough ~122k) cells, every one required conclusive. Oracle = the documented table: input-only reply (text / rewritten / refusal) with zero LLM calls; supplied bot message / rewritten / refusal with output; a rail wrapper fires only if its category is selected and, when selected and reached, in order; no LLM call with dialog off; log.activated_rails lists exactly the rails that ran with stop=True on exactly the blocker.",
    "verdicts are scripted in harness-registered actions; a knowledge base, blocking retrieval rails, streaming and the single-call/passthrough pipelines in combination with options are not exercised",
    "DESIGN.md §3 C16",
)

reg(
    "C17", "exploration",
    "robustness fuzz with taint tracking: hostile text at every LLM call position of real LLMRails conversations, judged on generate's result/exception and on evaluated taint markers",
    "~5600 (thorough ~24.7k) conversations of 1-3 turns on real LLMRails instances in seven modes (v1 three-step dialog, single-call, multi-step generation, general, passthrough; v2 `llm continuation` incl. generated values and flows from names, and `continuation on unhandled user utterance`). Every LLM call answers well-formed for its task except exactly one position, which returns a text from a 207-string hostile corpus, 23 taint expressions wrapped into the message slot, unquoted expressions at value positions, or mutations of the well-formed completion. Refuted by: generate raising anything but LLMCallException, exceeding the logical step budget (v1), a reply that is not a well-formed assistant/exception message, or a planted marker appearing EVALUATED in the reply (7907*7919 -> 62615533, context/flow/config secrets, `2.x`). Crashes of post-processing actions that the dispatcher contains (well-formed internal-error reply) satisfy the statement and are only counted.",
    "trusts the per-task well-formed answer script (keyed on the rendered task prompt) and the marker discipline (markers a text spells literally are dropped); streaming, embeddings_only and NLD tool flows are not driven",
    "DESIGN.md §3 C17",
)

NOT_BUILT_REASON = "check not built yet in this revision"


# Workload extensions made after the second round of independent fault seeding (DESIGN.md §7.5); appended to the level text.
ADDENDA = {
    "C01": "Also: the multi-step generation pipeline; the verdict matrices repeated with rail exceptions; a turn rewritten by one rail and rejected by a later one counts for the `no earlier original in a later prompt` clause. The later-prompt clause also covers passthrough conversations (rewritten turns that reached generation). Also configurations that list a rail twice ([a, b, a]); user texts from four families ($, quotes/braces, html); a rail shape whose action returns events of its own next to the rewritten text (open finding rewrite-lost-when-rail-action-returns-events). A generate() that raises on a valid conversation without any injected fault is a violation. Also conversations in which the user repeats the very same text in every turn; rails that say something without stopping (open finding leftover-input-rails-instance...); rail/dialog actions whose signature declares a parameter the runtime injects. Also user texts spelling references to context variables (the LLM must be shown the very characters the rails checked) and a dialog action that receives the text through a `$user_message` parameter. An eighth of the sampled v1 conversations is served statelessly (events cache emptied before every call). Also the `param` family: the library's parameterised rail (content safety check input $model=<name>) configured 2-3 times with different parameter values, all accept/reject matrices over two turns: every configured rail runs with its own parameter.",
    "C02": "Also: the multi-step generation pipeline, where the LLM writes message text inline in a generated flow. Also rails listed twice in the output list; conversations in which the LLM produces the very same text in every turn while the rails' verdicts differ per turn (all verdict matrices, v1 + v2). Also completion-style calls generate(prompt=...), with and without options. Also the library's own `self check output` rail with a scripted checker (message sizes up to overflowing the check prompt), and two responders in different interaction loops (open finding). Also conversations in which the LLM's answer spells a reference to a context variable ($user_message): the reply must be that text, not an evaluation of it.",
    "C03": "Also in the quick tier: two-fault plans (two failing turns in a row, a random pair); thorough adds three faults; the multi-step pipeline. Also failing actions whose signature declares an injected parameter (llm, config, events, llm_task_manager, state). Also Colang 2 rails whose action answers `is it bad?` (open finding v2-failed-action-reads-as-not-bad). A quarter of the v1 conversations is served statelessly (history rebuilt from the messages; open finding v1-rebuilt-history-resumes-dialog-after-fault). Also conversations whose every call asks for a generation log (generation-options path: the processing log of a turn with a failed action is turned into a generation log).",
    "C04": "Also: pairs on action events (ActionEvent.from_umim_event path) and four instance scenarios that name the instance through a written action_uid= parameter. Also the `alias` family: a variable initialised from the very literal text a match pattern spells, a nested part of it mutated in place, then the event. Also string patterns whose source differs from their value ($word text, doubled braces, interpolation of a flow variable) and payloads routed through internal events (interpreter-held AttributeDict values). Also strings with white-space runs (two blanks, tab, leading/trailing blank) and their collapsed near misses. Also action events in member notation (Start through the action's arguments; Started / Finished / Updated through member arguments); a spec-match that leaves the statement waiting is a verdict even when the scoring function was never asked. Also flow events matched through the flow NAME (`match helper(a=1).Finished()`): only the parameters the pattern spells constrain the match.",
    "C05": "Also: action type names that contain the words event names are built from (Stop, Change, Start, Finished, Updated). Also flows defined twice (@override replacing a first definition with or without @loop). Also programs driven through RuntimeV2_x.process_events. Also neutral preludes in front of a competitor's match (when/else with all cases failing, one case, a taken case, an or-group, if/while). Also competitors that fork right after their match (`start A or B`) and competitors whose action sits in an or-group scope (co-winners must go on after the shared action finished). Also a container-valued (dict / list) event parameter of which patterns mention parts: every member left out makes a pattern less specific.",
    "C06": "Also: the driver feeds ...ActionStarted acknowledgements (prompt and late, i.e. after the Stop), scoped-action templates (when/or-when over an action, or-group of a flow and an action), flows ended from the outside (send FinishFlow/StopFlow), action names containing event words. Scenarios and hierarchies are also driven through RuntimeV2_x.process_events (outgoing events fed back); a shared action must not be stopped while a sharer runs. Also requests (activate / start / await) issued by a flow that is ended from outside in the same processing step. Activations are keyed by (flow, arguments); idle periods longer than the clean-up age; parameterised activation templates. Also a flow activated by two activators of which one ends, followed by idle time beyond the clean-up age and further restarts.",
    "C07": "Also: mode `aged` - 6.5 s of virtual idle time before every event, so the clean-up of long-finished instances runs between group members finishing and the group completing. Also member flows that finish while being started (open finding and-group-member-finished-while-being-started). Also the `loop` family: the statement inside `while True`, event sequences with repeats, EVERY completion index compared with the formula evaluated on the events since re-activation (all trees with 2-3 leaves, sampled 3-5 leaves; some through process_events). Also member flows that FAIL while the statement waits (else branch / failure when no and-group can complete any more).",
    "C08": "Also: the `mutate` family - a callee mutates in place (after its first wait) containers born from literals (defaults, literal arguments, local initialisers); the next call with the same call text and the caller must see pristine values. Also nested in-place mutation and calls with named arguments in front of positional ones. Also callees that reassign their own parameters, observed on second and later instances of activated flows. Also the equal-contexts family: flows called with the same parameter name and value, with JSON round trips of the state between events. Also callees that are the @override of a definition with another signature.",
    "C09": "Also: generated flows end other (possibly waiting) flows from the outside with FinishFlow/StopFlow. Also hierarchies driven through process_events, and reference programs: one `match $ref.Finished()/Started()` statement (in a loop and in a helper flow shared by several calls) revisited while $ref holds actions of different types and flows. Also JSON round trips of the state between events (hier / formula / reference programs). The index name is cross-checked against the name of the reference event the matcher builds; the state is also checked after an exception that process_events swallows; faulty reference patterns.",
    "C10": "Also: fault positions without the `send AtFault()` marker (the faulty statement is reached in the same processing step in which witnesses act) and the error kinds send-undef-var-member, start-action-bad-arg, start-flow-bad-arg, umim-param-wrong-type. Also `apiterm`: event cycles through ordinary outgoing events driven through process_events, with a bound on run_to_completion rounds per API call and a witness. Also `iso-repeat`: an activated victim failing with the same error on every trigger - every failure must be reported. Also faulty compound statements that are the FIRST statement of a callee flow, and error-handler programs (an activated `match ColangError()` flow, with and without a fault of its own - open finding). Also fault kinds that raise plain Python exceptions and long runs (14-40 events) of healthy activated flows that act before their first wait next to an armed faulty flow. Also errors raised while another flow is created / started (too many positional arguments, an error in a parameter default). Also the repeated-failure family with the faulty flow activated by two flows, the first of which ends, followed by idle time beyond the clean-up age.",
    "C11": "Also: templates with group members finishing before the aging, or-group of a flow and an action, an action with marker-shaped / set-valued start arguments and a marker-shaped dict variable; flows ended from the outside. Also the runtime-API family: conversations through RuntimeV2_x.process_events with local actions and AddFlowsAction/RemoveFlowsAction, round-tripped (and aged) at every cut. Also flows with equal contexts at the cut, and dict variables copied by name after the cut. Also continuation trees over LLMRails.generate(state=...): every saved state may be continued again, by the same or a fresh instance; list aliases and int-keyed dicts (open findings). Also the library's flow-inspection actions (CheckValidFlowExistsAction / CheckFlowDefinedAction) asked about a flow whose only instance finished long ago, across save/restore and idle time.",
    "C12": "Also: Colang 1.0 loop bodies that end in break/return/continue or an if/else whose else branch does (not always the counter increment). Every accepted Colang 2 program is compiled a SECOND time from the same parsed flows and scanned again. Also Colang 1.0 `priority` / `meta` statements written anywhere, including nested blocks. Element kinds are judged by a whitelist of primitives (placeholders of pass / comments / doc strings accepted); compound assignments `+=`/`-=` with calls on the right-hand side. Rejected programs are initialised again on the same FlowConfig objects: rejected again, or closed.",
    "C14": "Also: the `errretry` family - decisions through RuntimeV1_0._compute_next_steps on ONE runtime object across a call that raises, compared with a fresh runtime given only the repaired history. Also expressions that begin and end with a quote character without being one string literal (ternaries, string comparisons).",
    "C15": "Also: the multi-step generation pipeline with two text-dependent user intents (LLM-generated flows kept by the shared runtime). The embedding model is a gated suspension point of the concurrent workload too (incl. conversations opening with the same text). Also the `genflows` family: per conversation the LLM writes a different KIND of flow (spanning several turns, failing in an expression after it started, endless). Also generated steps that differ per conversation (sampling keyed on the conversation's first request) and the `overflow` family (a prompt with max_length that every conversation outgrows). Also requests abandoned (task cancelled) while an LLM call is in flight, followed by another conversation. Also the v2teach family: two Colang 2 conversations on one LLMRails instance (process_events_async, own state each) in which flows are added / removed at run time (AddFlowsAction / RemoveFlowsAction); each conversation must behave as it does alone on a fresh instance.",
    "C16": "Also: sequences of 2-3 requests in ONE conversation (state object or resent messages) whose options change between requests, each judged by the table; a caller-supplied history that repeats the current user text. Also user / bot texts starting with `$`. Also sequences that pass ONE GenerationOptions object to every call (with an ill-formed request in between that is not judged itself). Also output rails whose refusal is generated by the LLM: the refusal passes the output rails a second time while the blocker's record is open (two records of one rail name), stop must stay on the blocker.",
    "C17": "Also: generated values shaped like the state serialiser's markers followed by another turn; taint in the bot-intent slot of generated flows; an evaluated marker must not reach a later LLM prompt either; later turns are compared with a control conversation (observation only). Also the literal pass-through clause on carrier sentences and the same hostile completion repeated in a later turn. Also generated number literals that overflow a double, values that try to leave an interpolating string literal, silent loops (`while True / $x = 1`) decided by a spin detector (a whole 10 s window of process CPU time without one entry into a parser/runtime function). Also message text written inline under a bot intent in the multi-step next-steps completion. Also lone surrogates (an emoji cut by a token boundary). Also completions that consist of ESCAPED control characters inside quotes (backslash-n, backslash-t): non-empty as generated, blank once unescaped, followed by another turn.",
    "C13": "Also a jump budget on the loops of the loader itself (rails/llm/config.py) and directed arrangements of import lines. Also a CPU-time budget (ITIMER_VIRTUAL, 40 s of the process's own CPU time inside one load) for non-termination inside a single C-level regex match.",
    "C19": "Also the bulk family: 101-257 texts in one list request / index build / batch, model calls released in random order. Also client cancellations (task.cancel() of a started request at an idle point of the schedule). Also the two-index family: 2-3 indexes with different embedding models and the same cache configuration (same cache directory or not) fed the same texts. The two-index family also has a concurrent phase and model names / texts that a naive key prefix would confuse. Also provider failures: a model call that raises must fail the requests of its batch instead of leaving them waiting.",
    "C18": "Also four configurations with several stop sequences.",
    "C20": "Also shared-prefix threads on the UNMODIFIED LLMRails (texts from a pool of five, reply = checksum of the prompt): every thread is afterwards replayed alone on a fresh server state and must have got the same replies and stored history. The shared-threads family also runs against a multi-step generation config (LLM sampling keyed on the thread's first message). Also passthrough threads on the unmodified LLMRails (system messages resent with every request or placed in the middle): the text the LLM is called with must be exactly the stored thread followed by the new messages, in order.",
}


def build():
    checks = []
    for pid in ALL:
        if pid not in CHECKS:
            continue
        cat, technique, text, note, ref = CHECKS[pid]
        if pid in ADDENDA:
            text = text + " " + ADDENDA[pid]
        checks.append(
            {
                "property_id": pid,
                "quick_cmd": "./check %s --tier quick" % pid,
                "thorough_cmd": "./check %s --tier thorough" % pid,
                "evidence_file": "/verif/evidence/%s.json" % pid,
                "replay_cmd_template": "./check %s --replay {path}" % pid,
                "engine": "vp",
                "level_claimed": {"category": cat, "text": text, "design_ref": ref},
                "level_note": note,
                "technique": technique,
            }
        )
    na = [{"property_id": p, "reason": NOT_BUILT_REASON} for p in ALL if p not in CHECKS]
    m = {
        "version": 1,
        "setup_cmd": "PYTHONDONTWRITEBYTECODE=1 PIP_NO_INDEX=1 /venv/bin/python -m vp.deps",
        "hooks": {
            "guard": "NEMO_GUARDRAILS_VERIF",
            "enable": "none needed: all observation points are module attributes wrapped from the harness (vp/*.py); the repo is an editable install, so importing /repo/nemoguardrails is rebuilding from the working tree",
            "baseline_off_cmd": "cd /repo && /venv/bin/python -m pytest -ra -q -p no:cacheprovider --timeout=900 --continue-on-collection-errors",
            "source_commits": [],
            "add_only": True,
        },
        "engines": [
            {
                "name": "vp",
                "path": "/verif/vp",
                "serves_properties": sorted(CHECKS),
                "kind_free_text": "runtime monitoring: generated workloads on the real code in worker subprocesses, monitors/oracles per property (vp/mon_cXX.py), logical step budget via sys.monitoring, three-valued verdict folding (vp/run.py)",
            }
        ],
        "checks": checks,
        "notes": "exit 0 held / 1 VIOLATION / 2 INCONCLUSIVE (monitor blinded or too few conclusive cases). Known findings: /verif/known_findings.json. Honours VERIF_SEED, VERIF_TIER, VERIF_REPO, VERIF_JOBS.",
        "not_applicable": na,
    }
    return m


if __name__ == "__main__":
    m = build()
    with open(os.path.join(VERIF, "MANIFEST.json"), "w") as f:
        json.dump(m, f, indent=1)
    print("claimed:", [c["property_id"] for c in m["checks"]], "not claimed:", len(m["not_applicable"]))
