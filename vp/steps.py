"""Logical step budget: counts Python function entries into chosen modules with
sys.monitoring (3.12+) and raises a BaseException subclass on overrun, so the
repository's `except Exception` handlers cannot swallow it.  Wall-clock time is
never a verdict; this counter is."""
import sys


class StepBudgetExceeded(BaseException):
    pass


class WatchdogTimeout(BaseException):
    pass


_TOOL = 3  # sys.monitoring tool id (0..5); 3 is free for applications
_state = {"count": 0, "budget": None, "armed": False, "registered": False, "codes": 0}


def _on_start(code, offset):
    st = _state
    st["count"] += 1
    b = st["budget"]
    if b is not None and st["count"] > b and st["armed"]:
        st["armed"] = False  # raise once
        raise StepBudgetExceeded("logical step budget %d exceeded" % b)


def _code_objects(module):
    import types

    seen = set()
    out = []

    def walk(co):
        if co in seen:
            return
        seen.add(co)
        out.append(co)
        for c in co.co_consts:
            if isinstance(c, types.CodeType):
                walk(c)

    for name, obj in vars(module).items():
        fn = getattr(obj, "__func__", obj)
        if isinstance(fn, types.FunctionType) and fn.__module__ == module.__name__:
            walk(fn.__code__)
        elif isinstance(obj, type) and obj.__module__ == module.__name__:
            for v in vars(obj).values():
                f = getattr(v, "__func__", v)
                if isinstance(f, types.FunctionType):
                    walk(f.__code__)
                elif isinstance(v, property):
                    for g in (v.fget, v.fset):
                        if g is not None:
                            walk(g.__code__)
    return out


def install(modules):
    """Enable PY_START counting on all functions of the given modules."""
    mon = sys.monitoring
    if not _state["registered"]:
        mon.use_tool_id(_TOOL, "vp-steps")
        mon.register_callback(_TOOL, mon.events.PY_START, _on_start)
        _state["registered"] = True
    n = 0
    for m in modules:
        for co in _code_objects(m):
            mon.set_local_events(_TOOL, co, mon.events.PY_START)
            n += 1
    _state["codes"] += n
    return n


def start(budget=None):
    _state["count"] = 0
    _state["budget"] = budget
    _state["armed"] = budget is not None


def stop():
    _state["armed"] = False
    _state["budget"] = None
    return _state["count"]


def count():
    return _state["count"]


def instrumented():
    return _state["codes"]


# ----------------------------------------------------------------------------- CPU-time budget
# Some non-termination makes no Python call and no Python jump at all: a single C-level regular-expression match that
# backtracks exponentially. The only clock such a loop advances is the CPU time of the process. ITIMER_VIRTUAL counts
# the user CPU time THIS process consumes (it does not advance while the machine is busy with other work, so it is a
# property of the computation, not of the load), and CPython's regex engine polls for signals while it backtracks.
class CpuBudgetExceeded(StepBudgetExceeded):
    pass


def _on_vtalrm(signum, frame):
    raise CpuBudgetExceeded("more than the CPU-time budget consumed inside one call")


def cpu_start(seconds):
    import signal

    signal.signal(signal.SIGVTALRM, _on_vtalrm)
    signal.setitimer(signal.ITIMER_VIRTUAL, float(seconds))


def cpu_stop():
    import signal

    signal.setitimer(signal.ITIMER_VIRTUAL, 0)


# ----------------------------------------------------------------------------- spin detector
# A loop that stays inside ONE call of the instrumented modules (e.g. the Colang 1.0 `slide()` advancing a `while` whose
# body only assigns variables) enters no instrumented function, so the step counter stands still while CPU time passes.
# Every `window` CPU-seconds the handler compares the step counter with its value one window earlier: fewer than
# `min_calls` new function entries in a whole window of CPU time = the computation is spinning inside a single call.
_spin = {"last": 0, "window": 0.0, "min_calls": 0}


def _on_spin(signum, frame):
    import signal

    c = _state["count"]
    if c - _spin["last"] < _spin["min_calls"]:
        signal.setitimer(signal.ITIMER_VIRTUAL, 0)
        raise CpuBudgetExceeded("spinning: %d function entries into the instrumented modules during %.0f s of CPU time" % (c - _spin["last"], _spin["window"]))
    _spin["last"] = c
    signal.setitimer(signal.ITIMER_VIRTUAL, _spin["window"])


def spin_start(window=25.0, min_calls=50):
    import signal

    _spin.update(last=_state["count"], window=float(window), min_calls=min_calls)
    signal.signal(signal.SIGVTALRM, _on_spin)
    signal.setitimer(signal.ITIMER_VIRTUAL, float(window))


def spin_stop():
    cpu_stop()
