"""C04 — Colang 2 event matching follows the documented partial-match rules.

Two monitors on the same executions:
 (1) differential: a marker `send Done()` after `match E(p=<pattern>)` is emitted
     iff the executable spec `matches(pattern, payload)` says so;
 (2) an icontract post-condition on the real recursive scoring function
     `_compute_arguments_dict_matching_score` (result>0 <=> spec) that sees every
     recursive call made while the test event is being matched.
Plus the instance clause: `match $ref.Finished()` only advances on the referenced
action / flow instance.
"""
import random
import re

PROPERTY = "C04"
LEVEL = "exploration"
RULE = (
    "case = (pattern, payload) generated from case seed: pattern of depth<=3 (thorough 4) over int/float/str/bool/None/regex/"
    "list/set/dict, payload derived from an instance of the pattern by 0-2 of identity/add/drop/reorder/alter/deep edits, "
    "optional extra top-level parameters; or an instance-reference scenario (two actions / two flow instances). "
    "non-trivial = pattern depth>=2 or a container with >=2 members, and the payload is not the untouched instance; "
    "distinct = (rendered pattern, repr(payload), extras)"
)
MIN_HELD = {"quick": 5000, "thorough": 100000}
ASSUMPTIONS = [
    "oracle: 25-line recursive matches(pattern, value) (scalars equal with equal type; regex search on str; list in-order subsequence; "
    "set/dict: len(p)<=len(v) and every member/key matched)",
    "not generated because the statement does not fix them: cross-type numeric/bool comparisons, regex against non-strings, "
    "comparison-operator patterns",
    "the contract only judges calls made while the generated test event is being compared",
]
SAMPLE_EVERY = 1999
FILTERED = ("return_value", "activated", "source_flow_instance_uid")
KEYS = ["a", "b", "c", "k1", "d"]


class Rx:
    def __init__(self, p):
        self.p = p

    def __hash__(self):
        return hash(("rx", self.p))

    def __eq__(self, o):
        return isinstance(o, Rx) and o.p == self.p

    def __repr__(self):
        return "Rx(%r)" % self.p


# string patterns whose SOURCE differs from their value: `$word` is text inside a string, `{{`/`}}` spell braces, `{$cv}`
# interpolates the flow variable $cv (= "Ann", assigned in front of the match statement)
RICH_SRC = {
    "costs $five": '"costs $five"',
    "{slot} is $usd": '"{{slot}} is $usd"',
    "Ann owes $amount": '"{$cv} owes $amount"',
    "Ann": '"{$cv}"',
    "a $b {c}": '"a $b {{c}}"',
    "$lead and Ann": '"$lead and {$cv}"',
}
WS_STRS = ["a  b", "x   y  z", " lead", "trail ", "tab\there", "two  ", "a b"]
RX_INST = {"a  b": "xa  by", "a": "xa", "b": "b", "^ab": "abz", "c$": "zc", "a.c": "a-c", "x|y": "y"}


def gen_pat(rng, d, filtered_p=0.01):
    r = rng.random()
    if d == 0 or r < 0.40:
        k = rng.choice(["int", "str", "str", "bool", "none", "rx", "float"])
        if k == "int":
            return rng.randint(0, 3)
        if k == "float":
            return rng.choice([0.5, 1.5, 2.25])
        if k == "str":
            if rng.random() < 0.2:
                return rng.choice(sorted(RICH_SRC))
            if rng.random() < 0.15:
                return rng.choice(WS_STRS)  # white-space runs inside the literal are characters like any other
            return rng.choice(["ab", "abc", "b", "xyz", ""])
        if k == "bool":
            return rng.choice([True, False])
        if k == "none":
            return None
        return Rx(rng.choice(sorted(RX_INST)))
    if r < 0.62:
        return [gen_pat(rng, d - 1, filtered_p) for _ in range(rng.randint(0, 3))]
    if r < 0.80:
        out = set()
        for _ in range(rng.randint(0, 3)):
            out.add(gen_pat(rng, 0))
        return out
    out = {}
    for _ in range(rng.randint(0, 3)):
        key = rng.choice(KEYS)
        if rng.random() < filtered_p:
            key = rng.choice(FILTERED)
        out[key] = gen_pat(rng, d - 1, filtered_p)
    return out


def inst(rng, p):
    if isinstance(p, Rx):
        return RX_INST[p.p]
    if isinstance(p, list):
        return [inst(rng, x) for x in p]
    if isinstance(p, set):
        return {inst(rng, x) for x in p}
    if isinstance(p, dict):
        return {k: inst(rng, v) for k, v in p.items()}
    return p


def mutate(rng, v):
    k = rng.choice(["same", "add", "drop", "reorder", "alter", "deep"])
    if isinstance(v, list):
        v = list(v)
        if k == "add":
            v.insert(rng.randint(0, len(v)), rng.choice([9, "zz", [1]]))
        elif k == "drop" and v:
            v.pop(rng.randrange(len(v)))
        elif k == "reorder":
            rng.shuffle(v)
        elif k == "alter" and v:
            v[rng.randrange(len(v))] = "ALT"
        elif k == "deep" and v:
            i = rng.randrange(len(v))
            v[i] = mutate(rng, v[i])
        return v
    if isinstance(v, set):
        v = set(v)
        if k == "add":
            v.add(rng.choice([9, "zz"]))
        elif k in ("drop", "alter") and v:
            v.discard(rng.choice(sorted(v, key=repr)))
            if k == "alter":
                v.add("ALT")
        return v
    if isinstance(v, dict):
        v = dict(v)
        if k == "add":
            v["extra"] = 1
        elif k == "drop" and v:
            v.pop(rng.choice(list(v)))
        elif k == "alter" and v:
            v[rng.choice(list(v))] = "ALT"
        elif k == "deep" and v:
            kk = rng.choice(list(v))
            v[kk] = mutate(rng, v[kk])
        return v
    if k == "alter":
        if isinstance(v, str) and v != " ".join(v.split()) and rng.random() < 0.6:
            return " ".join(v.split()) if rng.random() < 0.5 else re.sub(r"\s+", " ", v)  # the near miss: white space collapsed
        return "ALT"
    return v


# ---------------------------------------------------------------- the executable spec
def matches(p, v):
    if isinstance(p, Rx):
        return isinstance(v, str) and re.search(p.p, v) is not None
    if isinstance(p, list):
        if not isinstance(v, list) or len(p) > len(v):
            return False
        i = 0
        for x in v:
            if i < len(p) and matches(p[i], x):
                i += 1
        return i == len(p)
    if isinstance(p, set):
        if not isinstance(v, set) or len(p) > len(v):
            return False
        return all(any(matches(x, y) for y in v) for x in p)
    if isinstance(p, dict):
        if not isinstance(v, dict) or len(p) > len(v):
            return False
        return all(k in v and matches(x, v[k]) for k, x in p.items())
    return type(p) is type(v) and p == v


def crossnum(p, v):
    """pairs outside the domain the statement fixes (cross-type numerics, regex vs number)"""
    num = (int, float, bool)
    if isinstance(p, num) and isinstance(v, num) and type(p) is not type(v):
        return True
    if isinstance(p, Rx) and isinstance(v, num):
        return True
    if isinstance(p, list) and isinstance(v, list):
        return any(crossnum(a, b) for a in p for b in v)
    if isinstance(p, set) and isinstance(v, set):
        return any(crossnum(a, b) for a in p for b in v)
    if isinstance(p, dict) and isinstance(v, dict):
        return any(crossnum(a, v[k]) for k, a in p.items() if k in v)
    return False


def render(p):
    if isinstance(p, Rx):
        return 'regex("%s")' % p.p
    if isinstance(p, list):
        return "[" + ", ".join(render(x) for x in p) + "]"
    if isinstance(p, set):
        return "{" + ", ".join(render(x) for x in sorted(p, key=repr)) + "}" if p else "set()"
    if isinstance(p, dict):
        return "{" + ", ".join('"%s": %s' % (k, render(x)) for k, x in p.items()) + "}"
    if isinstance(p, str):
        return RICH_SRC.get(p, '"' + p + '"')
    return repr(p)



def render_value(v):
    """payload as a Colang literal expression"""
    if isinstance(v, list):
        return "[" + ", ".join(render_value(x) for x in v) + "]"
    if isinstance(v, set):
        return "{" + ", ".join(render_value(x) for x in sorted(v, key=repr)) + "}" if v else "set()"
    if isinstance(v, dict):
        return "{" + ", ".join('"%s": %s' % (k, render_value(x)) for k, x in v.items()) + "}"
    if isinstance(v, str):
        return '"' + v.replace("{", "{{").replace("}", "}}") + '"'
    return repr(v)


def _colang_literal_ok(v):
    """values we can write as a literal in an assignment without tripping over the parser (no `$`, no quotes inside strings, no empty containers at top level)"""
    if isinstance(v, str):
        return "$" not in v and '"' not in v
    if isinstance(v, (list, set)):
        return all(_colang_literal_ok(x) for x in v) and (len(v) > 0 or isinstance(v, list))
    if isinstance(v, dict):
        return all(_colang_literal_ok(x) for x in v.values())
    return True


def depth(p):
    if isinstance(p, (list, set)):
        return 1 + max([depth(x) for x in p] or [0])
    if isinstance(p, dict):
        return 1 + max([depth(x) for x in p.values()] or [0])
    return 0


def has_set_bigger(p, v):
    if isinstance(p, set) and isinstance(v, set) and len(p) > len(v):
        return True
    if isinstance(p, list) and isinstance(v, list):
        return any(has_set_bigger(a, b) for a in p for b in v)
    if isinstance(p, dict) and isinstance(v, dict):
        return any(has_set_bigger(a, v[k]) for k, a in p.items() if k in v)
    return False


def has_filtered(p):
    if isinstance(p, dict):
        return any(k in FILTERED for k in p) or any(has_filtered(x) for x in p.values())
    if isinstance(p, (list, set)):
        return any(has_filtered(x) for x in p)
    return False


def strip_filtered(p):
    """the pattern as the interpreter effectively reads it under the listed finding: filtered keys dropped at every level
    (sets of unhashable results do not occur: set members are scalars / regexes in the generated domain)"""
    if isinstance(p, dict):
        return {k: strip_filtered(x) for k, x in p.items() if k not in FILTERED}
    if isinstance(p, list):
        return [strip_filtered(x) for x in p]
    return p


def to_pattern_like(ref):
    """Convert what the interpreter hands to the scoring function back into the
    oracle's pattern language (compiled regex -> Rx)."""
    if isinstance(ref, re.Pattern):
        return Rx(ref.pattern)
    if isinstance(ref, list):
        return [to_pattern_like(x) for x in ref]
    if isinstance(ref, set):
        return {to_pattern_like(x) for x in ref}
    if isinstance(ref, dict):
        return {k: to_pattern_like(x) for k, x in ref.items()}
    return ref


def in_domain(p, v):
    ok_scalar = (int, float, bool, str, type(None), Rx)
    if isinstance(p, (list, set)):
        return all(in_domain(x, None) for x in p) and _val_ok(v)
    if isinstance(p, dict):
        return all(in_domain(x, None) for x in p.values()) and _val_ok(v)
    return isinstance(p, ok_scalar) and _val_ok(v)


def _val_ok(v):
    if isinstance(v, (list, set)):
        return all(_val_ok(x) for x in v)
    if isinstance(v, dict):
        return all(_val_ok(x) for x in v.values())
    return isinstance(v, (int, float, bool, str, type(None)))


# ---------------------------------------------------------------- cases
def cases(tier, seed):
    n = 20000 if tier == "quick" else 300000
    d = 3 if tier == "quick" else 4
    base = seed * 10_000_019
    for i in range(n):
        yield {"id": i, "fam": "pair", "seed": base + i, "depth": d if i % 3 else 2}
    m = 400 if tier == "quick" else 4000
    for i in range(m):
        yield {"id": n + i, "fam": "instance", "seed": base + i}
    k = 300 if tier == "quick" else 3000
    for i in range(k):
        yield {"id": n + m + i, "fam": "alias", "seed": base + i}
    for i in range(k):
        yield {"id": n + m + k + i, "fam": "flowname", "seed": base + i}


# ---------------------------------------------------------------- worker side
_C = {"active": False, "evals": 0, "viol": []}


class ContractBroken(Exception):
    pass


def setup_worker():
    from . import v2h

    L = v2h.load()
    sm = L["sm"]
    import icontract

    if not hasattr(sm, "_compute_arguments_dict_matching_score") or not hasattr(sm, "_compute_event_comparison_score"):
        raise RuntimeError("scoring functions missing")

    def score_agrees_with_spec(args, ref_args, result):
        # records instead of raising: a raising contract would abort what it observes
        if not _C["active"]:
            return True
        p = to_pattern_like(ref_args)
        if not in_domain(p, args) or crossnum(p, args):
            return True
        _C["evals"] += 1
        exp = matches(p, args)
        if (result > 0.0) != exp:
            _C["viol"].append({"ref": render(p), "args": repr(args), "score": result, "spec": exp})
        return True

    orig = sm._compute_arguments_dict_matching_score
    wrapped = icontract.ensure(score_agrees_with_spec, error=ContractBroken)(orig)
    sm._compute_arguments_dict_matching_score = wrapped

    orig_cmp = sm._compute_event_comparison_score

    def cmp_wrapper(state, event, ref_event, priority=None):
        if getattr(event, "name", None) in ("E", "PairActionFinished", "PairActionUpdated", "PairActionStarted", "StartPairAction", "StopPairAction", "ChangePairAction", "FlowFinished") and not _C["active"]:
            _C["active"] = True
            try:
                return orig_cmp(state, event, ref_event, priority)
            finally:
                _C["active"] = False
        return orig_cmp(state, event, ref_event, priority)

    sm._compute_event_comparison_score = cmp_wrapper


def run_pair(case):
    from . import v2h

    L = v2h.load()
    rng = random.Random(case["seed"])
    for _ in range(50):
        p = gen_pat(rng, case["depth"])
        v = inst(rng, p)
        nmut = rng.randint(0, 2)
        for _ in range(nmut):
            v = mutate(rng, v)
        if not crossnum(p, v):
            break
    else:
        return {"verdict": "inconclusive", "reason": "generator-ambiguous"}
    extras = {}
    if rng.random() < 0.3:
        extras["extra"] = 5
    if rng.random() < 0.1:
        extras["zz"] = [1, {"a": 2}]
    # a third of the pairs use an action event (received through ActionEvent.from_umim_event, with an action_uid)
    evname = rng.choice(["E", "E", "E", "E", "E", "PairActionFinished", "PairActionUpdated", "PairActionStarted", "StartPairAction", "StopPairAction", "ChangePairAction"])
    written = evname
    if evname != "E" and rng.random() < 0.5:
        # the same action event in member notation: PairAction.Finished(...) / PairAction.Start(...) (UMIM puts the verb of
        # Start / Stop / Change in front of the action name, of Started / Finished / Updated behind it)
        verb = evname[: -len("PairAction")] if evname.endswith("PairAction") else evname[len("PairAction"):]
        written = "PairAction.%s" % verb
    src = "flow main\n  $cv = \"Ann\"\n  match %s(p=%s)\n  send Done()\n  match Never()\n" % (written, render(p))
    if written == "PairAction.Start":
        # (the member events Start / Stop take no arguments of their own: what a Start event carries are the arguments of
        #  the action, written at the action)
        src = "flow main\n  $cv = \"Ann\"\n  match PairAction(p=%s).Start()\n  send Done()\n  match Never()\n" % render(p)
    elif written in ("PairAction.Stop", "PairAction.Change"):
        written = evname
        src = "flow main\n  $cv = \"Ann\"\n  match %s(p=%s)\n  send Done()\n  match Never()\n" % (written, render(p))
    # one pair in seven takes the INTERNAL route: the payload is a value the interpreter itself holds (a variable passed as
    # a flow parameter, which the interpreter wraps in its own dict subclass) and arrives inside an internal FlowFinished event
    internal = rng.random() < 0.15 and not extras and _colang_literal_ok(v)
    if internal:
        evname = "E"
        src = (
            "flow main\n  $cv = \"Ann\"\n  $pv = %s\n  start carrier $pv\n  match FlowFinished(flow_id=\"carrier\", x=%s)\n  send Done()\n  match Never()\n\n"
            "flow carrier $x\n  match E()\n" % (render_value(v), render(p))
        )
    L["random"].reset(seed=case["seed"])
    _C["evals"] = 0
    _C["viol"] = []
    try:
        st = v2h.mk(src)
    except v2h.LoaderReject as e:
        return {"verdict": "inconclusive", "reason": "loader-reject", "detail": str(e)[:200] + " :: " + render(p)}
    ev = {"type": evname, "p": v}
    if internal:
        ev = {"type": "E"}
    if evname != "E":
        ev["action_uid"] = "uid-%d" % rng.randint(1, 9)
    ev.update(extras)
    exp = matches(p, v)
    base = {
        "key": repr((render(p), repr(v), sorted(extras))),
        "nontrivial": (depth(p) >= 2 or (isinstance(p, (list, set, dict)) and len(p) >= 2)) and (nmut > 0 and v != inst(random.Random(0), p)),
        "sample": {"pattern": render(p), "payload": repr(v), "extras": extras, "spec_matches": exp},
        "set_bigger": has_set_bigger(p, v),
        "filtered": has_filtered(p),
    }
    try:
        out = v2h.run(st, ev)
        got = "Done" in v2h.types(out)
        exc = None
    except Exception as e:
        got = None
        exc = "%s: %s" % (type(e).__name__, str(e)[:150])
    if base["filtered"] and got is not None:
        # does "filtered keys are not compared" alone explain what was observed?
        try:
            base["filtered_explains"] = matches(strip_filtered(p), v) == got
        except Exception:
            base["filtered_explains"] = False
    obs = {
        "contract_evaluations": _C["evals"],
        "spec_match": int(exp),
        "spec_nomatch": int(not exp),
        "kind_" + type(p).__name__: 1,
        "with_extra_params": int(bool(extras)),
        "on_action_event": int(evname != "E"),
        "action_event_in_member_notation": int(written != evname),
        "action_event_" + evname: 1,
        "payload_through_internal_event": int(bool(internal)),
        "max_pattern_depth": depth(p),
    }
    base["sample"]["marker"] = got
    if _C["evals"] == 0 and not (exp and got is False and exc is None):
        # (an event the spec says MATCHES that left the statement waiting is a verdict even when the scoring function was never
        #  asked: the head was not even a candidate for the event)
        return dict(base, verdict="inconclusive", reason="monitor-not-reached", observed=obs, nontrivial=False)
    if exc is not None or got != exp or _C["viol"]:
        return dict(
            base,
            verdict="violated",
            observed=obs,
            witness={"program": src, "event": repr(ev), "spec_matches": exp, "marker_emitted": got, "exception": exc, "contract_violations": _C["viol"][:5]},
            only_contract=(got == exp and exc is None),
        )
    return dict(base, verdict="held", observed=obs)



ALIAS_LITERALS = [
    ('{"tags": ["a"]}', {"tags": ["a"]}, '($v["tags"].append("zz"))'),
    ('[[1, 2], "x"]', [[1, 2], "x"], "($v[0].append(9))"),
    ('{"k": {"n": 1}}', {"k": {"n": 1}}, '($v["k"].update({"n": 2}))'),
    ('[{"k": ["a"]}, 2]', [{"k": ["a"]}, 2], '($v[0]["k"].append(5))'),
    ('{"o": [["q"]]}', {"o": [["q"]]}, '($v["o"][0].append("r"))'),
    ('["s", ["t"]]', ["s", ["t"]], '($v[1].append("u"))'),
]


def run_alias(case):
    """The pattern a match statement WRITES is a literal; another flow initialises a variable from the very same literal
    text and later changes a nested part of ITS value in place. The match statement must still mean what it spells."""
    from . import v2h

    L = v2h.load()
    rng = random.Random(case["seed"])
    lit, val, mut = ALIAS_LITERALS[case["seed"] % len(ALIAS_LITERALS)]
    tag = "q%d" % (case["seed"] % 7)  # a few distinct literal texts per shape
    lit2 = lit.replace('"a"', '"a%s"' % tag).replace('"x"', '"x%s"' % tag).replace('"n": 1', '"n": 1, "t": "%s"' % tag).replace('"q"', '"q%s"' % tag).replace('"t"', '"t%s"' % tag)
    val2 = eval(lit2.replace("true", "True"))  # our own literal table, not repo input
    order = rng.choice(["mutate-first", "mutate-first", "event-first"])
    src = (
        "flow main\n  start mutator\n  match E(p=%s)\n  send Done()\n  match Never()\n\n"
        "flow mutator\n  $v = %s\n  match Mut()\n  %s\n  send Mutated(v=$v)\n  match NeverM()\n" % (lit2, lit2, mut)
    )
    L["random"].reset(seed=case["seed"])
    _C["evals"] = 0
    _C["viol"] = []
    try:
        st = v2h.mk(src)
    except v2h.LoaderReject as e:
        return {"verdict": "inconclusive", "reason": "loader-reject", "detail": str(e)[:300] + " :: " + lit2}
    trace = []
    fired = None
    seq = ["Mut", "E"] if order == "mutate-first" else ["E"]
    import copy as _copy

    for i, evn in enumerate(seq):
        ev = {"type": evn}
        if evn == "E":
            ev["p"] = _copy.deepcopy(val2)
        out = v2h.run(st, ev)
        trace.append((evn, v2h.types(out)))
        if evn == "E" and "Done" in v2h.types(out):
            fired = i
    res = {"key": repr((lit2, order)), "nontrivial": order == "mutate-first", "scenario": "alias",
           "sample": {"program": src, "order": order, "trace": trace}, "observed": {"alias_scenarios": 1, "alias_mutated_before_event": int(order == "mutate-first")}}
    if order == "mutate-first" and not any("Mutated" in t for _e, t in trace):
        return dict(res, verdict="inconclusive", reason="mutation-not-observed")
    if fired is None:
        return dict(res, verdict="violated", witness={"program": src, "trace": trace, "expected": "E(p=%s) advances the match that spells exactly this value" % lit2, "marker": None})
    return dict(res, verdict="held")

INSTANCE_SCENARIOS = ("action", "flow", "action_started", "flow_named_param", "uid_param", "uid_member", "uid_event_ref", "uid_var")
# the instance is named by a written `action_uid=` parameter instead of a `$ref.Finished()` reference
UID_FORMS = {
    "uid_param": ("start WorkAction(n=%d) as $a%d", "match WorkActionFinished(action_uid=$a%d.uid)"),
    "uid_member": ("start WorkAction(n=%d) as $a%d", "match WorkAction.Finished(action_uid=$a%d.uid)"),
    "uid_event_ref": ("send StartWorkAction(n=%d) as $a%d", "match WorkActionFinished(action_uid=$a%d.action_uid)"),
    "uid_var": ("start WorkAction(n=%d) as $a%d", "$u = $a%d.uid\n  match WorkActionFinished(action_uid=$u, is_success=True)"),
}


def run_instance(case):
    """`match $ref.Finished()` must only advance on the referenced instance."""
    from . import v2h

    L = v2h.load()
    rng = random.Random(case["seed"])
    scen = INSTANCE_SCENARIOS[case["seed"] % len(INSTANCE_SCENARIOS)]
    which = rng.randint(0, 1)  # which reference is awaited
    order = rng.choice(["other-first", "own-first", "other-twice"])
    L["random"].reset(seed=case["seed"])
    if scen in UID_FORMS:
        st_form, m_form = UID_FORMS[scen]
        src = "flow main\n  %s\n  %s\n  %s\n  send Done()\n  match Never()\n" % (st_form % (1, 0), st_form % (2, 1), m_form % which)
    elif scen in ("action", "action_started"):
        member = "Finished" if scen == "action" else "Started"
        src = (
            "flow main\n  start WorkAction(n=1) as $a0\n  start WorkAction(n=2) as $a1\n"
            "  match $a%d.%s()\n  send Done()\n  match Never()\n" % (which, member)
        )
    else:
        if scen == "flow":
            src = (
                "flow main\n  start worker 1 as $a0\n  start worker 2 as $a1\n  match $a%d.Finished()\n  send Done()\n  match Never()\n\n"
                "flow worker $n\n  match Go(n=$n)\n" % which
            )
        else:
            src = (
                "flow main\n  start worker as $a0\n  start worker as $a1\n  match $a%d.Finished()\n  send Done()\n  match Never()\n\n"
                "flow worker\n  match Go()\n" % which
            )
    try:
        st = v2h.mk(src)
    except v2h.LoaderReject as e:
        return {"verdict": "inconclusive", "reason": "loader-reject", "detail": str(e)[:300]}
    trace = []
    obs = {"instance_scenarios": 1, "contract_evaluations": 0}
    if scen in ("action", "action_started") or scen in UID_FORMS:
        starts = [e for e in st.outgoing_events if e["type"] == "StartWorkAction"]
        if len(starts) != 2:
            return {"verdict": "inconclusive", "reason": "scenario-setup", "detail": repr(st.outgoing_events)[:300]}
        uids = [starts[0]["action_uid"], starts[1]["action_uid"]]
        evname = "WorkActionStarted" if scen == "action_started" else "WorkActionFinished"
        seq = {"other-first": [1 - which, which], "own-first": [which], "other-twice": [1 - which, 1 - which, which]}[order]
        expected_at = len(seq) - 1
        fired = None
        for i, k in enumerate(seq):
            ev = {"type": evname, "action_uid": uids[k]}
            if scen != "action_started":
                ev.update({"is_success": True, "return_value": None})
            out = v2h.run(st, ev)
            trace.append((evname, "a%d" % k, v2h.types(out)))
            if fired is None and "Done" in v2h.types(out):
                fired = i
    elif scen == "flow":
        seq = {"other-first": [1 - which, which], "own-first": [which], "other-twice": [1 - which, 1 - which, which]}[order]
        expected_at = len(seq) - 1
        fired = None
        for i, k in enumerate(seq):
            out = v2h.run(st, {"type": "Go", "n": k + 1})
            trace.append(("Go", k + 1, v2h.types(out)))
            if fired is None and "Done" in v2h.types(out):
                fired = i
    else:
        # both instances finish on the same Go(): the awaited one is among them -> marker at 0
        out = v2h.run(st, {"type": "Go"})
        trace.append(("Go", None, v2h.types(out)))
        fired = 0 if "Done" in v2h.types(out) else None
        expected_at = 0
    res = {
        "key": repr((scen, which, order)),
        "nontrivial": order != "own-first",
        "sample": {"program": src, "scenario": scen, "order": order, "trace": trace},
        "observed": obs,
        "scenario": scen,
    }
    if fired != expected_at:
        return dict(res, verdict="violated", witness={"program": src, "trace": trace, "expected_marker_at": expected_at, "marker_at": fired})
    return dict(res, verdict="held")


def run_flowname(case):
    """flow events matched through the flow NAME - `match (helper).Finished()`, `match helper(a=1).Finished()` - succeed for any
    instance of that flow whose parameters agree with the ones the pattern spells; parameters it does not mention are not compared"""
    from . import v2h

    L = v2h.load()
    rng = random.Random(case["seed"])
    np_ = rng.randint(0, 3)
    names = ["a", "b", "c"][:np_]
    defaults = {nm: rng.choice([7, "dflt"]) for nm in names[rng.randint(0, np_):]}
    vals = {nm: rng.choice([1, 2, "x"]) for nm in names}
    given = [nm for nm in names if nm not in defaults or rng.random() < 0.5]
    given = names[: max([names.index(g_) + 1 for g_ in given] or [0])]  # positional call: a prefix of the parameters
    actual = {nm: (vals[nm] if nm in given else defaults.get(nm)) for nm in names}
    mention = [nm for nm in names if rng.random() < 0.5]
    pattern = {nm: (actual[nm] if rng.random() < 0.65 else rng.choice([1, 2, "x", "other"])) for nm in mention}
    member = rng.choice(["Finished", "Finished", "Started"])
    sig = " ".join("$%s%s" % (nm, "=" + render_value(defaults[nm]) if nm in defaults else "") for nm in names)
    call = " ".join(render_value(vals[nm]) for nm in given)
    pat = "helper(%s).%s()" % (", ".join("%s=%s" % (k_, render_value(v_)) for k_, v_ in pattern.items()), member) if pattern else rng.choice(["helper.%s()" % member, "(helper).%s()" % member])
    src = ("flow main\n  start watcher\n  match Go()\n  start helper %s\n  match Never()\n\nflow watcher\n  match %s\n  send Done()\n  match NeverW()\n\n"
           "flow helper %s\n  match Fin()\n" % (call, pat, sig))
    exp = all(type(actual[k_]) is type(v_) and actual[k_] == v_ for k_, v_ in pattern.items())
    base = {"key": src, "nontrivial": bool(names), "scenario": "flowname", "sample": {"program": src, "pattern": pat, "actual_parameters": actual, "spec_matches": exp}}
    obs = {"flowname_cases": 1, "flowname_spec_match": int(exp), "flowname_pattern_mentions_subset": int(0 < len(pattern) < len(names)), "flowname_no_arguments": int(not pattern and bool(names))}
    L["random"].reset(seed=case["seed"])
    _C["evals"] = 0
    _C["viol"] = []
    try:
        st = v2h.mk(src)
        out = v2h.types(v2h.run(st, {"type": "Go"}))
        if member == "Finished":
            out += v2h.types(v2h.run(st, {"type": "Fin"}))
    except v2h.LoaderReject as e:
        return dict(base, verdict="inconclusive", reason="loader-reject", detail=str(e)[:200], nontrivial=False)
    except Exception as e:
        return dict(base, verdict="violated", observed=obs, what="exception", witness={"program": src, "exception": "%s: %s" % (type(e).__name__, str(e)[:200])})
    got = "Done" in out
    if got != exp:
        return dict(base, verdict="violated", observed=obs, what="flow-name-match-disagrees-with-spec", witness={"program": src, "pattern": pat, "actual_parameters": actual, "spec_matches": exp, "marker_emitted": got})
    return dict(base, verdict="held", observed=obs)


def run_case(case):
    if case["fam"] == "flowname":
        return run_flowname(case)
    if case["fam"] == "pair":
        return run_pair(case)
    if case["fam"] == "alias":
        return run_alias(case)
    return run_instance(case)


def classify(r):
    if r.get("scenario") == "flowname":
        return "flow-name-match:" + str(r.get("what"))
    if r.get("scenario") == "alias":
        return "pattern-literal-aliased-with-a-mutated-value"
    if r.get("scenario"):
        return "instance-reference:" + r["scenario"]
    if r.get("filtered") and r.get("filtered_explains"):
        return "filtered-keys-not-compared"
    if r.get("set_bigger"):
        return "set-pattern-larger-than-value"
    if r.get("filtered"):
        return "filtered-keys-not-compared+unexplained"
    w = r.get("witness", {})
    if w.get("exception"):
        return "exception:" + w["exception"].split(":")[0]
    if r.get("only_contract"):
        return "inner-score-disagrees-with-spec"
    return "match-disagrees-with-spec"
