"""C13 helpers: layout transforms, valid-program generators, text mutators and
token soups.  Pure text functions -- nothing here imports the code under test."""
import random
import re

# ----------------------------------------------------------------------------
# line scanners: which physical lines belong to a multi-line construct
# ----------------------------------------------------------------------------


def scan_v2(lines):
    """Per physical line: (starts_inside_triple, has_triple, ends_inside_triple).
    Honours single-line strings and comments (a `#` inside a string is not a
    comment, a triple quote inside a comment is not a string)."""
    out = []
    state = None  # None or the open triple delimiter
    for ln in lines:
        start_inside = state is not None
        has_triple = start_inside
        i, n = 0, len(ln)
        while i < n:
            if state is not None:
                j = ln.find(state, i)
                if j < 0:
                    i = n
                else:
                    i = j + 3
                    state = None
                continue
            c = ln[i]
            if c == "#":
                break
            if ln.startswith('"""', i) or ln.startswith("'''", i):
                state = ln[i : i + 3]
                has_triple = True
                i += 3
                continue
            if c in "\"'":
                j = i + 1
                while j < n:
                    if ln[j] == "\\":
                        j += 2
                        continue
                    if ln[j] == c:
                        break
                    j += 1
                i = j + 1
                continue
            i += 1
        out.append((start_inside, has_triple, state is not None))
    return out


def scan_v1(lines):
    """Per physical line: (starts_inside_multiline, protected, no_blank_after).
    Mirrors the constructs of the 1.0 line reader: `\"...` strings that run over
    several lines, triple-quoted comment blocks, `\\` / ` or` continuations.  A
    line that opens a multi-line construct starts outside (its indentation may be
    scaled) but is protected from edits at its end."""
    out = []
    in_str = False
    in_doc = False
    cont = False
    for ln in lines:
        s = ln.strip()
        if in_str:
            if s.endswith('"'):
                in_str = False
            out.append((True, True, in_str))
            continue
        if in_doc:
            if s.endswith('"""'):
                in_doc = False
            out.append((True, True, in_doc))
            continue
        if s.startswith('"') and not s.startswith('"""') and not s.endswith('"'):
            in_str = True
            out.append((cont, True, True))
            cont = False
            continue
        if s.startswith('"""'):
            if s == '"""' or not s.endswith('"""'):
                in_doc = True
            out.append((cont, True, in_doc))
            cont = False
            continue
        if not s or s.startswith("#"):
            # a blank/comment line inside a continuation ends it in the reader;
            # we never create that situation, shipped files keep what they have
            out.append((cont, cont, cont))
            continue
        code = s.split("#")[0].rstrip() if "#" in s and '"' not in s else s
        cont_next = code.endswith("\\") or code.endswith(" or") or s.endswith("\\") or s.endswith(" or")
        out.append((cont, cont, cont_next))
        cont = cont_next
    return out


TRANSFORMS = ("blank", "blank_ws", "trail", "comment", "indent2", "indent3", "combo", "comment_ellipsis", "trail_tab")
ELLIPSIS_ONLY = re.compile(r"^ +\.\.\.[ \t]*$", re.M)
_ELLIPSIS_LINE = re.compile(r"^ +\.\.\.")  # what the 2.x pre-parser expands in place


def applicable(tf, ver):
    return not (ver == "1.0" and tf in ("comment", "comment_ellipsis"))


def transform(text, ver, tf, rng, dense=False):
    """Returns (new_text, changed_lines) or (None, reason) when not applicable."""
    lines = text.split("\n")
    if any("\r" in ln for ln in lines):
        return None, "expected: carriage-returns"
    if ver == "2.x":
        info = scan_v2(lines)
        inside = [a for a, b, c in info]
        triple = [b for a, b, c in info]
        no_blank_after = [c for a, b, c in info]
    else:
        info = scan_v1(lines)
        inside = [a for a, b, c in info]
        triple = [a or b for a, b, c in info]
        no_blank_after = [c for a, b, c in info]
    p = 1.0 if dense else 0.4
    changed = 0
    tfs = [tf]
    if tf == "combo":
        tfs = ["trail", "indent2", "blank"] + (["comment"] if ver == "2.x" else [])
    for t in tfs:
        if t in ("indent2", "indent3"):
            k = 2 if t == "indent2" else 3
            for i, ln in enumerate(lines):
                if inside[i] or not ln.strip():
                    continue
                lead = ln[: len(ln) - len(ln.lstrip(" \t"))]
                if "\t" in lead:
                    return None, "expected: tab-indented"
            for i, ln in enumerate(lines):
                if inside[i] or not ln.strip():
                    continue
                nlead = len(ln) - len(ln.lstrip(" "))
                if nlead:
                    lines[i] = " " * (k * nlead) + ln[nlead:]
                    changed += 1
        elif t in ("trail", "trail_tab"):
            # trailing TABs are kept apart from trailing spaces (separate mechanism in the 2.x grammar)
            for i, ln in enumerate(lines):
                if inside[i] or triple[i]:
                    continue
                if ln.strip() and rng.random() < p:
                    lines[i] = ln + (" " * rng.randint(1, 3) if t == "trail" else rng.choice(["\t", " \t", "\t "]))
                    changed += 1
        elif t == "comment_ellipsis":
            # kept apart from "comment": text after the `...` shortcut is a separate mechanism
            for i, ln in enumerate(lines):
                if inside[i] or triple[i] or ln.strip() != "..." or not _ELLIPSIS_LINE.match(ln):
                    continue
                lines[i] = ln.rstrip() + " " * rng.randint(1, 4) + "# c0mment"
                changed += 1
            if not changed:
                return None, "expected: no-ellipsis-line"
        elif t == "comment":
            for i, ln in enumerate(lines):
                if inside[i] or triple[i] or not ln.strip() or _ELLIPSIS_LINE.match(ln):
                    continue
                if rng.random() < p:
                    lines[i] = ln + rng.choice(["  # c0mment", " # x", "  #", ' # say "q" \'z', "  # and or when"])
                    changed += 1
        elif t in ("blank", "blank_ws"):
            new = []
            nb = []
            ins = []
            tr = []
            if rng.random() < p:
                new.append("")
                nb.append(False)
                ins.append(False)
                tr.append(False)
                changed += 1
            for i, ln in enumerate(lines):
                new.append(ln)
                nb.append(no_blank_after[i])
                ins.append(inside[i])
                tr.append(triple[i])
                if no_blank_after[i] or i == len(lines) - 1:
                    continue
                if rng.random() < p:
                    for _ in range(rng.randint(1, 2)):
                        new.append(" " * rng.randint(1, 6) if t == "blank_ws" and rng.random() < 0.7 else "")
                        nb.append(False)
                        ins.append(False)
                        tr.append(False)
                        changed += 1
            lines, no_blank_after, inside, triple = new, nb, ins, tr
    return "\n".join(lines), changed


# ----------------------------------------------------------------------------
# generators of valid programs (text + the facts the oracle checks)
# ----------------------------------------------------------------------------

_WORDS = ["alpha", "bravo", "kilo", "lima", "mike", "oscar", "papa", "romeo", "tango", "zulu"]


class _Tok:
    def __init__(self):
        self.n = 0
        self.strings = []

    def s(self, hashy=True):
        """A unique string literal body; may contain `#`, `'`, and keywords."""
        self.n += 1
        body = "T%dq %s" % (self.n, ["plain text", "with # hash", "it's # here", "and or when", "a  b", "x #"][self.n % 6 if hashy else 0])
        self.strings.append(body)
        return body


def gen_v2(seed):
    """A valid Colang 2.x program.  Returns (text, flow_names, string_tokens)."""
    rng = random.Random("c13-gen-v2-%s" % seed)
    tk = _Tok()
    # the 2.x pre-parser's docstring tracking is confused by a multi-line string value, after
    # which `...` is no longer expanded: a program gets one of the two, never both
    use_ellipsis = rng.random() < 0.35
    nflows = rng.randint(1, 4)
    names = []
    while len(names) < nflows:
        nm = " ".join(rng.sample(_WORDS, rng.randint(1, 3)))
        if nm not in names and nm.replace(" ", "") not in ("", "main") and not nm.startswith("flow"):
            names.append(nm)
    out = []
    if rng.random() < 0.5:
        out.append("import core")
        if rng.random() < 0.4:
            out.append("import llm")
        out.append("")
    if rng.random() < 0.3:
        out.append("# leading comment line %d" % rng.randint(0, 9))
    var = lambda: "$" + rng.choice(["a", "b", "count", "ref_x", "value"])  # noqa: E731
    ev = lambda: rng.choice(["EvOne", "EvTwo", "UtteranceUserActionFinished", "Other9Event"])  # noqa: E731
    act = lambda: rng.choice(["UtteranceBotAction", "FetchAction", "Gesture2Action"])  # noqa: E731

    def expr(d=0):
        k = rng.randint(0, 9 if d < 2 else 5)
        if k == 0:
            return str(rng.randint(0, 99))
        if k == 1:
            return '"%s"' % tk.s()
        if k == 2:
            return var()
        if k == 3:
            return rng.choice(["True", "False", "None", "3.5"])
        if k == 4:
            return "%s.%s" % (var(), rng.choice(["text", "uid", "arguments"]))
        if k == 5:
            return "len(%s)" % var()
        if k == 6:
            return "%s %s %s" % (expr(d + 1), rng.choice(["+", "-", "*", "/", "%"]), expr(d + 1))
        if k == 7:
            return "[%s]" % ", ".join(atom() for _ in range(rng.randint(0, 3)))
        if k == 8:
            return "{%s}" % ", ".join('"k%d": %s' % (i, atom()) for i in range(rng.randint(1, 3)))
        return "%s[%d]" % (var(), rng.randint(0, 3))

    def atom():
        k = rng.randint(0, 3)
        return [str(rng.randint(0, 9)), '"%s"' % tk.s(), var(), "'%s'" % tk.s(False).replace("'", "")][k]

    def test():
        a = "%s %s %s" % (expr(1), rng.choice(["==", "!=", "<", ">=", "in", "not in", "is", "is not"]), expr(1))
        k = rng.randint(0, 4)
        if k == 0:
            return "%s and %s" % (a, var())
        if k == 1:
            return "not %s or %s" % (var(), a)
        if k == 2:
            return var()
        return a

    def args(classic=True):
        n = rng.randint(0, 3)
        parts = []
        for i in range(n):
            parts.append("%s=%s" % (rng.choice(["text", "script", "final_transcript", "p"]) + str(i), expr(1)))
        return "(" + ", ".join(parts) + ")"

    def spec():
        k = rng.randint(0, 5)
        if k <= 1:
            return ev() + args()
        if k == 2:
            return act() + args() + rng.choice(["", ".Finished()", ".Started()"])
        if k == 3:
            return rng.choice(names) + rng.choice(["", ' "%s"' % tk.s(), " " + var()])
        if k == 4:
            return "%s.%s" % (var(), rng.choice(["Finished()", "Failed()", "Started()"]))
        return ev() + args() + " as " + var()

    def group(sep_nl, ind):
        n = rng.randint(2, 3)
        parts = [spec() for _ in range(n)]
        s = parts[0]
        for p in parts[1:]:
            op = rng.choice(["and", "or"])
            if sep_nl and rng.random() < 0.6:
                s += "\n" + " " * (ind + 2) + op + " " + p
            else:
                s += " " + op + " " + p
        return s

    def block(ind, depth, in_loop):
        pad = " " * ind
        res = []
        for _ in range(rng.randint(1, 4 if depth else 6)):
            k = rng.randint(0, 21)
            if k <= 2:
                res.append(pad + rng.choice(["match", "send", "await", "start"]) + " " + spec())
            elif k == 3:
                res.append(pad + "match " + group(True, ind))
            elif k == 4:
                res.append(pad + "%s = %s" % (var(), expr()))
            elif k == 5:
                res.append(pad + "%s %s %s" % (var(), rng.choice(["+=", "-="]), rng.randint(1, 5)))
            elif k == 6:
                res.append(pad + "%s = await %s%s" % (var(), act(), args()))
            elif k == 7 and depth < 3:
                res.append(pad + "if " + test() + rng.choice(["", ":"]))
                res += block(ind + 2, depth + 1, in_loop)
                for _ in range(rng.randint(0, 2)):
                    res.append(pad + rng.choice(["elif ", "else if "]) + test())
                    res += block(ind + 2, depth + 1, in_loop)
                if rng.random() < 0.5:
                    res.append(pad + "else" + rng.choice(["", ":"]))
                    inner = block(ind + 2, depth + 1, in_loop)
                    if inner[0].lstrip().startswith("if "):
                        inner.insert(0, " " * (ind + 2) + "pass")
                    res += inner
            elif k == 8 and depth < 3:
                res.append(pad + "while " + test() + rng.choice(["", ":"]))
                res += block(ind + 2, depth + 1, True)
            elif k == 9 and depth < 3:
                res.append(pad + "when " + spec())
                res += block(ind + 2, depth + 1, in_loop)
                for _ in range(rng.randint(0, 2)):
                    res.append(pad + rng.choice(["or when ", "orwhen "]) + spec())
                    res += block(ind + 2, depth + 1, in_loop)
                if rng.random() < 0.4:
                    res.append(pad + "else")
                    inner = block(ind + 2, depth + 1, in_loop)
                    if inner[0].lstrip().startswith("if "):
                        inner.insert(0, " " * (ind + 2) + "pass")
                    res += inner
            elif k == 10:
                res.append(pad + rng.choice(["log", "print"]) + ' "%s"' % tk.s())
            elif k == 11:
                res.append(pad + "# comment %d inside a block" % rng.randint(0, 99))
                res.append(pad + "pass")
            elif k == 12:
                res.append(pad + rng.choice(["activate", "deactivate", "stop"]) + " " + rng.choice(names))
            elif k == 13:
                res.append(pad + "await " + act() + '(script="%s")' % tk.s() + " as " + var())
            elif k == 14 and in_loop:
                res.append(pad + rng.choice(["break", "continue"]))
            elif k == 15:
                res.append(pad + "global " + var())
            elif k == 16:
                res.append(pad + "%s = ...\"%s\"" % (var(), tk.s(False)))
            elif k == 17:
                res.append(pad + "await (" + rng.choice(names) + "\n" + pad + "      or " + rng.choice(names) + ")")
            elif k == 18:
                res.append(pad + "send " + ev() + "(\n" + pad + "    text=\"%s\",\n" % tk.s() + pad + "  count=%d\n" % rng.randint(0, 9) + pad + ")")
            elif k == 19:
                res.append(pad + ("..." if use_ellipsis and rng.random() < 0.7 else "priority 0.%d" % rng.randint(1, 9)))
            elif k == 20 and not use_ellipsis:
                res.append(pad + '%s = """%s\n%s  second line # kept\n%s"""' % (var(), tk.s(), pad, pad))
            else:
                res.append(pad + rng.choice(names) + rng.choice(["", ' "%s"' % tk.s()]))
            if rng.random() < 0.12:
                res[-1] = res[-1] + "  # eol %d" % rng.randint(0, 9) if "\n" not in res[-1] and '"""' not in res[-1] and res[-1].strip() != "..." else res[-1]
        return res

    for nm in names:
        for _ in range(rng.randint(0, 2)):
            out.append(rng.choice(["@active", '@loop("l%d")' % rng.randint(0, 3), "@meta(exclude_from_llm=True)", '@override']))
        head = "flow " + nm
        k = rng.randint(0, 3)
        if k == 1:
            head += " $p " + '$q="%s"' % tk.s()
        elif k == 2:
            head += " $p=%d" % rng.randint(0, 9)
        if rng.random() < 0.3:
            head += " -> $r" + rng.choice(["", ', $s="%s"' % tk.s(False)])
        out.append(head)
        if rng.random() < 0.5:
            out.append('  """%s"""' % tk.s())
        body = block(2, 0, False)
        if body and body[0].lstrip().startswith('"""'):
            body.insert(0, "  pass")
        out += body
        if rng.random() < 0.3:
            out.append("  return " + rng.choice([var(), '"%s"' % tk.s(), str(rng.randint(0, 9)), var() + " + 1"]))
        elif rng.random() < 0.1:
            out.append("  abort")
        out += [""] * rng.randint(1, 2)
    text = "\n".join(out) + "\n"
    return text, names, [x for x in tk.strings if x in text]


def gen_v1(seed):
    """A valid Colang 1.0 program.  Returns (text, flow_ids, string_tokens)."""
    rng = random.Random("c13-gen-v1-%s" % seed)
    tk = _Tok()
    out = []
    intents = []
    bots = []
    flows = []
    ph = lambda: " ".join(rng.sample(_WORDS, rng.randint(2, 3)))  # noqa: E731
    for _ in range(rng.randint(1, 3)):
        nm = "express " + ph()
        if nm in intents:
            continue
        intents.append(nm)
        out.append("define user " + nm)
        for _ in range(rng.randint(1, 3)):
            out.append('  "%s"' % tk.s())
        out.append("")
    for _ in range(rng.randint(1, 3)):
        nm = "inform " + ph()
        if nm in bots:
            continue
        bots.append(nm)
        out.append("define bot " + nm)
        for _ in range(rng.randint(1, 2)):
            out.append('  "%s"' % tk.s())
        out.append("")
    var = lambda: "$" + rng.choice(["a", "b", "count", "allowed", "result"])  # noqa: E731

    def cond():
        return rng.choice(["%s == %d", "%s > %d", "not %s and %d", "%s != %d"]) % (var(), rng.randint(0, 9))

    def block(ind, depth):
        pad = " " * ind
        res = []
        for _ in range(rng.randint(1, 4 if depth else 6)):
            k = rng.randint(0, 15)
            if k <= 1:
                res.append(pad + "user " + rng.choice(intents))
            elif k <= 3:
                res.append(pad + "bot " + rng.choice(bots))
            elif k == 4:
                res.append(pad + "%s = %s" % (var(), rng.choice([str(rng.randint(0, 9)), '"%s"' % tk.s(), var() + " + 1", "True"])))
            elif k == 5:
                res.append(pad + "execute act_%s(p=%s, q=\"%s\")" % (rng.choice(_WORDS), var(), tk.s()))
            elif k == 6:
                res.append(pad + "%s = execute act_%s" % (var(), rng.choice(_WORDS)))
            elif k == 7 and depth < 3:
                res.append(pad + "if " + cond() + rng.choice(["", ":"]))
                res += block(ind + 2, depth + 1)
                if rng.random() < 0.4:
                    res.append(pad + "else if " + cond())
                    res += block(ind + 2, depth + 1)
                if rng.random() < 0.5:
                    res.append(pad + "else")
                    res += block(ind + 2, depth + 1)
            elif k == 8 and depth < 3:
                res.append(pad + "while " + cond())
                res += block(ind + 2, depth + 1)
            elif k == 9 and depth < 2:
                res.append(pad + "when user " + rng.choice(intents))
                res += block(ind + 2, depth + 1)
                if rng.random() < 0.6:
                    res.append(pad + "else when user " + rng.choice(intents))
                    res += block(ind + 2, depth + 1)
            elif k == 10:
                res.append(pad + "# instruction comment %d" % rng.randint(0, 99))
                res.append(pad + "bot " + rng.choice(bots))
            elif k == 11 and depth == 0:
                res.append(pad + "bot inline %s" % rng.choice(_WORDS))
                res.append(pad + '  "%s"' % tk.s())
            elif k == 12:
                res.append(pad + "do sub " + rng.choice(_WORDS))
            elif k == 13:
                res.append(pad + rng.choice(["create event", "event"]) + " Ev%s(text=\"%s\")" % (rng.choice(_WORDS).title(), tk.s()))
            elif k == 14:
                res.append(pad + "if " + cond() + rng.choice([" or \\\n", " or\n"]) + pad + "      " + cond())
                res += block(ind + 2, depth + 1)
            else:
                res.append(pad + "user ...")
                res.append(pad + "bot ...")
        return res

    for _ in range(rng.randint(1, 3)):
        nm = ph()
        if nm in flows:
            continue
        flows.append(nm)
        out.append("define " + rng.choice(["flow ", "flow ", "subflow ", "parallel flow "]) + nm)
        if rng.random() < 0.4:
            out.append('  """Doc %s."""' % tk.s(False))  # lives in the source mapping only
        if rng.random() < 0.2:
            out.append("  priority 0.%d" % rng.randint(1, 9))
        out.append("  user " + rng.choice(intents))
        out += block(2, 0)
        if rng.random() < 0.2:
            out.append("  stop")
        out += [""] * rng.randint(1, 2)
    text = "\n".join(out) + "\n"
    return text, flows, [x for x in tk.strings if x in text and ('"""Doc %s' % x) not in text]


# ----------------------------------------------------------------------------
# robustness inputs
# ----------------------------------------------------------------------------

_INS = [
    '"', "'", "(", ")", "$", "\n  ", "\n", ":", " and ", " or ", "...", "{", "}", "[", "]", "\t", "=", "#", "'''", '"""',
    "@", "->", ",", ".", "\\", " ", "    ", "when ", "else", "flow ", "define ", "import ", "match ", "await ", "if ",
    "while ", "return ", "user ", "bot ", "execute ", "as $r", "or when ", "elif ", "0", "1e", "-", "**", "\u00e9", "\u00df",
    "\u4e2d", "\u00a0", "\u2028", "\u0085", "\x0c", "\r", "\r\n", "\U0001f600", "\u200b", "\ufeff", "\u0301", "\x00", "\x1b",
    "\u202e", "\u3000",
]


def mutate_once(s, rng):
    if not s:
        return rng.choice(_INS)
    k = rng.choice(["del", "ins", "ins", "trunc", "head", "swap", "dup", "repl", "delline", "reindent", "dupline", "case"])
    i = rng.randrange(len(s))
    if k == "del":
        return s[:i] + s[i + rng.randint(1, 5) :]
    if k == "ins":
        return s[:i] + rng.choice(_INS) + s[i:]
    if k == "trunc":
        return s[:i]
    if k == "head":
        return s[i:]
    if k == "swap":
        j = rng.randrange(len(s))
        a, b = min(i, j), max(i, j)
        if a == b:
            return s
        return s[:a] + s[b] + s[a + 1 : b] + s[a] + s[b + 1 :]
    if k == "dup":
        return s[:i] + s[max(0, i - rng.randint(1, 30)) : i] + s[i:]
    if k == "repl":
        return s[:i] + rng.choice(_INS)[:1] + s[i + 1 :]
    if k == "case":
        return s[:i] + s[i : i + 8].swapcase() + s[i + 8 :]
    lines = s.split("\n")
    j = rng.randrange(len(lines))
    if k == "delline":
        del lines[j]
    elif k == "reindent":
        lines[j] = " " * rng.choice([0, 1, 2, 3, 4, 6, 8]) + lines[j].lstrip(" ")
    else:
        lines.insert(j, " " * rng.choice([0, 2, 4, 7]) + lines[j].lstrip(" "))
    return "\n".join(lines)


def window(s, rng, maxlen=2500):
    """A slice of a long seed file that starts at a top-level line."""
    if len(s) <= maxlen:
        return s
    lines = s.split("\n")
    tops = [i for i, ln in enumerate(lines) if ln and not ln[0].isspace() and not ln.startswith("#")]
    i = rng.choice(tops) if tops else 0
    out = []
    n = 0
    for ln in lines[i:]:
        if n + len(ln) > maxlen and out:
            break
        out.append(ln)
        n += len(ln) + 1
    head = [ln for ln in lines[:i] if ln.startswith("import ")][:3]
    return "\n".join(head + out)


def grammar_terminals(grammar_text):
    """String literals of the .lark grammar (keywords, operators, brackets)."""
    lits = set()
    for ln in grammar_text.split("\n"):
        ln = ln.split("//")[0]
        if "/" in ln and re.search(r":\s*/", ln):
            continue  # regex terminals get hand-written samples below
        for m in re.finditer(r'"((?:[^"\\]|\\.)+)"', ln):
            lits.add(m.group(1).replace('\\"', '"'))
    return sorted(lits)


_SAMPLES_V2 = [
    "flow", "if", "elif", "else if", "else", "or when", "orwhen", "and ", "or ", "is", "in", "not", "name", "bot say", "user said",
    "Ev1", "UtteranceBotAction", "$x", "$ref_1", '"str"', "'s'", '"a # b"', '"""doc"""', "'''d\n  d'''", '..."nld"', "...", "0", "7",
    "12_3", "3.5", "1e9", ".5", "# comment", "\n", "\n  ", "\n    ", "\n      ", "\n\t", "\n \t ", " ", "True", "False", "None",
    ".Finished()", "(", ")", "()", "[", "]", "{", "}", "é", "中", "_", "x1",
]
_SAMPLES_V1 = [
    "define", "define flow", "define user", "define bot", "define subflow", "define extension flow", "define parallel flow", "flow",
    "user", "bot", "execute", "exec", "run", "do", "if", "else", "else if", "else when", "when", "while", "stop", "break", "continue",
    "return", "event", "create event", "infer", "new", "label", "goto", "meta", "priority", "set", "any", "something", "says",
    "import", "include", "use", "snippet", "template", "express greeting", "ask about x", "...", '"hello"', '"multi', 'line"', "'q'",
    "$x", "$a.b", "=", "==", "+=", "-=", "(", ")", "()", "(a=1)", ",", ":", "#", "# note", '"""', "\\", " or", "or", "and", "not",
    "0", "1", "0.9", "True", "None", "{", "}", '{"priority": 2}', "[", "]", "\n", "\n  ", "\n    ", "\n      ", "\n\t", "é", "中", "*",
    "$", "-", "user ...", "bot ...", "Ev(text=\"x\")", "as", "in", "context", "expecting user", "if $x", "when user", "```", "## h", "- x",
]


def soup(ver, rng, terminals):
    """Random token sequences; half of them start like a real definition so that
    the parser gets past its first token."""
    toks = (terminals + _SAMPLES_V2 * 2) if ver == "2.x" else _SAMPLES_V1
    parts = []
    structured = rng.random() < 0.6
    if structured:
        if ver == "2.x":
            parts.append(rng.choice(["flow main", "flow a b", "import core\nflow main", "@active\nflow x $p", "flow f -> $r"]))
        else:
            parts.append(rng.choice(["define flow x", "define user ask y", "define bot say z", "define subflow s", "define flow"]))
    nl = rng.randint(1, 12)
    for _ in range(nl):
        line = "\n" + " " * rng.choice([0, 2, 2, 2, 4, 4, 6, 1, 3])
        nt = rng.randint(1, 8)
        sep = rng.choice([" ", " ", " ", ""])
        line += sep.join(rng.choice(toks) for _ in range(nt))
        parts.append(line)
    text = "".join(parts)
    if ver == "1.0" and not structured and rng.random() < 0.7:
        text = "define " + text
    return text
