"""C18 — streaming output does not depend on how the LLM text is chunked.

Differential monitor around the real `nemoguardrails.streaming.StreamingHandler`.
One case = (pattern configuration, text); inside the case the text is cut into
chunks in every possible way (all 2^(n-1) chunkings for short texts; all 2-chunk
splits + singletons + one chunk + seeded random chunkings for texts up to n=40)
and every chunking is fed to a fresh handler through three feeding paths:

  cb    on_llm_new_token(token, chunk=<LangChain chunk object>) ... on_llm_end(...)
  push  push_chunk(str) ... push_chunk("")
  pipe  like push, but the handler pipes into a second, plain handler whose
        queue is read (the shape used by generate_bot_message / single LLM call)

Observed: the items read from the handler's queue up to the first terminator
("" / None — what `__anext__` turns into StopAsyncIteration), joined; and the
handler's final `.completion`.

Oracle (order pinned by the repo's own test_suffix_with_stop* tests, DESIGN §3 C18):
    spec(text) = strip_suffix(cut_at_first_stop(strip_prefix(text)))
"""
import random
import zlib

PROPERTY = "C18"
LEVEL = "exploration"
RULE = (
    "case = (prefix, suffix, stop list, text, chunking set, chunk object type); all chunkings of the case run inside it on "
    "3 feeding paths (observed.chunkings / observed.runs are the real counts). Exhaustive part: for every configuration whose "
    "prefix+suffix is <= 4 chars, ALL body strings over the configuration's 2-5 letter collision alphabet (pattern characters + a filler) up to "
    "the length bound, wrapped (prefix+body+suffix) and bare, each with ALL 2^(n-1) chunkings (n <= 8 quick / 10 thorough); "
    "sampled part: the 7 texts + chunkings of the repo's own streaming tests (n <= 51) and seeded random texts to n=40 (incl. "
    "the production patterns `Bot message: \"`...`\"`, stop `\"\\n` / "
    "`\\nUser intent: `) with ALL chunkings when n <= 8/10, else all 2-chunk splits, the singleton and the one-chunk chunking and 40 (quick) / "
    "200 (thorough) random chunkings. non-trivial = a pattern is configured and at least one executed chunking with >= 2 chunks has a chunk boundary "
    "inside or at the edge of an occurrence of the prefix, the suffix or a stop sequence in the text (labels in "
    "observed.boundary_labels); distinct = (configuration, text, chunking set)"
)
MIN_HELD = {"quick": 3000, "thorough": 20000}
MIN_CHUNKINGS = {"quick": 100000, "thorough": 2000000}
EXHAUSTIVE = {"quick": True, "thorough": True}
ASSUMPTIONS = [
    "oracle: 6-line spec(): conditional strip of the prefix, cut at the earliest occurrence of any stop sequence, conditional "
    "strip of the suffix — in that order (pinned by tests/test_streaming_handler.py::test_suffix_with_stop*)",
    "core class (text starts with the configured prefix and the part before the first stop ends with the configured suffix): "
    "joined items == .completion == spec(text) on all three paths",
    "extended class (pattern absent from the text): the same equality wherever the handler can know the text is over — always on "
    "the callback path (on_llm_end flushes), and on push/pipe when the prefix is found or not configured; with a configured but "
    "absent prefix push_chunk('') never releases anything by design, there only chunking-independence (all chunkings give one "
    "(joined, completion) pair) is required",
    "EXHAUSTIVE refers to the enumerated sub-scope named in `rule` (texts x chunkings); the long-text part is sampled",
    "items after the first ''/None item are not read (that is what the async iterator does); whether a terminator is delivered "
    "at all is counted (observed.runs_without_terminator) but is not part of the property",
    "patterns are set before the first chunk and not changed during the stream; chunks are non-empty strings (an empty FIRST "
    "token on the callback path is part of the workload: the handler documents that it ignores it)",
]
SAMPLE_EVERY = 211
CASE_WALL_S = 120
PATHS = ("cb", "push", "pipe")
KNOWN_STOP = "stop-occurs-in-text"
KNOWN_SUFFIX = "suffix-in-prefix-completing-chunk"

# (prefix, suffix, stops, alphabet for the exhaustive bodies)
SHORT_CONFIGS = [
    (None, None, [], 'a" \n'),
    ('  "', '"', [], ' "a\n'),
    ('  "', '"', ['"\n'], ' "a\n'),
    ('  "', None, [], ' "a'),
    ('  "', '">', [], ' ">a'),
    ('  "', '"', ["XY"], '"aXY'),
    (None, '"', [], '"a\n'),
    (None, '">', [], '">a'),
    (None, '""', [], '"a'),
    (None, None, ['"\n'], '"\na'),
    (None, None, ["XY"], "XYa"),
    (None, None, ["aa"], "ab"),
    (None, None, ["XY", '"\n'], 'XY"\na'),
    (None, '"', ["XY"], '"aXY'),
    (None, '"', ["X"], '"aX\n'),
    (None, '"', ['"\n'], '"\na'),
    (None, '"', ['a"'], '"ab'),
    ("aa", "a", [], "ab"),
    ('B"', '"', ['"\n'], 'B"\na'),
    # patterns whose first character recurs inside them (partial matches must be found at every start position)
    (None, None, ["aab"], "ab"),
    (None, None, ["abac"], "abc"),
    (None, "aab", [], "ab"),
    (None, '""x', [], '"xa'),
    (None, None, ["\n\nU"], "\nUa"),
    # several stop sequences: the cut is at the one that occurs FIRST IN THE TEXT, whatever their order in the list
    (None, None, ["b", "a"], "abc"),
    (None, '"', ["X", "\n"], '"aX\n'),
    (None, None, ["\nU", "\nB"], "\nUBa"),
    ('  "', '"', ["XY", '"\n'], '"\nXYa'),
]
LONG_CONFIGS = [
    ('Bot message: "', '"', []),
    ('Bot message: "', '"', ["\nUser intent: "]),
    ('Bot message: "', '"', ['"\n']),
    ('  "', '"', ['"\n']),
    ('  "', '"', []),
    ("User intent: ", None, []),
    (None, '"', ['"\n']),
    (None, None, ["\nUser intent: ", '"\n']),
    (None, "</s>", ["\n\n"]),
    (None, None, ["\n\nUser"]),
    ('Bot message: "', '"', ["\n\nUser intent: "]),
    ('Bot: "', '">', ["XY"]),
]
CTYPES = ("gen", "chat", "ai")
_BM = ('Bot message: "', '"', ["\nUser intent: "])
# texts and chunkings of the repository's own streaming tests (they pin the order of the oracle) + production shapes
PINNED = [
    (_BM, ["Bot", " message: ", '"', "This is a message", '"', "\n", "User ", "intent: ", "bla"]),
    (_BM, ["Bot", " message: ", '"', "This is a message", '."']),
    (_BM, ["Bot", " message: ", '"', "This is a message", '."\nUser', " intent: ", " xxx"]),
    (('Bot message: "', '"', ['"\n']), ["Bot", " message: ", '"', "This is a message", '."\nUser', " intent: ", " xxx"]),
    (("User intent: ", None, []), ["User", " ", "intent", ":", " ask question"]),
    (('  "', '"', []), ['  "Hello ', "there! ", "How ", "are ", "you ", 'today?"']),
    (('  "', '"', ['"\n']), ['  "Hi, how are you doing?"\nuser ask', " about", " x"]),
]


# ----------------------------------------------------------------- oracle
def spec(text, prefix, suffix, stops):
    t = text[len(prefix):] if prefix and text.startswith(prefix) else text
    cuts = [t.find(x) for x in stops if x in t]
    if cuts:
        t = t[: min(cuts)]
    if suffix and t.endswith(suffix):
        t = t[: -len(suffix)]
    return t


def body_of(text, prefix):
    return text[len(prefix):] if prefix and text.startswith(prefix) else text


def in_core_class(text, prefix, suffix, stops):
    if prefix and not text.startswith(prefix):
        return False
    t = body_of(text, prefix)
    cuts = [t.find(x) for x in stops if x in t]
    if cuts:
        t = t[: min(cuts)]
    return not suffix or t.endswith(suffix)


# ----------------------------------------------------------------- cases
def _all_strings(alpha, maxlen):
    layer = [""]
    yield ""
    for _ in range(maxlen):
        layer = [w + c for w in layer for c in alpha]
        for w in layer:
            yield w


def cases(tier, seed):
    maxn = 8 if tier == "quick" else 10
    i = 0
    seen = set()
    # ---- exhaustive sub-scope
    for ci, (p, s, stops, alpha) in enumerate(SHORT_CONFIGS):
        wrap = len(p or "") + len(s or "")
        cap = 4 if tier == "quick" else (6 if len(alpha) <= 3 else 5)
        L = min(maxn - wrap, cap)
        for body in _all_strings(alpha, L):
            for fam in ("wrapped", "bare"):
                text = ((p or "") + body + (s or "")) if fam == "wrapped" else body
                if not text or len(text) > maxn or (ci, text) in seen:
                    continue
                seen.add((ci, text))
                i += 1
                yield {
                    "id": i, "prefix": p, "suffix": s, "stop": stops, "text": text, "mode": "exh",
                    "ctype": CTYPES[i % 3], "lead_empty": i % 5 == 0, "scope": "exhaustive",
                }
    # ---- sampled long texts
    rng = random.Random(7700 + seed)
    nsamp = 1500 if tier == "quick" else 12000
    nrand = 40 if tier == "quick" else 200
    for (p, s, stops), chunks in PINNED:
        i += 1
        yield {
            "id": i, "prefix": p, "suffix": s, "stop": stops, "text": "".join(chunks), "mode": "rnd", "nrand": 5 * nrand,
            "rseed": 18 + seed, "extra_chunkings": [chunks], "ctype": CTYPES[i % 3], "lead_empty": i % 2 == 0, "scope": "sampled",
        }
    allcfg = LONG_CONFIGS + [(p, s, st) for (p, s, st, _a) in SHORT_CONFIGS if p or s or st]
    for k in range(nsamp):
        p, s, stops = allcfg[k % len(allcfg)]
        text = _random_text(rng, p, s, stops)
        i += 1
        yield {
            "id": i, "prefix": p, "suffix": s, "stop": stops, "text": text, "mode": "exh" if len(text) <= maxn else "rnd",
            "nrand": nrand, "rseed": rng.randrange(1 << 30), "ctype": CTYPES[i % 3], "lead_empty": i % 5 == 0, "scope": "sampled",
        }


def _random_text(rng, p, s, stops):
    pats = [x for x in [p, s] + list(stops) if x]
    alpha = "abc de." + "".join(sorted(set("".join(pats)))) * 2 + '"\n'
    budget = 40 - len(p or "") - len(s or "")
    n = rng.randint(0, max(1, min(budget, rng.choice([4, 8, 16, 26]))))
    body = "".join(rng.choice(alpha) for _ in range(n))
    shape = rng.random()
    if shape < 0.45:
        text = (p or "") + body + (s or "")
    elif shape < 0.75 and stops:
        # the realistic single-call shape: suffix immediately followed by a stop sequence and more text
        st = rng.choice(stops)
        tail = rng.choice(["", "a", "bla", "user ask", st, '"'])
        text = (p or "") + body + (s or "") + st + tail
    elif shape < 0.85:
        text = body  # pattern absent
    elif shape < 0.92 and p:
        text = p[: rng.randint(1, len(p))] + body + (s or "")  # partial / complete prefix
    else:
        cut = rng.randint(0, len(body))
        text = (p or "") + body[:cut] + rng.choice(pats or ["a"]) + body[cut:] + (s or "")
    text = text[:40]
    return text or "a"


def masks_of(case):
    """Chunkings as bit masks: bit k-1 set <=> boundary between text[k-1] and text[k]."""
    n = len(case["text"])
    if n == 1:
        return [0]
    if case["mode"] == "exh":
        return list(range(1 << (n - 1)))
    full = (1 << (n - 1)) - 1
    out = [0, full] + [1 << (k - 1) for k in range(1, n)]
    for chunks in case.get("extra_chunkings", []):
        m, k = 0, 0
        for c in chunks[:-1]:
            k += len(c)
            m |= 1 << (k - 1)
        out.append(m)
    rng = random.Random(case["rseed"])
    for _ in range(case["nrand"]):
        dens = rng.choice([0.08, 0.2, 0.35, 0.5, 0.7, 0.9])
        m = 0
        for k in range(n - 1):
            if rng.random() < dens:
                m |= 1 << k
        out.append(m)
    return sorted(set(out))


def chunks_of(text, mask):
    out = []
    start = 0
    for k in range(1, len(text)):
        if mask >> (k - 1) & 1:
            out.append(text[start:k])
            start = k
    out.append(text[start:])
    return out


def occurrences(text, prefix, suffix, stops):
    """[(label, a, b)] spans of pattern occurrences the chunk boundaries can fall into."""
    occ = []
    if prefix and text.startswith(prefix):
        occ.append(("prefix", 0, len(prefix)))
    t0 = len(prefix) if prefix and text.startswith(prefix) else 0
    body = text[t0:]
    cut = len(body)
    for st in stops:
        j = body.find(st)
        while j >= 0:
            occ.append(("stop", t0 + j, t0 + j + len(st)))
            cut = min(cut, j)
            j = body.find(st, j + 1)
    if suffix and body[:cut].endswith(suffix):
        occ.append(("suffix", t0 + cut - len(suffix), t0 + cut))
    return occ


# ----------------------------------------------------------------- worker side
_L = {}


class HookMissing(Exception):
    pass


def setup_worker():
    import nemoguardrails.streaming as streaming
    from langchain.schema.messages import AIMessageChunk
    from langchain.schema.output import ChatGenerationChunk, GenerationChunk, LLMResult

    H = streaming.StreamingHandler
    for name in ("push_chunk", "_process", "on_llm_new_token", "on_llm_end", "set_pattern", "set_pipe_to", "on_chat_model_start"):
        if not callable(getattr(H, name, None)):
            raise RuntimeError("StreamingHandler.%s is gone" % name)
    _L.update(H=H, AIMessageChunk=AIMessageChunk, ChatGenerationChunk=ChatGenerationChunk, GenerationChunk=GenerationChunk, LLMResult=LLMResult)
    return _L


def _mk_chunk(ctype, c):
    if ctype == "gen":
        return _L["GenerationChunk"](text=c)
    if ctype == "chat":
        return _L["ChatGenerationChunk"](message=_L["AIMessageChunk"](content=c))
    return _L["AIMessageChunk"](content=c)


def _drain(h):
    items = []
    term = False
    q = h.queue
    while not q.empty():
        x = q.get_nowait()
        if x is None or x == "":
            term = True
            break
        items.append(x)
    return items, term


async def _one(case, chunks, path):
    """Feed one chunking through one path into a fresh handler; returns (joined, completion, terminated, items)."""
    import asyncio
    import uuid

    H = _L["H"]
    h = H()
    for attr in ("prefix", "suffix", "stop", "completion", "queue"):
        if not hasattr(h, attr):
            raise HookMissing("StreamingHandler().%s" % attr)
    if case["prefix"] or case["suffix"]:
        h.set_pattern(prefix=case["prefix"], suffix=case["suffix"])
    h.stop = list(case["stop"])
    down = None
    if path == "pipe":
        down = H()
        h.set_pipe_to(down)
    if path == "cb":
        rid = uuid.UUID(int=1)
        ct = case["ctype"]
        if ct == "chat":
            await h.on_chat_model_start({}, [[]], run_id=rid)
        if case.get("lead_empty"):
            await h.on_llm_new_token("", chunk=_mk_chunk(ct, ""), run_id=rid)
        for c in chunks:
            await h.on_llm_new_token(c, chunk=_mk_chunk(ct, c), run_id=rid)
        await h.on_llm_end(_L["LLMResult"](generations=[[]]), run_id=rid)
    else:
        for c in chunks:
            await h.push_chunk(c)
        await h.push_chunk("")
    if down is not None:
        me = asyncio.current_task()
        for _ in range(10000):
            if all(t is me or t.done() for t in asyncio.all_tasks()):
                break
            await asyncio.sleep(0)
        items, term = _drain(down)
    else:
        items, term = _drain(h)
    return "".join(items), h.completion, term, items


def _prefix_chunk_reaches_suffix(text, prefix, suffix, chunks):
    """Structural condition of the known defect: the chunk that completes the prefix also carries (a part of) the suffix
    occurrence at the end of the text (for a one-character suffix: it runs to the end of the text)."""
    acc = 0
    for c in chunks:
        acc += len(c)
        if acc >= len(prefix):
            return acc > len(text) - len(suffix)
    return False


async def _run_all(case):
    text, p, s, stops = case["text"], case["prefix"], case["suffix"], case["stop"]
    exp = spec(text, p, s, stops)
    core = in_core_class(text, p, s, stops)
    prefix_absent = bool(p) and not text.startswith(p)
    masks = masks_of(case)
    obs = {
        "chunkings": len(masks), "runs": 0, "runs_cb": 0, "runs_push": 0, "runs_pipe": 0, "runs_judged_against_spec": 0,
        "runs_judged_for_independence_only": 0, "runs_without_terminator": 0, "runs_where_stop_cut_text": 0,
        "max_text_len": len(text), "max_chunks": 0, "exceptions": 0,
    }
    viols = []  # (known_key_or_None, kind, path, chunks, streamed, completion)
    per_path_outputs = {}
    stop_in_text = any(x in body_of(text, p) for x in stops)
    for path in PATHS:
        absolute = path == "cb" or not prefix_absent
        outs = per_path_outputs.setdefault(path, {})
        for m in masks:
            chunks = chunks_of(text, m)
            obs["runs"] += 1
            obs["runs_" + path] += 1
            obs["max_chunks"] = max(obs["max_chunks"], len(chunks))
            try:
                st, comp, term, _items = await _one(case, chunks, path)
                kind = None
            except HookMissing:
                raise
            except Exception as e:  # an exception escaping the handler is an observation, and a refutation
                st, comp, term = None, None, False
                kind = "exception:%s" % type(e).__name__
                obs["exceptions"] += 1
            if not term:
                obs["runs_without_terminator"] += 1
            if stop_in_text:
                obs["runs_where_stop_cut_text"] += 1
            if kind is None:
                outs.setdefault((st, comp), chunks)
                if absolute:
                    obs["runs_judged_against_spec"] += 1
                    if st != exp:
                        kind = "streamed-differs-from-spec"
                    elif comp != exp:
                        kind = "completion-differs-from-spec"
                else:
                    obs["runs_judged_for_independence_only"] += 1
            if kind is not None:
                known = None
                if stop_in_text:
                    known = KNOWN_STOP
                elif p and s and text.startswith(p) and text.endswith(s) and _prefix_chunk_reaches_suffix(text, p, s, chunks):
                    known = KNOWN_SUFFIX
                viols.append((known, kind, path, chunks, st, comp))
        if not absolute and len(outs) > 1:
            (a, ca), (b, cb) = list(outs.items())[:2]
            viols.append((KNOWN_STOP if stop_in_text else None, "chunking-dependent", path, [ca, cb], [a[0], b[0]], [a[1], b[1]]))
    return exp, core, masks, obs, viols, stop_in_text, prefix_absent


def run_case(case):
    import asyncio

    if not _L:
        setup_worker()
    text, p, s, stops = case["text"], case["prefix"], case["suffix"], case["stop"]
    loop = _L.get("loop")
    if loop is None or loop.is_closed():
        loop = _L["loop"] = asyncio.new_event_loop()
        asyncio.set_event_loop(loop)
    try:
        exp, core, masks, obs, viols, stop_in_text, prefix_absent = loop.run_until_complete(_run_all(case))
    except HookMissing as e:
        return {"verdict": "inconclusive", "reason": "hook-missing: %s" % e, "nontrivial": False}
    # chunk boundaries that fell inside / at the edge of a pattern occurrence, really executed
    hit = 0
    for m in masks:
        hit |= m
    labels = set()
    for label, a, b in occurrences(text, p, s, stops):
        for k in range(max(a, 1), min(b, len(text) - 1) + 1):
            if hit >> (k - 1) & 1:
                labels.add("%s+%d/%d" % (label, k - a, b - a))
    obs["boundary_labels"] = sorted(labels)
    obs["core_class_cases" if core else "extended_class_cases"] = 1
    if prefix_absent:
        obs["prefix_absent_cases"] = 1
    obs["%s_scope_cases" % case.get("scope", "x")] = 1
    obs["%s_scope_chunkings" % case.get("scope", "x")] = len(masks)
    if case["mode"] == "exh":
        obs["cases_with_all_chunkings"] = 1
        obs["max_text_len_with_all_chunkings"] = len(text)
    cfg = {"prefix": p, "suffix": s, "stop": stops}
    base = {
        "key": repr((p, s, stops, text, case["mode"], case.get("nrand"), case.get("rseed"))),
        "nontrivial": bool(p or s or stops) and bool(labels),
        "observed": obs,
        "sample": {
            "config": cfg, "text": text, "spec": exp, "class": "core" if core else "extended", "chunkings_run": len(masks),
            "paths": list(PATHS), "example_chunking": chunks_of(text, masks[len(masks) // 2]), "boundary_labels": sorted(labels),
        },
        "stop_in_text": stop_in_text,
        "has_prefix_and_suffix": bool(p and s),
    }
    if obs["runs_judged_against_spec"] + obs["runs_judged_for_independence_only"] + obs["exceptions"] == 0:
        return dict(base, verdict="inconclusive", reason="monitor-not-reached", nontrivial=False)
    if not viols:
        return dict(base, verdict="held")
    unknown = [v for v in viols if v[0] is None]
    pick = min(unknown or viols, key=lambda v: (len(v[3]), len(repr(v[3]))))
    known_keys = sorted({v[0] for v in viols if v[0]})
    return dict(
        base,
        verdict="violated",
        mechanism=(None if unknown else pick[0]),
        kind=pick[1],
        path=pick[2],
        witness={
            "config": cfg, "text": text, "class": "core" if core else "extended", "expected_spec": exp, "kind": pick[1], "path": pick[2],
            "chunking": pick[3], "streamed_joined": pick[4], "completion": pick[5],
            "violating_runs": len(viols), "violating_runs_outside_known_classes": len(unknown), "known_classes_also_hit": known_keys,
            "runs": obs["runs"], "chunk_type": case["ctype"], "lead_empty_token": bool(case.get("lead_empty")),
        },
    )


def classify(r):
    """Mechanism key. The two defect classes known on the unchanged tree are decided by
    configuration-level facts computed in run_case (never by the shape of the wrong output):
      stop-occurs-in-text                 a configured stop sequence occurs in the text (after the prefix)
      suffix-in-prefix-completing-chunk   prefix and suffix configured, no stop in the text, and in EVERY violating run of the
                                          case the chunk that completes the prefix reaches into the suffix at the end of the
                                          text (one-character suffix: runs to the end of the text)
    A case with at least one violating run outside these conditions is keyed by what was observed."""
    m = r.get("mechanism")
    if m in (KNOWN_STOP, KNOWN_SUFFIX):
        if m == KNOWN_SUFFIX and not (r.get("has_prefix_and_suffix") and not r.get("stop_in_text")):
            return "unclassified"
        return m
    return "%s:%s" % (r.get("kind", "unknown"), r.get("path", "?"))


def finalize(tier, seed, observed, counts):
    n = observed.get("chunkings", 0)
    out = {"coverage": {"chunkings_total": n, "handler_runs_total": observed.get("runs", 0), "min_chunkings_required": MIN_CHUNKINGS[tier]}}
    if n < MIN_CHUNKINGS[tier] and counts.get("held", 0) + counts.get("violated", 0) >= MIN_HELD[tier]:
        out["inconclusive"] = "only %d chunkings executed (< %d)" % (n, MIN_CHUNKINGS[tier])
    return out
