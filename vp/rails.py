"""LLMRails harness shared by C01 / C02 / C03 (and used by C16/C17/C15 for fakes).

* HashEmbedding (engine `verif_hash`) makes the default embeddings index usable offline.
* RecLLM: a langchain LLM with real fields (temperature, max_tokens, model_kwargs);
  every call is recorded on the shared logical clock BEFORE it answers; the answer is
  a function of the prompt (prompt-keyed script).
* build_v1 / build_v2: generated configurations with k input and m output rails whose
  verdicts come from a table the harness controls; rail actions are wrapped so that
  every call is recorded with the text it was shown (and can raise: fault injection).
* Conversation driver: plays turns the way callers do (append the reply, resend the
  whole list for v1; thread the state object for v2) and returns per-turn observations.
"""
import hashlib
from typing import Any, Dict, List, Optional

_L = {}

MAIN_MODELS = "models:\n  - type: main\n    engine: openai\n    model: gpt-3.5-turbo-instruct\n  - type: embeddings\n    engine: verif_hash\n    model: h\n"


def load():
    if _L:
        return _L
    from langchain_core.language_models.llms import LLM
    from nemoguardrails import LLMRails, RailsConfig
    from nemoguardrails.actions.actions import ActionResult
    from nemoguardrails.embeddings.providers import register_embedding_provider
    from nemoguardrails.embeddings.providers.base import EmbeddingModel

    class HashEmbedding(EmbeddingModel):
        engine_name = "verif_hash"

        def __init__(self, embedding_model=None, **kwargs):
            self.model = embedding_model

        def encode(self, documents):
            out = []
            for d in documents:
                h = hashlib.sha256(d.encode()).digest()
                out.append([(b - 128) / 128.0 for b in h[:16]])
            return out

        async def encode_async(self, documents):
            return self.encode(documents)

    try:
        register_embedding_provider(HashEmbedding)
    except Exception:
        pass

    class RecLLM(LLM):
        temperature: float = 0.37
        max_tokens: int = 111
        model_kwargs: Dict[str, Any] = {"top_p": 0.93}
        script: Any = None
        log: Any = None  # Log instance
        streaming: bool = False

        @property
        def _llm_type(self):
            return "verif-rec"

        def _call(self, prompt, stop=None, run_manager=None, **kw):
            self.log.add("llm", prompt=prompt, stop=stop, temperature=self.temperature, max_tokens=self.max_tokens, model_kwargs=dict(self.model_kwargs))
            return self.script(prompt)

        async def _acall(self, prompt, stop=None, run_manager=None, **kw):
            self.log.add("llm", prompt=prompt, stop=stop, temperature=self.temperature, max_tokens=self.max_tokens, model_kwargs=dict(self.model_kwargs))
            return self.script(prompt)

    _L.update(LLM=LLM, LLMRails=LLMRails, RailsConfig=RailsConfig, ActionResult=ActionResult, RecLLM=RecLLM, HashEmbedding=HashEmbedding)
    return _L


class Log:
    def __init__(self):
        self.clock = 0
        self.items = []

    def add(self, kind, **kw):
        self.clock += 1
        kw.update(kind=kind, clock=self.clock)
        self.items.append(kw)

    def clear(self):
        self.items = []

    def of(self, kind):
        return [e for e in self.items if e["kind"] == kind]


SIGNATURES = ("llm", "config", "events", "llm_task_manager", "state")


def with_signature(f, sig, ver):
    """The same action with a signature that ALSO declares one of the parameters the runtimes inject by name (the LLM, the
    RailsConfig, the event history, the task manager, the v2 state). `sig` None = the plain signature."""
    if not sig or (sig == "state" and ver == "v1"):
        return f
    from typing import Optional

    if ver == "v1":
        if sig == "llm":
            async def g(context: Optional[dict] = None, llm=None):
                return await f(context=context)
        elif sig == "config":
            async def g(context: Optional[dict] = None, config=None):
                return await f(context=context)
        elif sig == "events":
            async def g(context: Optional[dict] = None, events=None):
                return await f(context=context)
        else:
            async def g(context: Optional[dict] = None, llm_task_manager=None):
                return await f(context=context)
    else:
        if sig == "llm":
            async def g(text=None, llm=None):
                return await f(text=text)
        elif sig == "config":
            async def g(text=None, config=None):
                return await f(text=text)
        elif sig == "events":
            async def g(text=None, events=None):
                return await f(text=text)
        elif sig == "state":
            async def g(text=None, state=None):
                return await f(text=text)
        else:
            async def g(text=None, llm_task_manager=None):
                return await f(text=text)
    g.__name__ = getattr(f, "__name__", "action")
    if hasattr(f, "action_meta"):
        g.action_meta = f.action_meta
    return g


def bot_token(cid, t, spec):
    """the text the scripted LLM produces in turn t; `same_bot`: the very same text in every turn of the conversation
    (the rails' verdicts still differ per turn: a rail may depend on more than the text)"""
    if spec.get("ref_bot") and spec.get("ver") == "v1":
        # the LLM's whole answer is a text that spells a reference to a context variable: it is message text like any other
        return "$user_message"
    return "BOT-%s-%s" % (cid, "S" if spec.get("same_bot") else t)


class InjectedFault(RuntimeError):
    pass


# ----------------------------------------------------------------------------- configurations
def letters(i):
    return "abcdefgh"[i]


def build_v1(spec):
    """spec: k, m, mode in {dialog, general, passthrough, single_call}, exc, in_shapes[k], out_shapes[m], dialog_action"""
    k, m, mode, exc = spec["k"], spec["m"], spec["mode"], spec.get("exc", False)
    y = MAIN_MODELS
    if exc:
        y += "enable_rails_exceptions: True\n"
    if mode == "passthrough":
        y += "passthrough: True\n"
    if mode == "multi_step":
        y += "enable_multi_step_generation: True\n"
    y += "rails:\n"
    if k:
        # `dup_in`: rails listed once more at the end of the list (check, rewrite, check again)
        y += "  input:\n    flows: [" + ", ".join("in rail %s" % letters(i) for i in list(range(k)) + list(spec.get("dup_in") or [])) + "]\n"
    if m:
        y += "  output:\n    flows: [" + ", ".join("out rail %s" % letters(i) for i in list(range(m)) + list(spec.get("dup_out") or [])) + "]\n"
    if mode == "single_call":
        y += "  dialog:\n    single_call:\n      enabled: True\n"
    if not k and not m and mode != "single_call":
        y = y.replace("rails:\n", "")
    co = ""
    if mode == "multi_step":
        # no flow handles `ask something`: the next steps are generated by the LLM as a small flow, in which the LLM also
        # writes the text of the bot message inline, under the bot intent
        co += 'define user ask something\n  "something"\n\ndefine user ask other\n  "other"\n\ndefine user ask fixed\n  "fixedq"\n\n'
        co += 'define bot answer fixed\n  "FIXED-ANSWER"\n\n'
        co += "define flow\n  user ask fixed\n  bot answer fixed\n\n"
    if mode in ("dialog", "single_call"):
        co += 'define user ask something\n  "something"\n\ndefine user ask fixed\n  "fixedq"\n\n'
        co += 'define bot answer fixed\n  "FIXED-ANSWER"\n\n'
        if spec.get("dialog_action"):
            # (the action also gets the current user text through a `$variable` parameter written in the flow)
            # (an intent of its own: in Colang 1.0 the word `something` in `user ask something` is a wildcard (`ask ...`), such a flow
            #  is never entered after the LLM named the intent `ask something` - the next step then comes from the LLM)
            co += 'define user ask cheese\n  "cheese"\n\n'
            co += "define flow\n  user ask cheese\n  $info = execute lookup(q=$user_message)\n  bot answer cheese\n\n"
        else:
            co += "define flow\n  user ask something\n  bot answer something\n\n"
        co += "define flow\n  user ask fixed\n  bot answer fixed\n\n"
    for i in range(k):
        shape = spec["in_shapes"][i]
        L = letters(i)
        refuse = ('    create event InputRailException(message="INEXC-%s")\n' % i) if exc else ("    bot refuse in %s\n" % L)
        co += 'define bot refuse in %s\n  "REFUSED-IN-%d"\n\ndefine flow in rail %s\n' % (L, i, L)
        if shape == "allowed":
            co += "  $allowed = execute vin%d\n  if not $allowed\n%s    stop\n\n" % (i, refuse)
        elif shape == "mask":
            co += '  $v = execute vin%d\n  if $v == "block"\n%s    stop\n  if $v == "rewrite"\n    $user_message = "MASKEDCONST-%d"\n\n' % (i, refuse, i)
        elif shape == "note":
            # a rail that may also SAY something and carry on without `stop` ("note: your message was cleaned")
            co += '  $v = execute vin%d\n  if $v == "block"\n%s    stop\n  if $v == "note"\n    bot note in %s\n\n' % (i, refuse, L)
            co += 'define bot note in %s\n  "NOTE-IN-%d"\n\n' % (L, i)
        elif shape == "evt":
            # the action hands back the (possibly rewritten) text as its return value AND emits an event of its own
            co += '  $m = execute vin%d\n  if $m == "BLOCK"\n%s    stop\n  $user_message = $m\n\n' % (i, refuse)
        else:
            co += '  $v = execute vin%d\n  if $v == "block"\n%s    stop\n  if $v == "rewrite"\n    $user_message = $rewritten\n\n' % (i, refuse)
    for i in range(m):
        shape = spec["out_shapes"][i]
        L = letters(i)
        refuse = ('    create event OutputRailException(message="OUTEXC-%s")\n' % i) if exc else ("    bot refuse out %s\n" % L)
        co += 'define bot refuse out %s\n  "REFUSED-OUT-%d"\n\ndefine flow out rail %s\n' % (L, i, L)
        if shape == "allowed":
            co += "  $allowed = execute vout%d\n  if not $allowed\n%s    stop\n\n" % (i, refuse)
        else:
            co += '  $v = execute vout%d\n  if $v == "block"\n%s    stop\n  if $v == "rewrite"\n    $bot_message = $rewritten_bot\n\n' % (i, refuse)
    return co, y


def build_v2(spec):
    k, m = spec["k"], spec["m"]
    y = 'colang_version: "2.x"\n' + MAIN_MODELS
    co = 'import core\nimport guardrails\nimport llm\n\nflow main\n  activate llm continuation\n  activate greeting\n\nflow greeting\n  user said "hi"\n  bot say "Hello world!"\n\n'
    if k:
        co += "flow input rails $input_text\n" + "".join("  in rail %s $input_text\n" % letters(i) for i in range(k)) + "\n"
    if m:
        co += "flow output rails $output_text\n" + "".join("  out rail %s $output_text\n" % letters(i) for i in range(m)) + "\n"
    pol_in, pol_out = spec.get("pol_in") or ["ok"] * k, spec.get("pol_out") or ["ok"] * m
    for i in range(k):
        if pol_in[i] == "blocked":
            # the action answers "is it bad?" (the polarity of e.g. the library's jailbreak / hallucination / sensitive-data rails)
            co += 'flow in rail %s $t\n  $bad = await Vin%dAction(text=$t)\n  if $bad\n    bot say "REFUSED-IN-%d"\n    abort\n\n' % (letters(i), i, i)
        else:
            co += 'flow in rail %s $t\n  $ok = await Vin%dAction(text=$t)\n  if not $ok\n    bot say "REFUSED-IN-%d"\n    abort\n\n' % (letters(i), i, i)
    for i in range(m):
        if pol_out[i] == "blocked":
            co += 'flow out rail %s $t\n  $bad = await Vout%dAction(text=$t)\n  if $bad\n    bot say "REFUSED-OUT-%d"\n    abort\n\n' % (letters(i), i, i)
        else:
            co += 'flow out rail %s $t\n  $ok = await Vout%dAction(text=$t)\n  if not $ok\n    bot say "REFUSED-OUT-%d"\n    abort\n\n' % (letters(i), i, i)
    return co, y


# ----------------------------------------------------------------------------- application under observation
class App:
    """One LLMRails instance with recording rail actions and a recording LLM."""

    def __init__(self, spec):
        L = load()
        self.spec = spec
        self.ver = spec["ver"]
        self.log = Log()
        self.turn = 0
        self.api = "messages"
        self.cid = "c0"
        self.V = {}  # (side, turn, idx) -> verdict
        self.fault_at = None  # set of global action-call indices that raise
        self.acalls = 0
        co, y = (build_v1 if self.ver == "v1" else build_v2)(spec)
        self.co, self.yaml = co, y
        cfg = L["RailsConfig"].from_content(co, y)
        self.llm = L["RecLLM"](script=self._script, log=self.log)
        self.app = L["LLMRails"](cfg, llm=self.llm)
        k, m = spec["k"], spec["m"]
        sig = spec.get("sig")
        if self.ver == "v1":
            for i in range(k):
                self.app.register_action(with_signature(self._mk_v1("in", i), sig, "v1"), "vin%d" % i)
            for i in range(m):
                self.app.register_action(with_signature(self._mk_v1("out", i), sig, "v1"), "vout%d" % i)
            if spec.get("dialog_action"):
                self.app.register_action(self._mk_lookup(), "lookup")
        else:
            for i in range(k):
                self.app.register_action(with_signature(self._mk_v2("in", i), sig, "v2"), "Vin%dAction" % i)
            for i in range(m):
                self.app.register_action(with_signature(self._mk_v2("out", i), sig, "v2"), "Vout%dAction" % i)

    # ---- LLM script: a function of the prompt only
    def bot_text(self):
        return bot_token(self.cid, self.turn, self.spec)

    def _script(self, prompt):
        mode = self.spec.get("mode")
        if self.ver == "v2":
            last = prompt.rstrip().split("\n")[-1]
            if "user intent:" in last or prompt.rstrip().endswith("user intent:"):
                return "user asked something"
            return 'bot intent: bot answer\nbot action: bot say "%s"' % self.bot_text()
        if mode in ("dialog", "multi_step"):
            tail = prompt.rstrip().split("\n")[-1]
            if tail.startswith('user "'):
                return "  ask fixed" if "fixedq" in tail else ("  ask cheese" if self.spec.get("dialog_action") else "  ask something")
            if tail.strip() in ("ask something", "ask fixed", "user ask something", "user ask fixed") or tail.startswith("  ask"):
                if mode == "multi_step" and "fixed" not in tail:
                    # the generated flow carries the message text inline; it is LLM text like any other
                    return 'bot answer generated %s\n  "%s inline"' % (self.cid.replace("-", " "), self.bot_text())
                return "bot answer fixed" if "fixed" in tail else "bot answer something"
            return '  "%s"' % self.bot_text()
        if mode == "single_call":
            tail = prompt.rstrip().split("\n")[-1]
            if "fixedq" in tail:
                return '  ask fixed\nbot answer fixed\n  "FIXED-ANSWER"'
            return '  ask something\nbot answer something\n  "%s"' % self.bot_text()
        return self.bot_text()

    # ---- rail actions
    def _tick_fault(self, side, i):
        idx = self.acalls
        self.acalls += 1
        if self.fault_at and idx in self.fault_at:
            self.log.add("fault", side=side, idx=i, call_index=idx)
            raise InjectedFault("injected fault at action call %d" % idx)

    def _mk_v1(self, side, i):
        AR = load()["ActionResult"]

        async def f(context: Optional[dict] = None):
            text = (context or {}).get("user_message" if side == "in" else "bot_message")
            self.log.add(side, idx=i, text=text)
            self._tick_fault(side, i)
            v = self.V.get((side, self.turn, i), "ok")
            shape = (self.spec["in_shapes"] if side == "in" else self.spec["out_shapes"])[i]
            if shape == "evt":
                out = "BLOCK" if v == "block" else (("MASKED-%s-%d-%d" % (self.cid, self.turn, i)) if v == "rewrite" else text)
                return AR(return_value=out, events=[{"type": "RailAudit", "rail": i}])
            if shape == "allowed":
                return v != "block"
            if v == "rewrite" and shape != "mask":
                key = "rewritten" if side == "in" else "rewritten_bot"
                val = ("MASKED-%s-%d-%d" if side == "in" else "BOTMASKED-%s-%d-%d") % (self.cid, self.turn, i)
                return AR(return_value="rewrite", context_updates={key: val})
            return v

        f.__name__ = "v%s%d" % (side, i)
        if (self.spec["in_shapes"] if side == "in" else self.spec["out_shapes"])[i] == "evt":
            # this shape hands the message text back as its return value: registered as a system action, as the
            # library's own rails are - the return value of an ordinary action is, by design, part of the colang
            # history shown in later prompts
            from nemoguardrails.actions import action

            f = action(is_system_action=True, name=f.__name__)(f)
        return f

    def _mk_lookup(self):
        async def lookup(context: Optional[dict] = None, q=None):
            self.log.add("dialog_action", text=(context or {}).get("user_message"), q=q)
            self._tick_fault("dialog", 0)
            return "INFO"

        return lookup

    def _mk_v2(self, side, i):
        async def f(text=None, **kw):
            self.log.add(side, idx=i, text=text)
            self._tick_fault(side, i)
            v = self.V.get((side, self.turn, i), "ok")
            blocked_polarity = ((self.spec.get("pol_in") if side == "in" else self.spec.get("pol_out")) or [])[i : i + 1] == ["blocked"]
            if side == "out" and not (isinstance(text, str) and "BOT-" in text):
                return not blocked_polarity  # refusals / predefined texts pass the output rails (they run through _bot_say too)
            return (v == "block") if blocked_polarity else (v != "block")

        return f

    # ---- one turn
    def play_turn(self, msgs, state, user_text, options=None):
        """returns (reply_message_or_None, exception_or_None, new_state)"""
        self.log.clear()
        try:
            if self.ver == "v1" and self.api == "state":
                # conversation carried over through the `state` object instead of resending the message list
                r = self.app.generate(messages=[{"role": "user", "content": user_text}], state=state if state is not None else {}, options=options)
                resp = r.response
                msg = dict(resp[-1]) if isinstance(resp, list) and resp else {"role": "assistant", "content": resp}
                return msg, None, r.state
            if self.ver == "v1" and self.api == "prompt":
                # completion-style call: generate(prompt=...) returns the text, or the exception message for a rail exception;
                # every turn is a conversation of its own
                r = self.app.generate(prompt=user_text, options=options) if options is not None else self.app.generate(prompt=user_text)
                if options is not None:
                    r = r.response
                if isinstance(r, list) and r:
                    r = r[-1]
                if isinstance(r, dict) and "role" not in r and str(r.get("type", "")).endswith("Exception"):
                    r = {"role": "exception", "content": r}  # without options the call returns the bare content of the exception message
                return (dict(r) if isinstance(r, dict) else {"role": "assistant", "content": r}), None, state
            if self.ver == "v1" and self.api == "nocache":
                # a stateless deployment: the turn is served by an instance that has not seen the conversation before (another
                # worker, a restart) - the event history is rebuilt from the message list the caller resends
                self.app.events_history_cache.clear()
            if self.ver == "v1":
                msgs.append({"role": "user", "content": user_text})
                if options is not None:
                    r = self.app.generate(messages=list(msgs), options=options)
                    resp = r.response
                    if isinstance(resp, list) and resp:
                        return dict(resp[-1]), None, state
                    return {"role": "assistant", "content": resp}, None, state
                r = self.app.generate(messages=list(msgs))
                return r, None, state
            r = self.app.generate(messages=[{"role": "user", "content": user_text}], state=state)
            resp = r.response
            msg = resp[0] if isinstance(resp, list) and resp else resp
            if isinstance(resp, list) and len(resp) > 1:
                msg = dict(resp[-1])
                msg["_all"] = resp
            return msg, None, r.state
        except InjectedFault as e:
            return None, e, state
        except Exception as e:
            return None, e, state


_APPS = {}


def get_app(spec, reuse=0):
    """A fresh App per conversation unless reuse>0 (then up to `reuse` conversations share an instance)."""
    import json

    key = json.dumps(spec, sort_keys=True)
    if reuse:
        ent = _APPS.get(key)
        if ent and ent[1] < reuse:
            ent[1] += 1
            return ent[0]
    app = App(spec)
    if reuse:
        if len(_APPS) > 12:
            _APPS.clear()
        _APPS[key] = [app, 1]
    return app


# ----------------------------------------------------------------------------- reference model (sequential rails)
def model_turn(spec, app, t, orig_text, user_kind="llm", opts=None):
    """The 20-line sequential model: rails in order, stop at first reject, rewrite flows forward.
    Returns dict(exp_in, in_blocked, text, exp_out, out_blocked, bot, reply)"""
    k, m, exc = spec["k"], spec["m"], spec.get("exc", False)
    if opts and opts.get("rails", {}).get("input") is False:
        k = 0  # the caller switched the input rails off for this call
    if opts and opts.get("rails", {}).get("output") is False:
        m = 0
    text = orig_text
    exp_in = []
    in_blocked = None
    for i in (list(range(k)) + list(spec.get("dup_in") or [])) if k else []:
        exp_in.append((i, text))
        v = app.V.get(("in", t, i), "ok")
        if v == "block":
            in_blocked = i
            break
        if v == "note" and spec["ver"] == "v1" and spec["in_shapes"][i] == "note":
            # the rail says something and does not stop: what the rest of THIS turn does is not fixed by the statement beyond
            # its safety clauses (see judge); the model stops here
            return {"exp_in": exp_in, "in_blocked": None, "note_at": i, "text": text, "exp_out": [], "out_blocked": None, "bot": None, "reply": None}
        if v == "rewrite" and spec["ver"] == "v1":
            shape = spec["in_shapes"][i]
            if shape == "mask":
                text = "MASKEDCONST-%d" % i
            elif shape != "allowed":
                text = "MASKED-%s-%d-%d" % (app.cid, t, i)
    res = {"exp_in": exp_in, "in_blocked": in_blocked, "text": text, "exp_out": [], "out_blocked": None, "bot": None}
    if in_blocked is not None:
        res["reply"] = {"role": "exception", "content": None} if exc else {"role": "assistant", "content": "REFUSED-IN-%d" % in_blocked}
        return res
    if user_kind == "fixed":
        res["bot"] = "FIXED-ANSWER"
        res["reply"] = {"role": "assistant", "content": "FIXED-ANSWER"}
        res["skip_output"] = True
        return res
    bot = bot_token(app.cid, t, spec)
    for i in (list(range(m)) + list(spec.get("dup_out") or [])) if m else []:
        res["exp_out"].append((i, bot))
        v = app.V.get(("out", t, i), "ok")
        if v == "block":
            res["out_blocked"] = i
            break
        if v == "rewrite" and spec["ver"] == "v1" and spec["out_shapes"][i] != "allowed":
            bot = "BOTMASKED-%s-%d-%d" % (app.cid, t, i)
    res["bot"] = bot
    if res["out_blocked"] is not None:
        res["reply"] = {"role": "exception", "content": None} if exc else {"role": "assistant", "content": "REFUSED-OUT-%d" % res["out_blocked"]}
    else:
        res["reply"] = {"role": "assistant", "content": bot}
    return res
