"""C12 — compiled flows are closed: every jump target exists and only primitives remain.

Monitor (structural invariant at a hook + dynamic confirmation)

* Colang 2.x: the real ``statemachine.initialize_flow`` carries an icontract
  post-condition ``flow_is_closed`` (named condition, explicit error class). It
  is evaluated for every flow every workload initialises (``initialize_state``
  looks ``initialize_flow`` up through the module globals). The same predicate is
  re-run as a direct scan over ``State.flow_configs`` after ``initialize_state``.
* Colang 1.0: the flow elements the real loader returns (``RailsConfig.flows`` /
  ``parse_colang_file``) are scanned; every relative/absolute jump must land in
  ``[0, len]`` (``-1`` with ``_absolute`` is the documented *finish* encoding of
  ``return``, see ``sliding.slide``) and every loop exit / loop continue offset
  must be the exit / the head of an enclosing ``while``.
* Dynamic confirmation: generated programs are executed over short random event
  histories by the real interpreters; an ``Invalid label`` warning, a
  ``KeyError``/``IndexError`` (logged by ``_advance_head_front`` or escaping), or
  the run-time scope errors are the same violation with the path attached.

The oracle is the tiny executable spec in ``scan_v2_flow`` / ``scan_v1_flow``; it
never calls the expander.
"""
import hashlib
import os
import random

PROPERTY = "C12"
LEVEL = "exploration"
RULE = (
    "case = one shipped config directory under nemoguardrails/, examples/, tests/, docs/ (every flow RailsConfig.from_path "
    "returns for it, imports resolved), one shipped .co file outside any config directory (loaded through a one-file config "
    "directory with the real loader), one directed template program with a scripted history, or one generated program (v2: "
    "main + generated sub flows, nesting <=3 quick / <=4 thorough of if/elif/else-if/else, while, when/or when/else, "
    "break/continue, and/or groups on match/await/start/when, activate/deactivate, actions, labels, return/abort, executed "
    "over 5-10 random events; v1: if/else if/else, while, break/continue/pass, when/else when branches, label/goto, "
    "do subflow, return/stop, every flow driven through the real slide()); "
    "non-trivial = the compiled case contains >=1 jump/fork/merge/catch/scope/loop-exit element and the scan ran on every "
    "flow of the case; distinct = sha1(program text) / path"
)
MIN_HELD = {"quick": 3000, "thorough": 30000}
MAX_INCONCLUSIVE = 0.10
EXHAUSTIVE = {"quick": False, "thorough": False}
ASSUMPTIONS = [
    "v2 primitives that legitimately remain after expansion: SpecOp send / match / _new_action_instance (the only ops "
    "slide() and the matcher interpret), plus Label, Goto, ForkHead, MergeHeads, WaitForHeads, CatchPatternFailure, "
    "BeginScope, EndScope, Assignment, Return, Abort, Break, Continue, Log, Print, Priority, Global",
    "scope closure is decided by forward reachability over the element list with the head semantics of slide(): "
    "state = (position, static catch-label stack, set of open scopes); a `match` may fail to the innermost catch label; "
    "`abort` with an empty catch stack ends the flow by abort and is exempt (an aborted flow releases everything); "
    "violation = normal end (or `return`) reached with an open scope, or a BeginScope re-entered while open",
    "duplicate label names (from the `when` expansion) are counted as an observation, not a violation; label lookup is "
    "last-wins exactly like FlowConfig.element_labels",
    "v1: the negative absolute jump -1 is the finish encoding of `return`; any other target must be in [0, len]",
    "break/continue target must be the exit/head of the innermost enclosing while (v2: by the _while_begin_/_while_end_ "
    "label pair around the element; v1: target of _next_on_continue is a `while`, element before the _next_on_break "
    "target is the jump back to that `while`); v2 exception counted as observation v2_loop_exit_into_duplicated_copy: "
    "the body of a `when` case is emitted once per and-group and the second copy re-uses the Break/Continue objects "
    "already labelled for the first copy - the target exists, is in the same flow and is the same code",
    "a run-time `Unknown variable _ref_...` / return_value evaluation error of the interpreter is not a jump target and "
    "is only counted (observed.dynamic_other_warnings)",
    "shipped directories that need absent third-party modules / network / an unresolvable import are skipped and the "
    "reason is counted (observed.shipped_skip_*); finalize() requires >=85% of the shipped inputs to be loaded, "
    "initialised and scanned",
    "dynamic part: the known C07 defect (`when` over a group with >1 and-groups) is generated on purpose (its expansion "
    "is where the duplicate labels come from) and a KeyError on a head uid in such a program is classified under its own "
    "key when-case-with-or-group-dynamic",
]
SAMPLE_EVERY = 499
CASE_WALL_S = 120
HARD_INCONCLUSIVE = ("hook-missing", "monitor-not-reached")

SHIPPED_ROOTS = ("nemoguardrails", "examples", "tests", "docs")
GEN_COUNTS = {"quick": (4000, 2000), "thorough": (30000, 15000)}  # (v2 programs, v1 programs)

KNOWN_WHEN_ELSE = "when-else-leaves-scope-open"
KNOWN_WHEN_OR_DYNAMIC = "when-case-with-or-group-dynamic"


# --------------------------------------------------------------------------- cases (parent side, no repo import)
def _repo():
    from . import REPO

    return REPO


def shipped_inputs(repo):
    dirs, cos = [], []
    for base in SHIPPED_ROOTS:
        for root, ds, fs in os.walk(os.path.join(repo, base)):
            ds.sort()
            if any(f in ("config.yml", "config.yaml") for f in fs):
                dirs.append(root)
            for f in sorted(fs):
                if f.endswith(".co"):
                    cos.append(os.path.join(root, f))
    dirs.sort()
    orphans = [p for p in sorted(cos) if not any(p.startswith(d + os.sep) for d in dirs)]
    return dirs, orphans, cos


def cases(tier, seed):
    repo = _repo()
    dirs, orphans, _ = shipped_inputs(repo)
    for d in dirs:
        yield {"id": "dir:" + os.path.relpath(d, repo), "kind": "dir", "path": os.path.relpath(d, repo)}
    for p in orphans:
        yield {"id": "file:" + os.path.relpath(p, repo), "kind": "file", "path": os.path.relpath(p, repo)}
    for name in sorted(TEMPLATES2):
        yield {"id": "t2:" + name, "kind": "gen2", "tmpl": name, "gseed": seed}
    n2, n1 = GEN_COUNTS["quick" if tier == "quick" else "thorough"]
    maxd = 3 if tier == "quick" else 4
    # interleave so that --limit still sees every kind
    i2 = i1 = 0
    while i2 < n2 or i1 < n1:
        for _ in range(2):
            if i2 < n2:
                yield {"id": "g2:%d" % i2, "kind": "gen2", "gseed": seed * 10000019 + i2, "maxdepth": 1 + (i2 % maxd)}
                i2 += 1
        if i1 < n1:
            yield {"id": "g1:%d" % i1, "kind": "gen1", "gseed": seed * 10000019 + 7000003 + i1, "maxdepth": 1 + (i1 % maxd)}
            i1 += 1


# --------------------------------------------------------------------------- generators (source text)
class Gen2:
    """Colang 2.x program generator. Every marker / reference / label carries a unique number."""

    EVENTS = ["E1", "E2", "E3", "E4", "E5"]
    LEAF_FLOWS = ["fa", "fb", "fc", "fd"]

    def __init__(self, rng):
        self.rng = rng
        self.n = 0
        self.facts = {"when_else": 0, "when_multi": 0, "when": 0, "while": 0, "if": 0, "brk": 0, "groups": 0, "scoped_await": 0}
        self.subflows = []

    def uniq(self):
        self.n += 1
        return self.n

    def ev(self):
        return self.rng.choice(self.EVENTS) + "()"

    def fl(self):
        return self.rng.choice(self.LEAF_FLOWS + self.subflows)

    def group(self, leaf, force_multi=False):
        """Returns (text, number of and-groups of its DNF)."""
        r = self.rng.random()
        a, b, c = leaf(), leaf(), leaf()
        if force_multi:
            r = 0.5 + r / 2
        if r < 0.3:
            return "%s and %s" % (a, b), 1
        if r < 0.5:
            return "%s and %s and %s" % (a, b, c), 1
        if r < 0.7:
            return "%s or %s" % (a, b), 2
        if r < 0.85:
            return "%s or (%s and %s)" % (a, b, c), 2
        return "(%s or %s) and %s" % (a, b, c), 2

    def when_spec(self):
        r = self.rng.random()
        if r < 0.35:
            return self.ev(), 1
        if r < 0.55:
            return self.fl(), 1
        if r < 0.62:
            return "TestAction(n=%d)" % self.uniq(), 1
        if r < 0.72:
            t, g = self.group(self.ev)
            return t, g
        if r < 0.82:
            t, g = self.group(self.fl)
            return t, g
        if r < 0.9:
            return "%s and %s" % (self.fl(), self.ev()), 1
        return "%s as $w%d" % (self.fl(), self.uniq()), 1

    def block(self, depth, ind, inloop, no_leading_if=False):
        out = []
        for j in range(self.rng.randint(1, 3)):
            out += self.stmt(depth, ind, inloop, no_if=(no_leading_if and j == 0))
        return out

    def stmt(self, depth, ind, inloop, no_if=False):
        rng, p = self.rng, "  " * ind
        r = rng.random()
        if depth > 0 and r < 0.42:
            k = rng.random()
            if k < 0.3 and not no_if:
                self.facts["if"] += 1
                out = [p + "if $x == %d" % rng.randint(0, 2)] + self.block(depth - 1, ind + 1, inloop)
                for _ in range(rng.choice([0, 0, 1, 2])):
                    out += [p + rng.choice(["elif", "else if"]) + " $x == %d" % rng.randint(0, 3)] + self.block(depth - 1, ind + 1, inloop)
                if rng.random() < 0.55:
                    out += [p + "else"] + self.block(depth - 1, ind + 1, inloop, no_leading_if=True)
                return out
            if k < 0.55:
                self.facts["while"] += 1
                v = "$x" if rng.random() < 0.7 else "$c%d" % self.uniq()
                pre = [] if v == "$x" else [p + "%s = 0" % v]
                cond = "True" if rng.random() < 0.3 else "%s < %d" % (v, rng.randint(1, 3))  # `while True`: exits only through break
                out = pre + [p + "while %s" % cond, p + "  %s = %s + 1" % (v, v), p + "  match Tick()"]
                return out + self.block(depth - 1, ind + 1, True)
            self.facts["when"] += 1
            spec, g = self.when_spec()
            multi = g > 1
            out = [p + "when " + spec] + self.block(depth - 1, ind + 1, inloop)
            for _ in range(rng.choice([0, 0, 1, 1, 2])):
                spec, g = self.when_spec()
                multi = multi or g > 1
                out += [p + "or when " + spec] + self.block(depth - 1, ind + 1, inloop)
            if multi:
                self.facts["when_multi"] += 1
            if rng.random() < 0.35:
                self.facts["when_else"] += 1
                out += [p + "else"] + self.block(depth - 1, ind + 1, inloop, no_leading_if=True)
            return out
        r = rng.random()
        if inloop and r < 0.14:
            self.facts["brk"] += 1
            return [p + rng.choice(["break", "continue"])]
        if r < 0.004:
            # statements that parse but that the expander refuses (match on a flow, activate of an action, await of an event):
            # the loader must reject such a program - every time it is asked
            self.facts["refused"] = self.facts.get("refused", 0) + 1
            return [p + rng.choice(["match " + self.fl(), "activate TestAction(n=%d)" % self.uniq(), "await " + self.ev()])]
        if r < 0.26:
            return [p + "match " + self.ev()]
        if r < 0.40:
            return [p + "send M%d()" % self.uniq()]
        if r < 0.48:
            return [p + rng.choice(["$x = %d" % rng.randint(0, 3), "$x = $x + 1", "$y%d = $x" % self.uniq(), "$x += 1", "$x -= 2"])]
        if r < 0.58:
            self.facts["groups"] += 1
            return [p + "match " + self.group(self.ev)[0]]
        if r < 0.68:
            k = rng.random()
            if k < 0.4:
                return [p + "await " + self.fl()]
            if k < 0.5:
                # every assignment operator the grammar accepts, with a flow / action call on the right-hand side
                op = rng.choice(["=", "=", "+=", "-="])
                rhs = "await " + self.fl() if rng.random() < 0.7 else "await TestAction(n=%d)" % self.uniq()
                return [p + "$v%d %s %s" % (self.uniq(), op, rhs)] if op == "=" else [p + "$x %s %s" % (op, rhs)]
            t, g = self.group(self.fl)
            self.facts["groups"] += 1
            if g > 1:
                self.facts["scoped_await"] += 1
            return [p + "await " + t]
        if r < 0.76:
            k = rng.random()
            if k < 0.5:
                return [p + "start %s as $r%d" % (self.fl(), self.uniq())]
            if k < 0.75:
                return [p + "start %s and %s" % (self.fl(), self.fl())]
            self.facts["groups"] += 1
            return [p + "start %s or %s" % (self.fl(), self.fl())]
        if r < 0.81:
            return [p + rng.choice(["activate fz", "activate fz", "deactivate fz", "activate fz and fy"])]
        if r < 0.87:
            k = rng.random()
            if k < 0.6:
                return [p + "start TestAction(n=%d) as $a%d" % (self.uniq(), self.uniq())]
            if k < 0.8:
                return [p + "await TestAction(n=%d)" % self.uniq()]
            return [p + "send E%d()" % rng.randint(6, 7)]
        if r < 0.90:
            return [p + "lbl%d:" % self.uniq()]
        if r < 0.93:
            return [p + rng.choice(["pass", 'log "l%d"' % self.uniq(), "global $g"])]
        if r < 0.96 and depth < 3:
            return [p + rng.choice(["return", "abort", "return $x"])]
        return [p + "send M%d()" % self.uniq()]

    def program(self, maxdepth):
        rng = self.rng
        subs = []
        for name in ["sub a", "sub b"][: rng.choice([0, 1, 1, 2])]:
            body = self.block(max(0, maxdepth - 1), 1, False)
            subs.append("flow %s\n  $x = %d\n  match X%s()\n%s\n" % (name, rng.randint(0, 2), name[-1], "\n".join(body)))
            self.subflows.append(name)
        main = "flow main\n  $x = %d\n%s\n  match Never()\n" % (rng.randint(0, 1), "\n".join(self.block(maxdepth, 1, False)))
        leaves = (
            "flow fa\n  match Xa()\n\n"
            "flow fb\n  match Xb()\n  send Mb()\n\n"
            "flow fc\n  match Xc()\n  abort\n\n"
            "flow fd\n  match Xd() or Xa()\n\n"
            "flow fz\n  match Xz()\n  send Mz()\n\n"
            "flow fy\n  match Xy()\n"
        )
        return main + "\n" + "\n".join(subs) + "\n" + leaves

    HISTORY_EVENTS = ["E1", "E2", "E3", "E4", "E5", "Tick", "Tick", "Xa", "Xb", "Xc", "Xd", "Xz", "Xa", "Xb"]


_LEAVES2 = (
    "flow fa\n  match Xa()\n\n"
    "flow fb\n  match Xb()\n  send Mb()\n\n"
    "flow fc\n  match Xc()\n  abort\n\n"
    "flow fd\n  match Xd() or Xa()\n\n"
    "flow fz\n  match Xz()\n  send Mz()\n\n"
    "flow fy\n  match Xy()\n"
)
_F0 = {"when_else": 0, "when_multi": 0, "when": 0, "while": 0, "if": 0, "brk": 0, "groups": 0, "scoped_await": 0}
# directed programs with a scripted history: they take the jumps the random histories rarely take twice
TEMPLATES2 = {
    "when_else_in_loop": (
        "flow main\n  $i = 0\n  while $i < 3\n    when fc\n      send CaseA()\n    else\n      send ElseB()\n"
        "    match Tick()\n    $i = $i + 1\n  send Done()\n  match Never()\n\n",
        dict(_F0, when=1, when_else=1),
        ["Xc", "Tick", "Xc", "Tick", "Xc", "Tick"],
    ),
    "when_or_when_else_in_loop": (
        "flow main\n  $i = 0\n  while $i < 3\n    $i = $i + 1\n    when fc\n      send CaseA()\n    or when fc\n      send CaseB()\n"
        "    else\n      send ElseB()\n      if $i == 2\n        break\n    match Tick()\n  send Done()\n  match Never()\n\n",
        dict(_F0, when=1, when_else=1, brk=1),
        ["Xc", "Tick", "Xc", "Tick", "Xc", "Tick"],
    ),
    "break_continue_in_if_in_when_in_while": (
        "flow main\n  $x = 0\n  while $x < 4\n    $x = $x + 1\n    match Tick()\n    when E1()\n      if $x == 2\n        break\n"
        "      send M1()\n    or when E2()\n      if $x == 1\n        continue\n      else\n        send M2()\n  send Done()\n  match Never()\n\n",
        dict(_F0, when=1, brk=2),
        ["Tick", "E2", "Tick", "E1", "Tick", "E2", "Tick", "E1"],
    ),
    "nested_while_groups": (
        "flow main\n  $x = 0\n  while $x < 3\n    $x = $x + 1\n    match Tick()\n    $y = 0\n    while $y < 2\n      $y = $y + 1\n"
        "      match E1() or (E2() and E3())\n      if $y == 1\n        continue\n      else\n        break\n    await fa or fb\n"
        "  send Done()\n  match Never()\n\n",
        dict(_F0, brk=2, groups=2, scoped_await=1),
        ["Tick", "E1", "E3", "E2", "Xb", "Tick", "E2", "E3", "E1", "Xa", "Tick", "E1", "E1", "Xa"],
    ),
    "scoped_await_failure_path": (
        "flow main\n  start fz\n  when fc or fc\n    send M1()\n  or when E5()\n    await fc or fc\n    send M2()\n  match Never()\n\n",
        dict(_F0, when=1, when_multi=1, scoped_await=1),
        ["E5", "Xc", "Xz"],
    ),
    "when_and_of_or_group_c07": (
        "flow main\n  when fa and (fb and (fy or fz))\n    send Done()\n  match Never()\n\n",
        dict(_F0, when=1, when_multi=1),
        ["Xa", "Xb", "Xy"],
    ),
}


class Gen1:
    """Colang 1.0 flow generator."""

    def __init__(self, rng):
        self.rng = rng
        self.n = 0
        self.labels = []
        self.facts = {"while": 0, "if": 0, "brk": 0, "branch": 0, "goto": 0, "ret": 0}

    def uniq(self):
        self.n += 1
        return self.n

    def block(self, depth, ind, inloop, top=False):
        out = []
        for _ in range(self.rng.randint(1, 3)):
            out += self.stmt(depth, ind, inloop, top)
        return out

    def stmt(self, depth, ind, inloop, top=False):
        rng, p = self.rng, "  " * ind
        r = rng.random()
        if depth > 0 and r < 0.42:
            k = rng.random()
            if k < 0.38:
                self.facts["if"] += 1
                out = [p + "if $x == %d" % rng.randint(0, 2)] + self.block(depth - 1, ind + 1, inloop)
                for _ in range(rng.choice([0, 0, 0, 1])):
                    out += [p + "else if $x == %d" % rng.randint(0, 3)] + self.block(depth - 1, ind + 1, inloop)
                if rng.random() < 0.5:
                    out += [p + "else"] + self.block(depth - 1, ind + 1, inloop)
                return out
            if k < 0.7:
                self.facts["while"] += 1
                head = [p + "while $x < %d" % rng.randint(1, 3)]
                body = self.block(depth - 1, ind + 1, True)
                incr = [p + "  $x = $x + 1"]
                v = rng.random()
                if v < 0.5:
                    return head + body + incr
                if v < 0.68:
                    return head + incr + body  # the body's own last statement (break, if/else, when, …) closes the loop
                if v < 0.86:
                    self.facts["brk"] += 1
                    return head + incr + body + [p + "  " + rng.choice(["break", "break", "return", "continue", "stop"])]
                self.facts["brk"] += 1
                tail = [p + "  if $x == %d" % rng.randint(0, 2), p + "    bot b%d" % self.uniq(), p + "  else", p + "    " + rng.choice(["break", "return", "continue"])]
                return head + incr + body + tail
            self.facts["branch"] += 1
            out = [p + "when user i%d" % self.uniq()] + self.block(depth - 1, ind + 1, inloop)
            for _ in range(rng.choice([0, 1, 1, 2])):
                out += [p + "else when user i%d" % self.uniq()] + self.block(depth - 1, ind + 1, inloop)
            return out
        r = rng.random()
        if inloop and r < 0.16:
            self.facts["brk"] += 1
            return [p + rng.choice(["break", "continue", "pass"])]
        if r < 0.34:
            return [p + "bot b%d" % self.uniq()]
        if r < 0.46:
            return [p + "user i%d" % self.uniq()]
        if r < 0.58:
            return [p + rng.choice(["$x = %d" % rng.randint(0, 3), "$x = $x + 1"])]
        if r < 0.68:
            return [p + rng.choice(["execute act%d" % self.uniq(), "$r%d = execute act%d(a=1)" % (self.uniq(), self.uniq())])]
        if r < 0.76:
            return [p + "do sub a"]
        if r < 0.84 and top:
            name = "l%d" % self.uniq()
            self.labels.append(name)
            return [p + "label " + name]
        if r < 0.92 and self.labels:
            self.facts["goto"] += 1
            return [p + "goto " + rng.choice(self.labels)]
        if r < 0.95 and depth < 3:
            self.facts["ret"] += 1
            return [p + rng.choice(["return", "stop", "return $x"])]
        if r < 0.97:
            return [p + "pass"]
        if r < 0.985:
            # flow meta data written wherever the author happens to put it (also inside nested blocks)
            self.facts["meta"] = self.facts.get("meta", 0) + 1
            return [p + rng.choice(["priority %d" % rng.randint(1, 3), 'meta {"k%d": %d}' % (self.uniq(), rng.randint(0, 1)), "priority 0.5"])]
        return [p + "bot b%d" % self.uniq()]

    def program(self, maxdepth):
        rng = self.rng
        flows = []
        for fi in range(rng.randint(1, 2)):
            self.labels = []
            body = self.block(maxdepth, 1, False, top=True)
            flows.append("define flow f%d\n  user i%d\n  $x = %d\n%s\n" % (fi, self.uniq(), rng.randint(0, 1), "\n".join(body)))
        self.labels = []
        sub = "define subflow sub a\n  $x = %d\n%s\n" % (rng.randint(0, 2), "\n".join(self.block(max(0, maxdepth - 1), 1, False)))
        return "\n".join(flows) + "\n" + sub


# --------------------------------------------------------------------------- the oracle: v2
PRIM_OPS = ("send", "match", "_new_action_instance")
# the element kinds a compiled flow may consist of (the steps the interpreter executes); everything else is a composite that
# should have been expanded, or something nobody will ever execute
PRIMITIVE_ELEMENTS = {"SpecOp", "Label", "Goto", "ForkHead", "MergeHeads", "WaitForHeads", "Assignment", "Return", "Abort", "Continue", "Break",
                      "Log", "Print", "Priority", "Global", "CatchPatternFailure", "BeginScope", "EndScope", "If", "While", "When"}
MAX_STATES = 60000


def scan_v2_flow(A, cfg):
    """Independent closedness spec for one compiled FlowConfig.
    Returns (violations [(mechanism, detail)], stats dict)."""
    els = cfg.elements
    n = len(els)
    labels = cfg.element_labels
    V = []
    S = {"elements": n, "labels": 0, "gotos": 0, "forks": 0, "merges": 0, "catches": 0, "scopes": 0, "loop_exits": 0, "dup_label_names": 0}
    own = {}
    for i, e in enumerate(els):
        if isinstance(e, A.Label):
            S["labels"] += 1
            if e.name in own:
                S["dup_label_names"] += 1
            own[e.name] = i

    def resolve(lbl, i, what):
        if lbl not in labels:
            V.append(("dangling-label:" + what, "element %d -> %r not in element_labels" % (i, lbl)))
            return None
        idx = labels[lbl]
        if not (isinstance(idx, int) and 0 <= idx < n and isinstance(els[idx], A.Label) and els[idx].name == lbl):
            V.append(("stale-label-index:" + what, "element %d -> %r -> index %r is not that label" % (i, lbl, idx)))
            return None
        return idx

    loops = {}
    for name, i in own.items():
        if name.startswith("_while_begin_"):
            uid = name[len("_while_begin_"):]
            j = own.get("_while_end_" + uid)
            if j is not None and j > i:
                loops[uid] = (i, j)
    fork_uids = set()
    for e in els:
        if isinstance(e, A.ForkHead):
            fork_uids.add(e.fork_uid)
    target = {}
    for i, e in enumerate(els):
        if isinstance(e, (A.If, A.While, A.When)):
            V.append(("unexpanded:" + type(e).__name__, "element %d" % i))
        elif isinstance(e, A.SpecOp):
            if e.op not in PRIM_OPS:
                V.append(("unexpanded-op:" + str(e.op), "element %d" % i))
            if not isinstance(e.spec, A.Spec):
                V.append(("group-spec-left:" + str(e.op), "element %d spec %s" % (i, type(e.spec).__name__)))
        elif isinstance(e, A.Goto):
            S["gotos"] += 1
            target[i] = resolve(e.label, i, "goto")
        elif isinstance(e, A.ForkHead):
            S["forks"] += 1
            target[i] = [resolve(l, i, "fork") for l in e.labels]
            if not e.labels:
                V.append(("fork-without-labels", "element %d" % i))
        elif isinstance(e, A.MergeHeads):
            S["merges"] += 1
            if e.fork_uid not in fork_uids:
                V.append(("merge-without-fork", "element %d fork_uid %r" % (i, e.fork_uid)))
        elif isinstance(e, A.CatchPatternFailure):
            S["catches"] += 1
            if e.label is not None:
                target[i] = resolve(e.label, i, "catch")
        elif isinstance(e, (A.Break, A.Continue)):
            S["loop_exits"] += 1
            kind = "break" if isinstance(e, A.Break) else "continue"
            if e.label is None:
                V.append(("loop-exit-unresolved:" + kind, "element %d has no label" % i))
                continue
            target[i] = resolve(e.label, i, kind)
            prefix = "_while_end_" if kind == "break" else "_while_begin_"
            enclosing = [(b, uid) for uid, (b, en) in loops.items() if b < i < en]
            if not e.label.startswith(prefix) or e.label[len(prefix):] not in loops:
                V.append(("loop-exit-not-a-loop-label:" + kind, "element %d -> %r" % (i, e.label)))
            elif not enclosing:
                V.append(("loop-exit-outside-loop:" + kind, "element %d -> %r" % (i, e.label)))
            elif e.label != prefix + max(enclosing)[1]:
                tb, te = loops[e.label[len(prefix):]]
                if tb < i < te:
                    V.append(("loop-exit-wrong-loop:" + kind, "element %d -> %r, innermost loop wants %r" % (i, e.label, prefix + max(enclosing)[1])))
                elif S["dup_label_names"]:
                    # body of a `when` case duplicated per and-group: the second copy reuses the Break/Continue
                    # objects already labelled for the first copy (same code, other copy) - observation only
                    S["loop_exit_into_duplicated_copy"] = S.get("loop_exit_into_duplicated_copy", 0) + 1
                else:
                    V.append(("loop-exit-into-foreign-loop:" + kind, "element %d -> %r" % (i, e.label)))
        elif isinstance(e, A.BeginScope):
            S["scopes"] += 1
        if isinstance(e, dict) and ((e.get("_type") in ("pass_stmt", "stmt") and not e.get("elements")) or e.get("_type") == "doc_string_stmt"):
            S["noop_placeholders"] = S.get("noop_placeholders", 0) + 1  # `pass` / a comment line / a doc string: a placeholder without statements, stepped over
        elif type(e).__name__ not in PRIMITIVE_ELEMENTS:
            # whatever the expander does not know it copies through; the interpreter then skips it ("unknown element")
            V.append(("non-primitive-element:" + type(e).__name__, "element %d" % i))
    # ---- scopes: forward reachability with slide() head semantics
    if S["scopes"]:
        else_stmt_pos = set()
        for name, i in own.items():
            if name.startswith("when_else_statement_label_"):
                else_stmt_pos.update((i, i + 1))  # jumps land one past the label
        general, budget1 = _scope_reach(A, els, labels, blocked=else_stmt_pos)
        for v in general:
            V.append(("scope-not-closed:" + v[0], v[1]))
        if not general:
            everything, budget2 = _scope_reach(A, els, labels, blocked=())
            for v in everything:
                V.append((KNOWN_WHEN_ELSE, v[0] + " " + v[1]))
            budget1 = budget1 or budget2
        if budget1:
            S["reach_budget_hit"] = 1
    S["jumpish"] = S["gotos"] + S["forks"] + S["merges"] + S["catches"] + S["scopes"] + S["loop_exits"]
    return V, S


def _scope_reach(A, els, labels, blocked):
    n = len(els)
    start = (0, (), frozenset())
    seen = {start}
    todo = [start]
    found = {}
    over = False

    def lab(l):
        i = labels.get(l)
        return i if isinstance(i, int) and 0 <= i < n else None

    while todo:
        if len(seen) > MAX_STATES:
            over = True
            break
        pos, catch, scopes = todo.pop()
        if pos >= n:
            if scopes:
                found.setdefault("open-at-end", "scopes %s still open at the normal end" % sorted(scopes))
            continue
        if pos in blocked:
            continue
        e = els[pos]
        nxt = []
        if isinstance(e, A.Goto):
            t = lab(e.label)
            expr = (e.expression or "").strip()
            if t is not None:
                nxt.append((t + 1, catch, scopes))
            if expr != "True" or t is None:
                nxt.append((pos + 1, catch, scopes))
        elif isinstance(e, A.ForkHead):
            for l in e.labels:
                t = lab(l)
                if t is not None:
                    nxt.append((t, catch, scopes))
        elif isinstance(e, A.Return):
            nxt.append((n, catch, scopes))
        elif isinstance(e, A.Abort):
            if catch:
                t = lab(catch[-1])
                if t is not None:
                    nxt.append((t + 1, catch, scopes))
        elif isinstance(e, (A.Break, A.Continue)):
            t = lab(e.label) if e.label is not None else None
            nxt.append(((t + 1) if t is not None else pos + 1, catch, scopes))
        elif isinstance(e, A.CatchPatternFailure):
            if e.label is None:
                nxt.append((pos + 1, catch[:-1], scopes))
            elif len(catch) < 12:
                nxt.append((pos + 1, catch + (e.label,), scopes))
        elif isinstance(e, A.BeginScope):
            if e.name in scopes:
                found.setdefault("reopened", "BeginScope %s at element %d reached while still open" % (e.name, pos))
            else:
                nxt.append((pos + 1, catch, scopes | {e.name}))
        elif isinstance(e, A.EndScope):
            nxt.append((pos + 1, catch, scopes - {e.name}))
        else:
            nxt.append((pos + 1, catch, scopes))
            if isinstance(e, A.SpecOp) and e.op == "match" and catch:
                t = lab(catch[-1])
                if t is not None:
                    nxt.append((t + 1, catch, scopes))
        for s in nxt:
            if s not in seen:
                seen.add(s)
                todo.append(s)
    return sorted(found.items()), over


# --------------------------------------------------------------------------- the oracle: v1
def scan_v1_flow(flow):
    els = flow["elements"]
    n = len(els)
    V = []
    S = {"elements": n, "jumps": 0, "ifs": 0, "whiles": 0, "branches": 0, "loop_exits": 0, "returns": 0}

    def tgt(i, e, k):
        off = int(e[k])
        if e.get("_absolute") and k == "_next":
            return off, True
        return i + off, False

    for i, e in enumerate(els):
        t = e.get("_type")
        for k in ("_next", "_next_else", "_next_on_break", "_next_on_continue"):
            if k not in e:
                continue
            try:
                pos, absolute = tgt(i, e, k)
            except (TypeError, ValueError):
                V.append(("v1-offset-not-int:" + k, "flow %s element %d %r" % (flow.get("id"), i, e.get(k))))
                continue
            if absolute and pos == -1:
                S["returns"] += 1
                continue
            if not (0 <= pos <= n):
                V.append(("v1-jump-outside:" + k, "flow %s element %d (%s) -> %d, len %d" % (flow.get("id"), i, t, pos, n)))
        if t == "jump":
            S["jumps"] += 1
            if "_next" not in e:
                V.append(("v1-jump-without-target", "flow %s element %d" % (flow.get("id"), i)))
        elif t == "if":
            S["ifs"] += 1
            if "_next_else" not in e:
                V.append(("v1-if-without-else-target", "flow %s element %d" % (flow.get("id"), i)))
        elif t == "while":
            S["whiles"] += 1
            b = e.get("_next_on_break")
            if b is None:
                V.append(("v1-while-without-exit", "flow %s element %d" % (flow.get("id"), i)))
            elif not _is_back_jump_to(els, i + int(b) - 1, i):
                V.append(("v1-loop-exit-not-after-loop:while", "flow %s element %d exit %d" % (flow.get("id"), i, i + int(b))))
        elif t == "branch":
            S["branches"] += 1
            heads = e.get("branch_heads", [])
            if not heads:
                V.append(("v1-branch-without-heads", "flow %s element %d" % (flow.get("id"), i)))
            for h in heads:
                if not (0 < int(h) and i + int(h) < n):
                    V.append(("v1-branch-head-outside", "flow %s element %d head %r len %d" % (flow.get("id"), i, h, n)))
        if t in ("break", "continue") or (t != "while" and ("_next_on_break" in e or "_next_on_continue" in e)):
            if t in ("break", "continue"):
                S["loop_exits"] += 1
            c, b = e.get("_next_on_continue"), e.get("_next_on_break")
            if c is None and b is None:
                continue  # break/continue outside a loop is a plain step in v1 (slide: default 1)
            w = i + int(c) if c is not None else None
            if w is None or not (0 <= w < n) or els[w].get("_type") != "while":
                V.append(("v1-loop-continue-not-a-while", "flow %s element %d -> %r" % (flow.get("id"), i, w)))
            elif b is None or not _is_back_jump_to(els, i + int(b) - 1, w):
                V.append(("v1-loop-exit-not-after-loop", "flow %s element %d exit %r while %d" % (flow.get("id"), i, b, w)))
            elif not (w < i):
                V.append(("v1-loop-continue-forward", "flow %s element %d" % (flow.get("id"), i)))
    S["jumpish"] = S["jumps"] + S["ifs"] + S["whiles"] + S["branches"] + S["loop_exits"]
    return V, S


def _is_back_jump_to(els, j, w):
    if not (0 <= j < len(els)):
        return False
    e = els[j]
    try:
        return e.get("_type") == "jump" and not e.get("_absolute") and j + int(e["_next"]) == w
    except (KeyError, TypeError, ValueError):
        return False


# --------------------------------------------------------------------------- worker side
_W = {}


class CompiledFlowNotClosed(Exception):
    """Raised by the icontract post-condition of initialize_flow."""


def flow_is_closed(flow_config) -> bool:
    """icontract post-condition of statemachine.initialize_flow."""
    V, S = scan_v2_flow(_W["A"], flow_config)
    _W["contract_evals"] += 1
    _W["contract_results"][id(flow_config)] = (flow_config.id, V, S)
    return not V


def setup_worker():
    import logging

    import icontract

    from . import v2h

    L = v2h.load()
    sm = L["sm"]
    from nemoguardrails import RailsConfig
    from nemoguardrails.colang import parse_colang_file
    from nemoguardrails.colang.v1_0.runtime import sliding
    from nemoguardrails.colang.v2_x.lang import colang_ast as A
    from nemoguardrails.colang.v2_x.runtime import runtime as rt

    for name in ("If", "While", "When", "SpecOp", "Spec", "Goto", "ForkHead", "MergeHeads", "WaitForHeads", "CatchPatternFailure",
                 "Break", "Continue", "BeginScope", "EndScope", "Label", "Return", "Abort"):
        if not hasattr(A, name):
            raise RuntimeError("colang_ast.%s is gone" % name)
    if not hasattr(sm, "initialize_flow") or not hasattr(sm, "initialize_state"):
        raise RuntimeError("statemachine.initialize_flow/initialize_state is gone")
    if not hasattr(sliding, "slide"):
        raise RuntimeError("v1 sliding.slide is gone")
    _W.update(A=A, sm=sm, rt=rt, L=L, RailsConfig=RailsConfig, parse=parse_colang_file, sliding=sliding,
              contract_evals=0, contract_results={}, contract_raised=0)
    orig = sm.initialize_flow
    contracted = icontract.ensure(flow_is_closed, error=CompiledFlowNotClosed)(orig)

    def initialize_flow(state, flow_config):
        # the contract is evaluated on the real function; a violation is recorded and the
        # loop of initialize_state goes on so that every flow of the program is judged
        try:
            return contracted(state, flow_config)
        except CompiledFlowNotClosed:
            _W["contract_raised"] += 1
            return None

    initialize_flow._vp_c12 = True
    sm.initialize_flow = initialize_flow
    if getattr(rt, "initialize_flow", None) is orig:
        rt.initialize_flow = initialize_flow
    from . import steps

    from nemoguardrails.colang.v1_0.runtime import eval as v1eval

    steps.install([sliding, v1eval])

    class Capture(logging.Handler):
        def __init__(self):
            logging.Handler.__init__(self, level=logging.WARNING)
            self.records = []

        def emit(self, record):
            try:
                msg = record.getMessage()
            except Exception:
                msg = str(record.msg)
            et = record.exc_info[0].__name__ if record.exc_info and record.exc_info[0] else None
            ev = str(record.exc_info[1])[:200] if record.exc_info and record.exc_info[1] is not None else None
            self.records.append((record.name, msg[:300], et, ev, _where(record.exc_info[2] if record.exc_info else None)))

    _W["capture"] = Capture()


def _where(tb):
    """function and source text of the innermost frame of a traceback (structural fact for the classifier)."""
    import traceback

    try:
        fr = traceback.extract_tb(tb)[-1]
        return "%s: %s" % (fr.name, (fr.line or "").strip())
    except Exception:
        return ""


class _Logs:
    """Locally re-enable the nemoguardrails.colang loggers (the worker disables logging globally)."""

    def __enter__(self):
        import logging

        self.logging = logging
        self.lg = logging.getLogger("nemoguardrails.colang")
        self.cap = _W["capture"]
        self.cap.records = []
        self.old = (logging.root.manager.disable, self.lg.propagate, self.lg.level)
        logging.disable(logging.INFO)
        self.lg.propagate = False
        self.lg.setLevel(logging.WARNING)
        self.lg.addHandler(self.cap)
        return self.cap

    def __exit__(self, *a):
        self.lg.removeHandler(self.cap)
        self.lg.propagate = self.old[1]
        self.lg.setLevel(self.old[2])
        self.logging.disable(self.old[0])
        return False


def _sha(s):
    return hashlib.sha1(s.encode("utf-8", "replace")).hexdigest()


def _merge(obs, S, prefix):
    for k, v in S.items():
        obs[prefix + k] = obs.get(prefix + k, 0) + v


def _init_v2(flows, rails_config=None):
    """create_flow_configs_from_flow_list -> State -> initialize_state exactly like RuntimeV2_x
    (_init_flow_configs + process_events); returns (state, contract results of this call, used_initialize_state)."""
    L, sm = _W["L"], _W["sm"]
    fc = L["mkcfg"](flows)
    st = L["fl"].State(flow_states=[], flow_configs=fc, rails_config=rails_config)
    _W["contract_results"] = {}
    before = _W["contract_evals"]
    _W["raised_before"] = _W["contract_raised"]
    used = True
    if "main" in fc:
        sm.initialize_state(st)
    else:
        used = False  # initialize_state asserts a main flow; run its per-flow loop
        st.flow_states = dict()
        for c in fc.values():
            sm.initialize_flow(st, c)
    return st, _W["contract_evals"] - before, used


def _retry_init_on_same_configs(flows, obs):
    """what RuntimeV2_x does across requests: the same FlowConfig objects, a new State, initialize_state again (twice more)"""
    L, sm, A = _W["L"], _W["sm"], _W["A"]
    fc = L["mkcfg"](flows)
    out = []
    for attempt in range(3):
        st = L["fl"].State(flow_states=[], flow_configs=fc, rails_config=None)
        try:
            if "main" in fc:
                sm.initialize_state(st)
            else:
                st.flow_states = dict()
                for c in fc.values():
                    sm.initialize_flow(st, c)
        except Exception:
            obs["gen2_rejected_again"] = obs.get("gen2_rejected_again", 0) + 1
            continue
        obs["gen2_accepted_on_retry"] = 1
        for fid, cfg in st.flow_configs.items():
            V, _S = scan_v2_flow(A, cfg)
            for m_, d_ in V:
                out.append(("accepted-on-retry-after-rejection:" + m_, fid, d_))
        if not out:
            out.append(("accepted-on-retry-after-rejection", "-", "attempt %d succeeded where attempt 1 raised" % (attempt + 1)))
        break
    return out


def _judge_v2_state(st, evals, obs):
    """Direct scan over every flow config + cross-check with what the contract saw.
    Returns (violations, flows, jumpish elements, flows the contract did not judge identically)."""
    A = _W["A"]
    violations = []
    flows = 0
    jumpish = 0
    dup_flows = 0
    unseen = 0
    for fid, cfg in st.flow_configs.items():
        V, S = scan_v2_flow(A, cfg)
        flows += 1
        jumpish += S["jumpish"]
        if S["dup_label_names"]:
            dup_flows += 1
        _merge(obs, S, "v2_")
        seen = _W["contract_results"].get(id(cfg))
        if seen is None or sorted(m for m, _ in seen[1]) != sorted(m for m, _ in V):
            unseen += 1
        for m, d in V:
            violations.append((m, fid, d))
    obs["v2_flows_scanned"] = obs.get("v2_flows_scanned", 0) + flows
    obs["v2_flows_with_duplicate_label_names"] = obs.get("v2_flows_with_duplicate_label_names", 0) + dup_flows
    obs["contract_evaluations"] = obs.get("contract_evaluations", 0) + evals
    raised = _W["contract_raised"] - _W.get("raised_before", 0)
    if raised:
        obs["contract_violations_raised"] = obs.get("contract_violations_raised", 0) + raised
    if unseen:
        obs["v2_flows_not_judged_by_contract"] = obs.get("v2_flows_not_judged_by_contract", 0) + unseen
    return violations, flows, jumpish, unseen


def _recompile_v2(flows, rails_config, obs):
    """The same parsed flows (one RailsConfig object) compiled a SECOND time - what a second LLMRails / RuntimeV2_x built
    from the same config object does. The second compilation must be closed as well."""
    scratch = {}
    try:
        st2, evals2, _ = _init_v2(flows, rails_config)
    except Exception as e:
        obs["second_compilation_failed"] = obs.get("second_compilation_failed", 0) + 1
        return [("second-compilation-raises:" + type(e).__name__, "*", str(e)[:200])]
    v2, _f, _j, _u = _judge_v2_state(st2, evals2, scratch)
    obs["second_compilations_scanned"] = obs.get("second_compilations_scanned", 0) + 1
    return [(m + "@second-compilation", fid, d) for m, fid, d in v2]


def _judge_v1_flows(flows, obs):
    violations = []
    jumpish = 0
    for f in flows:
        V, S = scan_v1_flow(f)
        _merge(obs, S, "v1_")
        jumpish += S["jumpish"]
        for m, d in V:
            violations.append((m, f.get("id"), d))
    obs["v1_flows_scanned"] = obs.get("v1_flows_scanned", 0) + len(flows)
    return violations, len(flows), jumpish


def _finish(base, violations, obs, reached, nontrivial, witness_extra):
    if violations:
        mechs = sorted(set(v[0] for v in violations))
        return dict(base, verdict="violated", observed=obs, nontrivial=nontrivial, mechanisms=mechs,
                    witness=dict(witness_extra, violations=[list(v) for v in violations[:12]], n_violations=len(violations)))
    if not reached:
        return dict(base, verdict="inconclusive", reason="monitor-not-reached", observed=obs, nontrivial=False)
    return dict(base, verdict="held", observed=obs, nontrivial=nontrivial)


SKIP_EXC = ("ModuleNotFoundError", "ImportError", "ConnectionError", "OSError", "FileNotFoundError")


def _load_shipped(path):
    """RailsConfig.from_path on a directory; returns (config, None) or (None, skip reason)."""
    try:
        return _W["RailsConfig"].from_path(path), None
    except BaseException as e:  # noqa: B902 - the reason is the observation
        from . import steps

        if isinstance(e, (steps.StepBudgetExceeded, steps.WatchdogTimeout, KeyboardInterrupt)):
            raise
        msg = str(e)
        name = type(e).__name__
        if name in SKIP_EXC or "No module named" in msg:
            return None, "needs-absent-module-or-file:" + name
        if "could not be resolved" in msg:
            return None, "unresolvable-import"
        return None, "loader-error:" + name


def _run_shipped(case):
    import shutil
    import tempfile

    repo = _repo()
    path = os.path.join(repo, case["path"])
    obs = {}
    base = {"key": case["id"], "sample": {"kind": case["kind"], "path": case["path"]}, "kind": case["kind"]}
    tmp = None
    try:
        if case["kind"] == "file":
            content = open(path, encoding="utf-8").read()
            v1 = path.endswith(".v1.co") or any(l.startswith("define ") for l in content.split("\n"))
            tmp = tempfile.mkdtemp(prefix="c12f_")
            shutil.copy(path, os.path.join(tmp, os.path.basename(path)))
            with open(os.path.join(tmp, "config.yml"), "w") as f:
                f.write('colang_version: "%s"\nmodels: []\n' % ("1.0" if v1 else "2.x"))
            has_main = any(l.startswith("flow main") for l in content.split("\n"))
            if not v1 and not has_main:
                with open(os.path.join(tmp, "zz_c12_main.co"), "w") as f:
                    f.write("flow main\n  match NeverC12()\n")
            load_path = tmp
        else:
            load_path = path
        cfg, skip = _load_shipped(load_path)
        if cfg is None and skip == "unresolvable-import":
            # some shipped configs import paths relative to the repository root (the test-suite's cwd)
            here = os.getcwd()
            try:
                os.chdir(repo)
                cfg, skip = _load_shipped(load_path)
                if cfg is not None:
                    obs["shipped_loaded_with_repo_cwd"] = 1
            finally:
                os.chdir(here)
        if cfg is None:
            obs["shipped_skip_" + skip] = 1
            return dict(base, verdict="inconclusive", reason="expected:shipped-skip:" + skip, observed=obs, nontrivial=False)
        obs["shipped_loaded"] = 1
        if cfg.colang_version == "2.x":
            try:
                st, evals, used = _init_v2(cfg.flows, cfg)
            except Exception as e:
                name = type(e).__name__
                obs["shipped_skip_init-error:" + name] = 1
                return dict(base, verdict="inconclusive", reason="expected:shipped-skip:init-error:" + name, observed=obs,
                            nontrivial=False, detail=str(e)[:300])
            if not used:
                obs["v2_configs_without_main"] = 1
            violations, flows, jumpish, unseen = _judge_v2_state(st, evals, obs)
            violations += _recompile_v2(cfg.flows, cfg, obs)
            obs["shipped_v2_configs"] = 1
            reached = flows > 0 and evals > 0 and not unseen
            if flows == 0:
                obs["shipped_without_flows"] = 1
                return dict(base, verdict="inconclusive", reason="expected:no-flows", observed=obs, nontrivial=False)
        else:
            violations, flows, jumpish = _judge_v1_flows(cfg.flows, obs)
            obs["shipped_v1_configs"] = 1
            reached = flows > 0
            if flows == 0:
                obs["shipped_without_flows"] = 1
                return dict(base, verdict="inconclusive", reason="expected:no-flows", observed=obs, nontrivial=False)
        obs["shipped_flows"] = flows
        return _finish(base, violations, obs, reached, jumpish > 0, {"path": case["path"], "colang_version": cfg.colang_version})
    finally:
        if tmp:
            shutil.rmtree(tmp, ignore_errors=True)


JUMP_TABLE_LOOKUPS = ("element_labels[", "head_fork_uids[", "flow_config.elements[", "catch_pattern_failure_label")


def _dynamic_verdicts(records, referenced, facts):
    """Map captured log records / escaping exceptions to closedness mechanisms. `referenced` = every label and fork
    uid some compiled element refers to. A KeyError is a jump failure iff its key is one of those or it is raised by a
    jump-table lookup; a KeyError on a run-time uid (head, action) is outside C12 except for the C07 signature."""
    out = []
    for name, msg, et, ev, where in records:
        if "Invalid label" in msg:
            out.append(("dangling-label-dynamic:goto", msg))
        elif et == "KeyError":
            key = (ev or "").strip("'\"")
            if key in referenced or any(t in where for t in JUMP_TABLE_LOOKUPS):
                out.append(("dangling-label-dynamic:KeyError", msg + " @ " + where))
            elif facts.get("when_multi") and "heads[" in where:
                out.append((KNOWN_WHEN_OR_DYNAMIC, msg + " @ " + where))
        elif et == "IndexError":
            out.append(("jump-exception-dynamic:IndexError", msg + " @ " + where))
        elif et == "ColangRuntimeError" and "Scope with name" in (ev or msg):
            if "already opened" in (ev or msg) and facts.get("when_else"):
                out.append((KNOWN_WHEN_ELSE, msg))
            else:
                out.append(("scope-error-dynamic", msg))
    return out


def _run_gen2(case):
    from . import steps, v2h

    L = _W["L"]
    rng = random.Random(case["gseed"])
    g = Gen2(rng)
    script = None
    if case.get("tmpl"):
        src, facts, script = TEMPLATES2[case["tmpl"]]
        src = src + _LEAVES2
        g.facts = dict(facts)
    else:
        src = g.program(case["maxdepth"])
    obs = {"gen2_programs": 1}
    base = {"key": _sha(src), "kind": "gen2", "facts": g.facts,
            "sample": {"kind": "gen2", "program": src, "maxdepth": case.get("maxdepth"), "template": case.get("tmpl")}}
    try:
        parsed = L["parse"](filename="g.co", content=src, include_source_mapping=False, version="2.x")
        flows = parsed["flows"]
    except Exception as e:
        obs["gen2_loader_reject"] = 1
        return dict(base, verdict="inconclusive", reason="loader-reject", detail="%s: %s" % (type(e).__name__, str(e)[:300]),
                    observed=obs, nontrivial=False)
    try:
        st, evals, _ = _init_v2(flows)
    except Exception as e:
        obs["gen2_loader_reject_init"] = 1
        # the runtime creates its states lazily from ONE set of flow configs: asked again (the next request) it must refuse again -
        # or hand out compiled flows that are closed
        again = _retry_init_on_same_configs(flows, obs)
        if again:
            return dict(base, verdict="violated", observed=obs, mechs=sorted({m_ for m_, _f, _d in again}), n_violations=len(again),
                        witness={"program": src, "first_attempt": "%s: %s" % (type(e).__name__, str(e)[:200]), "violations": again[:8]})
        return dict(base, verdict="inconclusive", reason="loader-reject", detail="init %s: %s" % (type(e).__name__, str(e)[:300]),
                    observed=obs, nontrivial=False)
    violations, nflows, jumpish, unseen = _judge_v2_state(st, evals, obs)
    violations += _recompile_v2(flows, None, obs)
    for k in ("when", "when_else", "when_multi", "while", "if", "brk", "groups", "scoped_await"):
        obs["gen2_stmt_" + k] = g.facts[k]
    # ---- dynamic confirmation
    A = _W["A"]
    referenced = set()
    for cfg in st.flow_configs.values():
        for e in cfg.elements:
            if isinstance(e, (A.Goto, A.Break, A.Continue, A.CatchPatternFailure)) and e.label:
                referenced.add(e.label)
            elif isinstance(e, A.ForkHead):
                referenced.update(e.labels)
                referenced.add(e.fork_uid)
            elif isinstance(e, A.MergeHeads):
                referenced.add(e.fork_uid)
    L["random"].reset(seed=case["gseed"])
    L["clock"].reset()
    history = []
    escaped = None
    dyn = []
    with _Logs() as cap:
        try:
            ev = L["sm"].InternalEvent(name="StartFlow", arguments={"flow_id": "main"})
            out = v2h.run(st, ev)
            pending = []
            for step in range(len(script) if script else rng.randint(5, 10)):
                for o in out:
                    t = o.get("type", "")
                    if t.startswith("Start") and t.endswith("Action") and o.get("action_uid"):
                        pending.append((t[5:], o["action_uid"]))
                if script:
                    e = {"type": script[step]}
                elif pending and rng.random() < 0.4:
                    name, uid = pending.pop(rng.randrange(len(pending)))
                    e = {"type": name + "Finished", "action_uid": uid, "is_success": True, "return_value": rng.choice([None, 1, "r"])}
                else:
                    e = {"type": rng.choice(Gen2.HISTORY_EVENTS)}
                history.append(e)
                out = v2h.run(st, e)
                obs["dynamic_events"] = obs.get("dynamic_events", 0) + 1
        except steps.StepBudgetExceeded:
            obs["dynamic_nonterminating"] = 1
        except Exception as e:
            escaped = (type(e).__name__, str(e)[:200], _where(e.__traceback__))
        records = list(cap.records)
    obs["dynamic_runs"] = 1
    obs["dynamic_warnings_seen"] = len(records)
    dyn = _dynamic_verdicts(records, referenced, g.facts)
    if escaped:
        esc = _dynamic_verdicts([("escaped", "escaped %s: %s" % escaped[:2], escaped[0], escaped[1], escaped[2])], referenced, g.facts)
        dyn += esc
        if not esc:
            obs["dynamic_other_escaped_exceptions"] = ["%s @ %s" % (escaped[0], escaped[2])]
    for m, d in dyn:
        violations.append((m, "main", d))
    other = [r for r in records if not _dynamic_verdicts([r], referenced, g.facts)]
    if other:
        obs["dynamic_other_warnings"] = len(other)
        obs["dynamic_other_warning_kinds"] = sorted(set("%s @ %s" % (r[2] or r[1][:40], r[4][:80]) for r in other))[:5]
    base["sample"]["events"] = [h["type"] for h in history]
    return _finish(base, violations, obs, nflows > 0 and evals > 0 and not unseen, jumpish > 0,
                   {"program": src, "events": history, "facts": g.facts})


class _V1State:
    def __init__(self, ctx):
        self.context = ctx
        self.context_updates = {}


class _V1Flow:
    def __init__(self, f):
        self.id = f.get("id")
        self.elements = f["elements"]


def _run_gen1(case):
    from . import steps

    rng = random.Random(case["gseed"])
    g = Gen1(rng)
    src = g.program(case["maxdepth"])
    obs = {"gen1_programs": 1}
    base = {"key": _sha(src), "kind": "gen1", "facts": g.facts, "sample": {"kind": "gen1", "program": src, "maxdepth": case["maxdepth"]}}
    try:
        flows = _W["parse"]("g.co", src, version="1.0")["flows"]
    except Exception as e:
        obs["gen1_loader_reject"] = 1
        return dict(base, verdict="inconclusive", reason="loader-reject", detail="%s: %s" % (type(e).__name__, str(e)[:300]),
                    observed=obs, nontrivial=False)
    violations, nflows, jumpish = _judge_v1_flows(flows, obs)
    for k, v in g.facts.items():
        obs["gen1_stmt_" + k] = v
    # ---- dynamic confirmation: the real slide() from every stopping point
    slide = _W["sliding"].slide
    for f in flows:
        fc = _V1Flow(f)
        n = len(fc.elements)
        if any(e.get("_type") == "jump" and not e.get("_absolute") and int(e.get("_next", 1)) <= 0
               and not (0 <= i + int(e["_next"]) < n and fc.elements[i + int(e["_next"])].get("_type") == "while")
               for i, e in enumerate(fc.elements)):
            # a backward goto can spin without entering any counted function: static scan only
            obs["dynamic_v1_skipped_backward_goto"] = obs.get("dynamic_v1_skipped_backward_goto", 0) + 1
            continue
        state = _V1State({"x": rng.randint(0, 3)})
        head = 0
        hops = 0
        try:
            steps.start(4000)
            while head is not None and 0 <= head < n and hops < 40:
                hops += 1
                new = slide(state, fc, head)
                obs["dynamic_v1_slides"] = obs.get("dynamic_v1_slides", 0) + 1
                if new is None or new < 0:
                    break
                if new > n:
                    violations.append(("v1-head-outside-dynamic", fc.id, "slide returned %d, len %d" % (new, n)))
                    break
                if new == n:
                    break
                t = fc.elements[new].get("_type")
                if t == "branch":
                    new = new + rng.choice(fc.elements[new]["branch_heads"])
                head = new + 1  # the element at `new` matched
        except steps.StepBudgetExceeded:
            obs["dynamic_v1_loops_forever"] = obs.get("dynamic_v1_loops_forever", 0) + 1
        except (IndexError, KeyError) as e:
            violations.append(("v1-jump-exception-dynamic:" + type(e).__name__, fc.id, "slide from head %d: %s" % (head, str(e)[:100])))
        except Exception as e:
            obs["dynamic_v1_other_exception_" + type(e).__name__] = 1
        finally:
            steps.stop()
    return _finish(base, violations, obs, nflows > 0, jumpish > 0, {"program": src, "facts": g.facts})


def run_case(case):
    kind = case["kind"]
    if kind in ("dir", "file"):
        return _run_shipped(case)
    if kind == "gen2":
        return _run_gen2(case)
    if kind == "gen1":
        return _run_gen1(case)
    raise ValueError(kind)


# --------------------------------------------------------------------------- classifier / cross-case obligations
def classify(r):
    mechs = r.get("mechanisms") or sorted(set(v[0] for v in r.get("witness", {}).get("violations", [])))
    known = (KNOWN_WHEN_ELSE, KNOWN_WHEN_OR_DYNAMIC)
    new = [m for m in mechs if m not in known]
    if new:
        return new[0]
    if KNOWN_WHEN_ELSE in mechs:
        return KNOWN_WHEN_ELSE
    if mechs:
        return mechs[0]
    return "unclassified"


def finalize(tier, seed, observed, counts):
    repo = _repo()
    dirs, orphans, cos = shipped_inputs(repo)
    total = len(dirs) + len(orphans)
    loaded = observed.get("shipped_loaded", 0)
    judged = observed.get("shipped_v2_configs", 0) + observed.get("shipped_v1_configs", 0)
    cov = {
        "shipped_config_dirs": len(dirs),
        "shipped_co_files": len(cos),
        "shipped_co_files_outside_config_dirs": len(orphans),
        "shipped_inputs_loaded": loaded,
        "shipped_inputs_initialised_and_scanned": judged,
    }
    out = {"coverage": cov}
    if total and sum(counts.values()) >= total and judged < 0.85 * total:
        out["inconclusive"] = "only %d of %d shipped inputs were loaded, initialised and scanned" % (judged, total)
    if observed.get("v2_flows_scanned", 0) and not observed.get("contract_evaluations", 0):
        out["inconclusive"] = "monitor-not-reached: the initialize_flow contract was never evaluated"
    return out
