"""C03 — failing actions are contained and rails fail closed.

Fault enumeration: for each generated conversation the number n of custom-action
calls of its fault-free run is computed from the sequential model; the conversation
is then re-run once per call index i<n with a failpoint raising inside that call
(input rail, output rail or dialog action; every turn; v1 and v2) - pairs of
faults in the thorough tier. Refuted by: generate raising; the faulted turn's reply
containing the turn's LLM token or being neither a refusal nor the internal-error
text; on the following turns (which replay the same verdict vector) any deviation
from the C01/C02 sequential model.
"""
import itertools
import random

from . import railsconv as rc
from .railsmon import run_case_for, setup_worker  # noqa: F401

PROPERTY = "C03"
LEVEL = "fault_enumeration"
RULE = (
    "case = (generated conversation of 2-3 turns whose turns replay the same verdict vector; fault plan = one action-call index, or two (thorough: up to three) indices = several failing turns in one conversation); "
    "for every conversation ALL single-fault positions are enumerated; call sites = input rail / output rail / dialog action, pipelines v1 dialog / "
    "single-call / general / passthrough and v2. non-trivial = the fault is not in the last turn (a next turn exists and is judged); distinct = (conversation, fault plan)"
)
MIN_HELD = {"quick": 300, "thorough": 4000}
ASSUMPTIONS = [
    "the failpoint lives in the harness-registered action, exactly where a user's action would raise; LLM provider failures are excluded by the property",
    "the next turn replays the same verdicts, and some rails keep their verdict only in one context variable ($allowed / $v with a constant mask) - the shape that exposes stale context",
]
SAMPLE_EVERY = 41
CASE_WALL_S = 150
TAG = "C03"


def gen_conv(rng, ver, tier):
    k = rng.randint(1, 3)
    m = rng.randint(0, 2)
    turns = rng.randint(2, 3)
    if ver == "v1":
        mode = rng.choice(["dialog", "dialog", "general", "passthrough", "single_call", "multi_step"])
        spec = {"ver": "v1", "k": k, "m": m, "mode": mode, "exc": rng.random() < 0.2}
        spec["in_shapes"] = [rng.choice(["allowed", "mask", "v"]) for _ in range(k)]
        spec["out_shapes"] = [rng.choice(["allowed", "v"]) for _ in range(m)]
        spec["dialog_action"] = bool(mode == "dialog" and rng.random() < 0.5)
    else:
        spec = {"ver": "v2", "k": k, "m": m, "mode": "v2", "exc": False}
        if rng.random() < 0.5:
            # rails whose action answers "is it bad?" instead of "is it allowed?"
            spec["pol_in"] = [rng.choice(["ok", "blocked"]) for _ in range(k)]
            spec["pol_out"] = [rng.choice(["ok", "blocked"]) for _ in range(m)]
    if rng.random() < 0.4:
        # the actions that fail also declare a parameter the runtime injects by name (llm, config, events, state, ...)
        spec["sig"] = rng.choice(rc.rails.SIGNATURES)
    api = "nocache" if (ver == "v1" and rng.random() < 0.25) else "messages"
    vin = []
    for i in range(k):
        opts = ["ok", "ok", "rewrite"] if (ver == "v1" and spec["in_shapes"][i] != "allowed") else ["ok"]
        if rng.random() < 0.15:
            opts = ["block"]
        vin.append(rng.choice(opts))
    vout = []
    for i in range(m):
        opts = ["ok", "ok", "rewrite"] if (ver == "v1" and spec["out_shapes"][i] != "allowed") else ["ok"]
        if rng.random() < 0.15:
            opts = ["block"]
        vout.append(rng.choice(opts))
    V = []
    for t in range(turns):
        for i in range(k):
            V.append(["in", t, i, vin[i]])
        for i in range(m):
            V.append(["out", t, i, vout[i]])
    opts = None
    if ver == "v1" and rng.random() < 0.3:
        # the caller asks for a generation log: the same rails run, but the reply is assembled on the generation-options path
        # (processing log -> generation log), which also has to cope with what a failed action left behind
        opts = [rng.choice([{"log": {"activated_rails": True}}, {"log": {"activated_rails": True, "llm_calls": True, "internal_events": True}}])] * turns
    return {"spec": spec, "turns": turns, "kinds": ["llm"] * turns, "V": V, "cid": "f%d" % rng.randint(0, 10**6), "fault": None, "api": api, "opts": opts}


def cases(tier, seed):
    rng = random.Random(311 + seed)
    i = 0
    n1, n2 = (70, 14) if tier == "quick" else (700, 120)
    for ver, n in (("v1", n1), ("v2", n2)):
        for _ in range(n):
            conv = gen_conv(rng, ver, tier)
            total, per_turn = rc.expected_action_calls(conv)
            i += 1
            yield dict(conv, id=i, fault=None, ncalls=total)
            for f in range(total):
                i += 1
                yield dict(conv, id=i, fault=[f], ncalls=total, per_turn=per_turn)
            if total >= 2:
                # two (thorough: also three) faults in one conversation. Indices count the calls as they actually happen: the
                # calls a faulted turn no longer makes are not counted, so (a, a+1) is "the very next action call fails too" -
                # normally the first call of the NEXT turn, i.e. two failing turns in a row
                pairs = list(itertools.combinations(range(total), 2))
                rng.shuffle(pairs)
                consecutive = [(a, a + 1) for a in range(total - 1)]
                rng.shuffle(consecutive)
                chosen = consecutive[:2] + pairs[:1] if tier == "quick" else consecutive[:4] + pairs[:6]
                for a, b in dict.fromkeys(chosen):
                    i += 1
                    yield dict(conv, id=i, fault=[a, b], ncalls=total, per_turn=per_turn)
                if tier != "quick" and total >= 3:
                    i += 1
                    yield dict(conv, id=i, fault=[0, 1, 2], ncalls=total, per_turn=per_turn)


def run_case(case):
    r = run_case_for(TAG, case, reuse=12)
    r["api"] = case.get("api")
    r["fault_turn_has_history"] = bool(r.get("verdict") == "violated" and ((r.get("witness") or {}).get("turn") or 0) >= 1)
    fr = r.get("fault_rail")
    if fr and case["spec"].get("ver") == "v2" and fr[0] in ("in", "out") and fr[1] is not None:
        pol = case["spec"].get("pol_in" if fr[0] == "in" else "pol_out") or []
        r["fault_on_blocked_polarity_rail"] = pol[fr[1] : fr[1] + 1] == ["blocked"]
    per_turn = case.get("per_turn")
    nt = False
    if case.get("fault") and per_turn:
        last_turn_start = sum(per_turn[:-1])
        nt = min(case["fault"]) < last_turn_start
    r["nontrivial"] = nt
    obs = r.setdefault("observed", {})
    if case.get("fault"):
        obs["fault_plans"] = 1
        if obs.get("faulted_turns", 0) == 0 and r.get("verdict") == "held":
            # the failpoint index was never reached (e.g. an earlier fault changed the call sequence)
            r["verdict"] = "inconclusive"
            r["reason"] = "expected:failpoint-not-reached"
    return r


def classify(r):
    w = r.get("what")
    if r.get("ver") == "v1" and r.get("api") == "nocache" and r.get("fault_turn_has_history") and w in (
            "unchecked-llm-text-returned-after-in-rail-fault", "unchecked-llm-text-returned-after-out-rail-fault", "llm-called-after-input-rail-fault", "reply-neither-refusal-nor-internal-error"):
        # structural: the conversation is served without the events cache (history rebuilt from the messages) and the failing
        # turn is not the first one
        return "v1-rebuilt-history-resumes-dialog-after-fault"
    if r.get("ver") == "v2" and r.get("fault_on_blocked_polarity_rail") and w in ("unchecked-llm-text-returned-after-in-rail-fault", "unchecked-llm-text-returned-after-out-rail-fault", "llm-called-after-input-rail-fault"):
        # structural: the call that failed belongs to a rail whose action answers "is it bad?"
        return "v2-failed-action-reads-as-not-bad"
    if r.get("ver") == "v1" and r.get("after_fault") and w in ("input-rail-calls-differ", "reply-is-not-the-rejecting-rails-refusal", "original-text-in-prompt-after-rewrite", "output-rail-calls-differ", "reply-differs-from-model", "llm-called-after-input-rejection", "no-generation-for-accepted-message"):
        return "stale-context-after-hidden-turn"
    return "%s:%s" % (r.get("ver"), w)
