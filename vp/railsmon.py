"""Common run_case / classify for the three rails checks (C01 input side, C02 output
side, C03 faults); each mon_c0X module supplies its own case generator and tag."""
import random

from . import rails, railsconv as rc


def setup_worker():
    rails.load()


def run_case_for(tag, case, reuse=12):
    spec = case["spec"]
    sample = {"spec": spec, "turns": case["turns"], "kinds": case["kinds"], "verdicts": case["V"], "fault": case.get("fault"), "options_per_turn": case.get("opts"), "api": case.get("api", "messages")}
    base = {"key": repr((sorted(spec.items()), case["turns"], case["kinds"], case["V"], case.get("fault"), case.get("opts"), case.get("api"))), "sample": sample, "ver": spec["ver"], "mode": spec["mode"]}
    try:
        records, app = rc.run_conversation(case, reuse=reuse)
    except Exception as e:
        # configuration rejected / harness problem while building the app
        import traceback

        return dict(base, verdict="inconclusive", reason="app-build-failed:%s" % type(e).__name__, detail=traceback.format_exc()[-800:])
    problems, stats = rc.judge(case, records, app)
    mine = [p for p in problems if p["tag"] == tag]
    obs = dict(stats)
    obs["mode_" + spec["mode"]] = 1
    obs["conversations"] = 1
    obs["conversations_with_per_call_options"] = int(bool(case.get("opts")))
    obs["conversations_via_state_api"] = int(case.get("api") == "state")
    sample["replies"] = [r["reply"] if r["raised"] is None else "RAISED %r" % (r["raised"],) for r in records]
    monitor_reached = stats["turns_judged"] + stats["faulted_turns"] > 0 and (stats["rail_calls_in"] + stats["rail_calls_out"] > 0)
    res = dict(base, observed=obs)
    if mine:
        p = mine[0]
        return dict(res, verdict="violated", what=p["what"], after_fault=p["after_fault"], after_block=p["after_block"], fault_rail=p.get("fault_rail"), witness={"config_colang": app.co, "config_yaml": app.yaml, "case": sample, "turn": p["t"], "problem": p["what"], "detail": p["detail"], "all_problems": [(q["tag"], q["t"], q["what"]) for q in problems]})
    if not monitor_reached:
        # rail calls the sequential model expects (a dialog action is not a rail)
        stub = rc._Stub(case["cid"], rc.unpack_V(case))
        expected_calls = 0
        for t in range(case["turns"]):
            mt = rails.model_turn(spec, stub, t, "x", case["kinds"][t], (case.get("opts") or [None] * case["turns"])[t])
            expected_calls += len(mt["exp_in"]) + (len(mt["exp_out"]) if mt["in_blocked"] is None else 0)
        if expected_calls == 0 and stats["turns_judged"] > 0:
            # per-call options switched off every configured rail of this conversation: nothing to observe
            return dict(res, verdict="inconclusive", reason="expected:no-rail-call-expected")
        return dict(res, verdict="inconclusive", reason="monitor-not-reached")
    return dict(res, verdict="held")
