"""Long-lived worker: reads one JSON case per line on stdin, answers one JSON
result per line on the protocol fd (the original stdout); everything the code
under test prints goes to stderr (a log file of the parent)."""
import importlib
import json
import os
import signal
import sys
import time
import traceback

from .steps import StepBudgetExceeded, WatchdogTimeout

CASE_WALL_S = int(os.environ.get("VERIF_CASE_WALL_S", "90"))


def _alarm(signum, frame):
    raise WatchdogTimeout("case wall-clock watchdog (%ds)" % CASE_WALL_S)


def main():
    prop = sys.argv[1]
    proto = os.fdopen(os.dup(1), "w", buffering=1)
    os.dup2(2, 1)  # whatever the repo prints goes to the log
    sys.stdout = sys.stderr
    repo = os.environ.get("VERIF_REPO", "/repo")
    if repo in sys.path:
        sys.path.remove(repo)
    sys.path.insert(0, repo)
    from . import deps

    deps.ensure()
    import logging
    import warnings

    warnings.filterwarnings("ignore")
    logging.disable(logging.CRITICAL)
    mon = importlib.import_module("vp.mon_%s" % prop.lower())
    setup_err = None
    try:
        if hasattr(mon, "setup_worker"):
            mon.setup_worker()
    except BaseException as e:  # hook target vanished etc.
        setup_err = "hook-missing: setup_worker raised %s: %s" % (type(e).__name__, e)
        traceback.print_exc()
    signal.signal(signal.SIGALRM, _alarm)
    for line in sys.stdin:
        line = line.strip()
        if not line:
            continue
        case = json.loads(line)
        t0 = time.time()
        if setup_err:
            res = {"verdict": "inconclusive", "reason": setup_err}
        else:
            signal.alarm(getattr(mon, "CASE_WALL_S", CASE_WALL_S))
            try:
                res = mon.run_case(case)
            except WatchdogTimeout as e:
                res = {"verdict": "inconclusive", "reason": "watchdog", "detail": str(e)}
            except StepBudgetExceeded as e:
                res = {"verdict": "inconclusive", "reason": "nonterminating", "detail": str(e)}
            except BaseException as e:
                res = {
                    "verdict": "inconclusive",
                    "reason": "harness-error:%s" % type(e).__name__,
                    "detail": "".join(traceback.format_exception(type(e), e, e.__traceback__))[-1500:],
                }
            finally:
                signal.alarm(0)
        res.setdefault("id", case.get("id"))
        res["t"] = round(time.time() - t0, 4)
        try:
            out = json.dumps(res, default=str)
        except Exception as e:
            out = json.dumps({"id": case.get("id"), "verdict": "inconclusive", "reason": "unserialisable-result:%s" % e})
        proto.write(out + "\n")
        proto.flush()


if __name__ == "__main__":
    main()
