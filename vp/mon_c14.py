"""C14 — Colang 1.0 dialog flows are followed like structured programs.

Differential monitor.  A seeded generator emits a structured v1 program (AST +
source text).  The real parser (`parse_colang_file` 1.0), the real CoYML->CIL
conversion (`parse_flow_elements`), the real `RuntimeV1_0._load_flow_config`
and the real `compute_next_steps` / `compute_next_state` / `slide` run it; the
driver plays the environment (echoes every decided event into the history,
answers `StartInternalSystemAction` with a scripted `ContextUpdate` +
`InternalSystemActionFinished`).

Oracle 1: a direct interpreter of the generator's AST decides, at every point at
which the history follows a flow, the same next step (and the same context
updates) as the runtime.  Obligations on a flow that the history leaves (foreign
intent while it waits on `user ...`) cease at the leave point; obligations on
the newly matched flow begin at its first statement.

Oracle 2 (history-functionality): the complete decision trace of a history is
the same on the first run, on a later run on the *same* flow_configs object
(after >=K other histories; `slide()` writes into the shared elements) and on a
freshly built object.  This oracle also covers the turns oracle 1 says nothing
about (after a leave, unknown intents, resumed flows).
"""
import hashlib
import random

PROPERTY = "C14"
LEVEL = "exploration"
RULE = (
    "case = (generated v1 program of 1-4 flows + 0-3 subflows over {user, bot, $v = expr, if/else if/else, counter-bounded "
    "while, break, continue, do subflow, execute with/without result variable}, all intents pairwise distinct, nesting <=2 "
    "quick / <=3 thorough; plan of K=11 histories, each a sequence of segments (start a flow by its leading intent, follow it, "
    "leave it at a chosen wait or run it to completion; a leave goes directly to another flow's leading intent, or first through an unknown intent or an intent another wait of the program is for) + scripted action results + an "
    "unconstrained tail; the last history of a plan is a random walk over the program's intents without obligations); every history is run on one shared flow_configs object, then all again in reverse order, then "
    "history 0 on a freshly built object; non-trivial = the program has a loop or a nested if AND at least one history had >=2 "
    "user turns whose decisions were compared with the reference; distinct = (program text, plans)"
)
MIN_HELD = {"quick": 1000, "thorough": 6000}
MAX_INCONCLUSIVE = 0.02
ASSUMPTIONS = [
    "oracle 1: recursive interpreter of the generator's AST (interp/ev, ~30 lines) with a global context, independent of simpleeval and of the compiled jump offsets",
    "oracle 2: equality of normalised decision traces (event dicts minus uid/timestamps) between first run, late run on the used object and a fresh object",
    "environment: every decided event is appended to the history in order; action results are a pure function of (action name, call index in the history); "
    "the ContextUpdate for a result key is only sent when the value changes (as RuntimeV1_0._process_start_action does)",
    "flow_configs are built like RuntimeV1_0._init_flow_configs does (real parser, real coyml conversion, real _load_flow_config called on a stub); "
    "every 8th case builds the fresh object through RailsConfig.from_content + RuntimeV1_0 instead",
    "a subflow that waits on a user intent has exactly one call site (two live instances of one subflow would be competing flows, outside the property)",
    "after a leave only flows that are not in progress are started (a flow in progress cannot be started a second time: allow_multiple is off)",
    "`pass` is not generated (v1 compiles it to `continue`); comments (semantic in v1: bot instructions) are generated but only compared by oracle 2",
]
SAMPLE_EVERY = 397
CASE_WALL_S = 60
K_HIST = 11
MAX_DECISIONS = 45  # per history (whole-history replay is quadratic)
MAX_TURN_CALLS = 70
CALL_BUDGET = 400000  # logical steps per compute_next_steps call
CMPS = ["<", "<=", ">", ">=", "==", "!="]


# --------------------------------------------------------------------------- generator
class Gen:
    def __init__(self, rng, depth):
        self.r = rng
        self.depth = depth
        self.n = {"b": 0, "i": 0, "act": 0, "c": 0, "note": 0}
        self.usubs_free = []  # subflows with user waits not yet referenced
        self.psubs = []  # subflows without user waits
        self.in_sub = False

    def tok(self, k):
        self.n[k] += 1
        return "%s%d" % (k, self.n[k])

    def arith(self, d=1):
        r = self.r.random()
        if d == 0 or r < 0.5:
            return ["lit", self.r.randint(0, 3)] if self.r.random() < 0.45 else ["var", self.r.choice("xyz")]
        return [self.r.choice("+-"), self.arith(d - 1), self.arith(d - 1)]

    def cond(self, d=1):
        r = self.r.random()
        if d > 0 and r < 0.22:
            return [self.r.choice(["and", "or"]), self.cond(d - 1), self.cond(d - 1)]
        if d > 0 and r < 0.32:
            return ["not", self.cond(d - 1)]
        if r < 0.40:
            # expressions that BEGIN and END with a quote character without being one string literal
            if self.r.random() < 0.5:
                return ["tq", [self.r.choice(CMPS), self.arith(1), self.arith(1)]]  # "y" if <cmp> else ""
            return ["sv", self.r.choice(["T", "F"]), self.r.choice(["T", "F"])]  # "T" == $s or $s == "F"
        return [self.r.choice(CMPS), self.arith(1), self.arith(1)]

    def bot(self):
        s = ["bot", self.tok("b")]
        if self.r.random() < 0.12:
            s.append(self.tok("note"))
        return s

    def block(self, d, loop, user, lo=1, hi=4):
        out = []
        r = self.r
        for _ in range(r.randint(lo, hi)):
            p = r.random()
            if p < 0.27:
                out.append(self.bot())
            elif p < 0.37:
                out.append(["set", r.choice("xyz"), self.arith(1)])
            elif p < 0.41:
                # a string-valued assignment whose right-hand side begins and ends with a quote: $s = "T" if <cmp> else "F"
                out.append(["set", "s", ["ts", [r.choice(CMPS), self.arith(1), self.arith(1)]]])
            elif p < 0.56 and d > 0:
                arms = [[self.cond(1), self.block(d - 1, loop, user, 1, 3)] for _ in range(r.choice([1, 1, 1, 2, 3]))]
                els = self.block(d - 1, loop, user, 1, 3) if r.random() < 0.55 else None
                out.append(["if", arms, els])
            elif p < 0.67 and d > 0:
                c = self.tok("c")
                cnd = ["<", ["var", c], ["lit", r.randint(0, 3)]]
                if r.random() < 0.3:
                    cnd = ["and", cnd, self.cond(0)]
                body = [["set", c, ["+", ["var", c], ["lit", 1]]]] + self.block(d - 1, True, user, 1, 3)
                out.append(["set", c, ["lit", 0]])
                out.append(["while", cnd, body])
            elif p < 0.78:
                out.append(["exec", self.tok("act"), r.choice(["x", "y", "z", "z", None]), r.random() < 0.15])
            elif p < 0.86 and user:
                out.append(["user", self.tok("i")])
            elif p < 0.93 and (self.psubs or (self.usubs_free and not self.in_sub and user)):
                if self.usubs_free and not self.in_sub and user and (not self.psubs or r.random() < 0.5):
                    out.append(["do", self.usubs_free.pop()])
                else:
                    out.append(["do", r.choice(self.psubs)])
            elif loop and p < 0.985:
                out.append([r.choice(["break", "continue"])])
                if r.random() < 0.8:
                    break  # usually nothing after it in the block; sometimes dead code
            else:
                out.append(self.bot())
        return out


def gen_program(rng, depth):
    g = Gen(rng, depth)
    subs = {}
    names = ["sa", "sb", "sc"]
    g.in_sub = True
    for k in range(rng.choice([0, 1, 1, 2, 2, 3])):
        with_user = rng.random() < 0.4
        body = g.block(min(depth, 2) - 1 if depth > 1 else 1, False, with_user, 1, 3)
        if with_user and not _has(body, "user"):
            body.append(["user", g.tok("i")])
            body.append(g.bot())
        subs[names[k]] = body
        (g.usubs_free if _has(body, "user") else g.psubs).append(names[k])
    g.in_sub = False
    flows = []
    for j in range(rng.choice([1, 2, 2, 3, 3, 4])):
        lead = g.tok("i")
        init = [["set", v, ["lit", rng.randint(0, 3)]] for v in "xyz"] + [["set", "s", ["str", rng.choice(["T", "F"])]]]
        body = init + g.block(depth, False, True, 1, 4)
        if rng.random() < 0.5:
            body.append(["user", g.tok("i")])
            body += g.block(max(depth - 1, 0), False, True, 1, 2)
        if not any(s[0] in ("bot", "exec", "user") for s in body) and rng.random() < 0.85:
            body.append(g.bot())  # a flow that ends on its starting event is a known finding; keep it rare
        flows.append({"name": "f" + "abcd"[j], "lead": lead, "body": body})
    # subflows nobody calls are legal, keep them
    return {"flows": flows, "subs": subs}


def _has(stmts, kind):
    for s in stmts:
        if s[0] == kind:
            return True
        if s[0] == "if" and (any(_has(b, kind) for _, b in s[1]) or (s[2] and _has(s[2], kind))):
            return True
        if s[0] == "while" and _has(s[2], kind):
            return True
    return False


def _nesting(stmts):
    m = 0
    for s in stmts:
        if s[0] == "if":
            m = max(m, 1 + max([_nesting(b) for _, b in s[1]] + [_nesting(s[2] or [])]))
        elif s[0] == "while":
            m = max(m, 1 + _nesting(s[2]))
    return m


def _count(stmts, pred):
    n = 0
    for s in stmts:
        n += 1 if pred(s) else 0
        if s[0] == "if":
            n += sum(_count(b, pred) for _, b in s[1]) + _count(s[2] or [], pred)
        elif s[0] == "while":
            n += _count(s[2], pred)
    return n


def _all_bodies(P):
    return [f["body"] for f in P["flows"]] + list(P["subs"].values())


# --------------------------------------------------------------------------- rendering
def rx(e, top=True):
    k = e[0]
    if k == "lit":
        return str(e[1])
    if k == "var":
        return "$" + e[1]
    if k == "str":
        return '"%s"' % e[1]
    if k == "tq":
        s = '"y" if %s else ""' % rx(e[1], False)
    elif k == "ts":
        s = '"T" if %s else "F"' % rx(e[1], False)
    elif k == "sv":
        s = '"%s" == $s or $s == "%s"' % (e[1], e[2])
    elif k == "not":
        s = "not " + rx(e[1], False)
    else:
        s = "%s %s %s" % (rx(e[1], False), k, rx(e[2], False))
    return s if top else "(" + s + ")"


def render_block(stmts, ind, out):
    p = "  " * ind
    for s in stmts:
        k = s[0]
        if k == "bot":
            if len(s) > 2:
                out.append(p + "# " + s[2])
            out.append(p + "bot " + s[1])
        elif k == "user":
            out.append(p + "user " + s[1])
        elif k == "set":
            out.append(p + "$%s = %s" % (s[1], rx(s[2])))
        elif k == "exec":
            call = "execute " + s[1] + ("(p=1)" if s[3] else "")
            out.append(p + ("$%s = %s" % (s[2], call) if s[2] else call))
        elif k == "do":
            out.append(p + "do " + s[1])
        elif k in ("break", "continue"):
            out.append(p + k)
        elif k == "if":
            for n, (c, b) in enumerate(s[1]):
                out.append(p + ("if " if n == 0 else "else if ") + rx(c))
                render_block(b, ind + 1, out)
            if s[2]:
                out.append(p + "else")
                render_block(s[2], ind + 1, out)
        elif k == "while":
            out.append(p + "while " + rx(s[1]))
            render_block(s[2], ind + 1, out)
        else:
            raise ValueError(k)


def render(P):
    out = []
    for f in P["flows"]:
        out.append("define flow " + f["name"])
        out.append("  user " + f["lead"])
        render_block(f["body"], 1, out)
        out.append("")
    for name, body in P["subs"].items():
        out.append("define subflow " + name)
        render_block(body, 1, out)
        out.append("")
    return "\n".join(out)


# --------------------------------------------------------------------------- oracle 1: reference interpreter
def ev(e, ctx):
    k = e[0]
    if k == "lit":
        return e[1]
    if k == "var":
        return ctx[e[1]]
    if k == "str":
        return e[1]
    if k == "tq":
        return "y" if ev(e[1], ctx) else ""
    if k == "ts":
        return "T" if ev(e[1], ctx) else "F"
    if k == "sv":
        return e[1] == ctx["s"] or ctx["s"] == e[2]
    if k == "not":
        return not ev(e[1], ctx)
    if k == "and":
        return ev(e[1], ctx) and ev(e[2], ctx)
    if k == "or":
        return ev(e[1], ctx) or ev(e[2], ctx)
    a, b = ev(e[1], ctx), ev(e[2], ctx)
    return {"+": a + b, "-": a - b, "<": a < b, "<=": a <= b, ">": a > b, ">=": a >= b, "==": a == b, "!=": a != b}[k]


def interp(stmts, ctx, subs, upd, cov):
    """Generator: yields ("bot", name) / ("exec", name, key) (send back the result) / ("wait", intent);
    returns None | "break" | "continue"."""
    for s in stmts:
        k = s[0]
        if k == "bot":
            yield ("bot", s[1])
        elif k == "user":
            yield ("wait", s[1])
        elif k == "exec":
            rv = yield ("exec", s[1], s[2])
            if s[2]:
                ctx[s[2]] = rv
        elif k == "set":
            ctx[s[1]] = upd[s[1]] = ev(s[2], ctx)
        elif k == "if":
            body = next((b for c, b in s[1] if ev(c, ctx)), s[2] or [])
            sig = yield from interp(body, ctx, subs, upd, cov)
            if sig:
                return sig
        elif k == "while":
            while ev(s[1], ctx):
                cov["iters"] += 1
                if cov["iters"] > 5000:
                    raise RuntimeError("reference interpreter: loop bound")
                sig = yield from interp(s[2], ctx, subs, upd, cov)
                if sig:
                    cov[sig] += 1
                if sig == "break":
                    break
        elif k == "do":
            cov["calls"] += 1
            yield from interp(subs[s[1]], ctx, subs, upd, cov)
        else:  # break / continue
            return k


def ref_turns(P, plan, cov):
    """The history the plan describes and, per user turn, the decisions the property demands
    (None = no obligation)."""
    ctx, calls, turns, inprog, total = {}, {}, [], set(), 0
    vals = plan["vals"]
    nz = 0
    mids = []
    for body in _all_bodies(P):
        _collect(body, "user", mids)
    for fi, leave_at, via, pick in plan["segs"]:
        if fi >= len(P["flows"]) or fi in inprog:
            break
        F = P["flows"][fi]
        upd = {}
        g = interp(F["body"], ctx, P["subs"], upd, cov)
        turn = {"intent": F["lead"], "expect": [], "after_leave": bool(inprog)}
        first = turn
        turns.append(turn)
        waits, send, left = 0, None, False
        while True:
            try:
                item = g.send(send)
            except StopIteration:
                break
            send = None
            if item[0] == "wait":
                if upd:
                    turn["expect"].append([dict(upd), None])
                    upd.clear()
                if leave_at is not None and waits == leave_at:
                    left = True
                    break
                waits += 1
                turn = {"intent": item[1], "expect": [], "after_leave": bool(inprog)}
                turns.append(turn)
            else:
                turn["expect"].append([dict(upd), list(item)])
                upd.clear()
                total += 1
                if item[0] == "exec":
                    n = calls.get(item[1], 0)
                    calls[item[1]] = n + 1
                    send = vals[item[1]][n % len(vals[item[1]])]
                if total >= MAX_DECISIONS:
                    turn["prefix"] = True
                    return turns
        if left:
            inprog.add(fi)
            cov["leaves"] += 1
            if via:  # leave with an intent no flow starts with: unknown, or one some flow waits for further down / has been left at
                nz += 1
                cov["leaves_unknown"] += 1
                cands = [m for m in mids if m != item[1]]
                turns.append({"intent": cands[pick % len(cands)] if via == 2 and cands else "zz%d" % nz, "expect": None})
        else:
            if upd:
                turn["expect"].append([dict(upd), None])
            if waits == 0 and not any(d[1] for d in first["expect"]):
                first["ends_on_start"] = True  # the flow ran to its end while processing its leading intent
    for t in plan["tail"]:
        turns.append({"intent": t, "expect": None})
    return turns


def gen_plan(rng, P, chaos=False):
    nf = len(P["flows"])
    acts = []
    for body in _all_bodies(P):
        _collect(body, "exec", acts)
    intents = []
    for body in _all_bodies(P):
        _collect(body, "user", intents)
    intents += [f["lead"] for f in P["flows"]]
    segs = []
    for _ in range(rng.choice([1, 2, 2, 3, 4])):
        segs.append([rng.randrange(nf), rng.choice([None, None, None, 0, 0, 1, 1, 2, 3]), rng.choice([0, 0, 0, 0, 1, 1, 2]), rng.randrange(64)])
    tail = [rng.choice(intents + ["zz9"]) for _ in range(rng.choice([0, 0, 1, 2, 3]))]
    if chaos:  # no obligations at all: only history-functionality is checked
        segs, tail = [], [rng.choice(intents + ["zz9"]) for _ in range(rng.randint(3, 7))]
    vals = {a: [rng.randint(0, 3) for _ in range(rng.randint(1, 3))] for a in acts}
    return {"segs": segs, "tail": tail, "vals": vals}


def _collect(stmts, kind, out):
    for s in stmts:
        if s[0] == kind:
            out.append(s[1])
        elif s[0] == "if":
            for _, b in s[1]:
                _collect(b, kind, out)
            _collect(s[2] or [], kind, out)
        elif s[0] == "while":
            _collect(s[2], kind, out)


# --------------------------------------------------------------------------- worker side
_L = {}
_jumps = {"n": 0, "budget": None}


def setup_worker():
    import sys

    from nemoguardrails import RailsConfig
    from nemoguardrails.colang import parse_colang_file
    from nemoguardrails.colang.v1_0.lang import coyml_parser
    from nemoguardrails.colang.v1_0.runtime import eval as v1eval
    from nemoguardrails.colang.v1_0.runtime import flows, sliding
    from nemoguardrails.colang.v1_0.runtime.runtime import RuntimeV1_0
    from nemoguardrails.utils import new_event_dict

    from . import steps

    for mod, names in (
        (flows, ("compute_next_steps", "compute_next_state", "slide", "_slide_with_subflows", "_call_subflow", "FlowConfig")),
        (sliding, ("slide",)),
        (coyml_parser, ("parse_flow_elements", "_extract_elements")),
    ):
        for nm in names:
            if not hasattr(mod, nm):
                raise RuntimeError("%s.%s no longer exists" % (mod.__name__, nm))
    if not hasattr(RuntimeV1_0, "_load_flow_config"):
        raise RuntimeError("RuntimeV1_0._load_flow_config no longer exists")
    if flows.slide is not sliding.slide:
        raise RuntimeError("flows.slide is not sliding.slide")
    n = steps.install([flows, sliding, v1eval])
    if n < 10:
        raise RuntimeError("step counter instrumented only %d code objects" % n)
    # back-edges of the `while True` in slide(): a cycle of jump elements makes no call at all
    mon = sys.monitoring
    mon.use_tool_id(4, "vp-c14-jumps")

    def on_jump(code, src, dst):
        _jumps["n"] += 1
        b = _jumps["budget"]
        if b is not None and _jumps["n"] > b:
            _jumps["budget"] = None
            raise steps.StepBudgetExceeded("slide() jump budget %d exceeded" % b)

    mon.register_callback(4, mon.events.JUMP, on_jump)
    mon.set_local_events(4, sliding.slide.__code__, mon.events.JUMP)
    _L.update(
        cns=flows.compute_next_steps,
        parse=parse_colang_file,
        RT=RuntimeV1_0,
        RailsConfig=RailsConfig,
        ned=new_event_dict,
        steps=steps,
        cfg=RailsConfig.from_content("", "models: []\n"),
    )


class _Stub:
    pass


def build(src):
    s = _Stub()
    s.flow_configs = {}
    for f in _L["parse"]("main.co", src, version="1.0")["flows"]:
        _L["RT"]._load_flow_config(s, f)
    return s.flow_configs, _L["cfg"]


def build_full(src):
    cfg = _L["RailsConfig"].from_content(src, "models: []\n")
    rt = _L["RT"](cfg)
    return rt.flow_configs, cfg


_VOLATILE = ("uid", "event_created_at", "source_uid", "action_uid")


def _norm(steps_):
    upd, step, full = {}, None, []
    for s in steps_:
        full.append({k: v for k, v in s.items() if k not in _VOLATILE})
        if s["type"] == "ContextUpdate":
            upd.update(s["data"])
        elif s["type"] == "BotIntent" and step is None:
            step = ["bot", s["intent"]]
        elif s["type"] == "StartInternalSystemAction" and step is None:
            step = ["exec", s["action_name"], s["action_result_key"]]
        else:
            step = ["other", s["type"]]
    return [upd, step], full


def drive(fc, cfg, turns, vals, stat):
    """Play the environment. Returns per turn a list of decisions [o1, o2]; a decision may also be
    the marker ["MORE"], ["NONTERM", msg] or ["EXC", text] (the history stops after the last two)."""
    cns, ned, steps = _L["cns"], _L["ned"], _L["steps"]
    hist, dctx, calls, out = [], {}, {}, []
    for t in turns:
        hist.append(ned("UserIntent", intent=t["intent"]))
        exp = t["expect"]
        limit = MAX_TURN_CALLS if exp is None else (len(exp) if t.get("prefix") else len(exp) + 3)
        dec = []
        out.append(dec)
        n = 0
        while True:
            steps.start(CALL_BUDGET)
            _jumps["n"], _jumps["budget"] = 0, CALL_BUDGET
            try:
                res = cns(hist, fc, cfg, [])
            except steps.StepBudgetExceeded as e:
                dec.append(["NONTERM", str(e)])
                return out
            except Exception as e:  # an observation, judged by the caller
                dec.append(["EXC", "%s: %s" % (type(e).__name__, str(e)[:160])])
                return out
            finally:
                _jumps["budget"] = None
                stat["max_call_steps"] = max(stat["max_call_steps"], steps.stop())
            stat["calls"] += 1
            if not res:
                break
            if n >= limit:
                if not t.get("prefix"):
                    dec.append(["MORE"])
                return out
            n += 1
            dec.append(list(_norm(res)))
            for s in res:
                hist.append(s)
                if s["type"] == "ContextUpdate":
                    dctx.update(s["data"])
                elif s["type"] == "StartInternalSystemAction":
                    name, key = s["action_name"], s["action_result_key"]
                    k = calls.get(name, 0)
                    calls[name] = k + 1
                    seq = vals.get(name) or [0]
                    rv = seq[k % len(seq)]
                    if key and (key not in dctx or dctx[key] != rv):
                        hist.append(ned("ContextUpdate", data={key: rv}))
                        dctx[key] = rv
                    hist.append(
                        ned(
                            "InternalSystemActionFinished",
                            action_uid=s["action_uid"],
                            action_name=name,
                            action_params=s["action_params"],
                            action_result_key=key,
                            status="success",
                            is_success=True,
                            failure_reason="success",
                            return_value=rv,
                            events=[],
                            is_system_action=False,
                        )
                    )
        stat["max_history_len"] = max(stat["max_history_len"], len(hist))
    return out


def _o1(dec):
    return [d[0] if len(d) == 2 and isinstance(d[0], list) else d for d in dec]


def _check_o1(turns, trace):
    """-> (None, compared_decisions, compared_turns) or (mismatch dict, ..)"""
    nd = nt = 0
    for ti, t in enumerate(turns):
        if ti >= len(trace):
            if t["expect"] is None:
                continue
            return {"turn": ti, "intent": t["intent"], "expected": t["expect"], "got": "history stopped earlier"}, nd, nt
        got = _o1(trace[ti])
        if t["expect"] is None:
            continue
        nt += 1
        nd += len(t["expect"])
        if got != t["expect"]:
            idx = next((i for i, (a, b) in enumerate(zip(got, t["expect"])) if a != b), min(len(got), len(t["expect"])))
            return (
                {
                    "turn": ti,
                    "intent": t["intent"],
                    "decision_index": idx,
                    "expected": t["expect"],
                    "got": got,
                    "expected_at": t["expect"][idx] if idx < len(t["expect"]) else "nothing more (wait / end of flow)",
                    "got_at": got[idx] if idx < len(got) else "nothing more",
                },
                nd,
                nt,
            )
    return None, nd, nt


def _shape(P):
    bodies = _all_bodies(P)
    return {
        "flows": len(P["flows"]),
        "subflows": len(P["subs"]),
        "nesting": max(_nesting(b) for b in bodies),
        "loops": sum(_count(b, lambda s: s[0] == "while") for b in bodies),
        "nested_if": any(_count(b, lambda s: s[0] == "if" and (_nesting([s]) >= 2)) for b in bodies),
        "else_if": sum(_count(b, lambda s: s[0] == "if" and len(s[1]) > 1) for b in bodies),
        "else": sum(_count(b, lambda s: s[0] == "if" and bool(s[2])) for b in bodies),
        "break_continue": sum(_count(b, lambda s: s[0] in ("break", "continue")) for b in bodies),
        "do": sum(_count(b, lambda s: s[0] == "do") for b in bodies),
        "exec": sum(_count(b, lambda s: s[0] == "exec") for b in bodies),
        "user_in_sub": any(_has(b, "user") for b in P["subs"].values()),
        "user_in_loop": any(_count(b, lambda s: s[0] == "while" and _has(s[2], "user")) for b in bodies),
    }


def _features(P, turns, ti):
    """Structural facts about where a mismatch happened (for the classifier)."""
    t = turns[ti] if ti < len(turns) else None
    lead = {f["lead"]: f for f in P["flows"]}
    f = {"turn_is_flow_start": bool(t and t["intent"] in lead)}
    if t and t["intent"] in lead:
        body = lead[t["intent"]]["body"]
        f["flow_has_actionable"] = _count(body, lambda s: s[0] in ("bot", "exec", "do")) > 0
        f["started_before"] = any(x["intent"] == t["intent"] for x in turns[:ti])
    f["after_leave"] = bool(t and t.get("after_leave"))
    f["flow_ended_on_start_before"] = any(x.get("ends_on_start") for x in turns[:ti])
    return f


def run_case(case):
    if case.get("fam") == "errretry":
        return run_errretry(case)
    if not _L:
        setup_worker()
    P = gen_program(random.Random("p%d" % case["pseed"]), case["depth"])
    src = render(P)
    shape = _shape(P)
    K = case.get("k", K_HIST)
    plans = [gen_plan(random.Random("h%d.%d" % (case["pseed"], j)), P, chaos=(j == K - 1)) for j in range(K)]
    covs = [{"iters": 0, "break": 0, "continue": 0, "calls": 0, "leaves": 0, "leaves_unknown": 0} for _ in plans]
    refs = [ref_turns(P, pl, cv) for pl, cv in zip(plans, covs)]
    key = hashlib.sha1((src + repr(plans)).encode()).hexdigest()
    stat = {"calls": 0, "max_call_steps": 0, "max_history_len": 0}
    obs = {
        "steps_compared": 0,
        "turns_compared": 0,
        "histories_run": 0,
        "leaves": 0,
        "leaves_via_unknown_intent": 0,
        "repeated_instance_comparisons": 0,
        "repeated_instance_comparisons_after_20": 0,
        "fresh_instance_comparisons": 0,
        "fresh_via_RailsConfig_RuntimeV1_0": 0,
        "ref_loop_iterations": 0,
        "ref_breaks_taken": 0,
        "ref_continues_taken": 0,
        "ref_subflow_calls": 0,
        "unchecked_turn_exceptions": 0,
        "programs_with_loop": int(shape["loops"] > 0),
        "programs_with_else_if": int(shape["else_if"] > 0),
        "programs_with_break_continue": int(shape["break_continue"] > 0),
        "programs_with_user_in_subflow": int(shape["user_in_sub"]),
        "programs_with_user_in_loop": int(shape["user_in_loop"]),
        "max_nesting": shape["nesting"],
    }
    sample = {"program": src, "history_0": [[t["intent"], t["expect"]] for t in refs[0]], "action_results": plans[0]["vals"]}
    base = {"key": key, "nontrivial": False, "sample": sample, "shape": shape}

    def fin(verdict, **kw):
        obs["compute_next_steps_calls"] = stat["calls"]
        obs["max_call_steps"] = stat["max_call_steps"]
        obs["max_history_len"] = stat["max_history_len"]
        return dict(base, verdict=verdict, observed=obs, **kw)

    def witness(j, what, detail, **kw):
        return dict(
            {
                "oracle": what,
                "program": src,
                "history_index": j,
                "user_intents": [t["intent"] for t in refs[j]],
                "action_results": plans[j]["vals"],
                "plan": plans[j],
                "detail": detail,
            },
            **kw
        )

    try:
        used, cfg = build(src)
    except Exception as e:
        return fin("inconclusive", reason="loader-reject", detail="%s: %s" % (type(e).__name__, str(e)[:200]))

    multi_turn_checked = False
    T1 = []
    for j in range(K):
        tr = drive(used, cfg, refs[j], plans[j]["vals"], stat)
        obs["histories_run"] += 1
        for a, b in (
            ("leaves", "leaves"),
            ("leaves_via_unknown_intent", "leaves_unknown"),
            ("ref_loop_iterations", "iters"),
            ("ref_breaks_taken", "break"),
            ("ref_continues_taken", "continue"),
            ("ref_subflow_calls", "calls"),
        ):
            obs[a] += covs[j][b]  # of the histories actually run and compared (first pass)
        T1.append(tr)
        bad, nd, nt = _check_o1(refs[j], tr)
        obs["steps_compared"] += nd
        obs["turns_compared"] += nt
        if nt >= 2:
            multi_turn_checked = True
        last = tr[-1][-1] if tr and tr[-1] else None
        if bad is None and last and last[0] == "NONTERM":
            bad = {"turn": len(tr) - 1, "got": last, "expected": "a terminating decision (every generated loop is bounded)"}
        if bad is None and last and last[0] == "EXC":
            obs["unchecked_turn_exceptions"] += 1
        if bad is not None:
            feats = _features(P, refs[j], bad["turn"])
            got = bad.get("got_at", bad.get("got"))
            kind = "mismatch"
            if isinstance(got, list) and got and got[0] in ("NONTERM", "EXC", "MORE"):
                kind = got[0] if got[0] != "EXC" else "EXC:" + str(got[1]).split(":")[0]
            return fin(
                "violated",
                nontrivial=True,
                mismatch_kind=kind,
                features=feats,
                prior_histories=j,
                witness=witness(j, "reference-interpreter", bad, features=feats, histories_run_before_on_same_object=j),
            )
    # oracle 2: the same histories again on the used object, in reverse order
    done = K
    for j in reversed(range(K)):
        tr = drive(used, cfg, refs[j], plans[j]["vals"], stat)
        obs["histories_run"] += 1
        obs["repeated_instance_comparisons"] += 1
        if done - 1 >= 20:  # histories run on this object since this one was first run there, itself excluded
            obs["repeated_instance_comparisons_after_20"] += 1
        if tr != T1[j]:
            ti = next((i for i, (a, b) in enumerate(zip(tr, T1[j])) if a != b), min(len(tr), len(T1[j])))
            return fin(
                "violated",
                nontrivial=True,
                mismatch_kind="history-dependent",
                features={},
                witness=witness(
                    j,
                    "same history, same flow_configs object, later call",
                    {"turn": ti, "first_run": T1[j][ti] if ti < len(T1[j]) else None, "later_run": tr[ti] if ti < len(tr) else None},
                    histories_run_before_first=j,
                    histories_run_before_later=done,
                ),
            )
        done += 1
    # a freshly built object
    try:
        if case.get("full"):
            fresh, fcfg = build_full(src)
            obs["fresh_via_RailsConfig_RuntimeV1_0"] = 1
        else:
            fresh, fcfg = build(src)
    except Exception as e:
        return fin("inconclusive", reason="loader-reject-second-build", detail="%s: %s" % (type(e).__name__, str(e)[:200]))
    for j in (0, K - 1):
        tr = drive(fresh, fcfg, refs[j], plans[j]["vals"], stat)
        obs["histories_run"] += 1
        obs["fresh_instance_comparisons"] += 1
        if tr != T1[j]:
            ti = next((i for i, (a, b) in enumerate(zip(tr, T1[j])) if a != b), min(len(tr), len(T1[j])))
            return fin(
                "violated",
                nontrivial=True,
                mismatch_kind="used-vs-fresh",
                features={"fresh_full_path": bool(case.get("full"))},
                witness=witness(
                    j,
                    "same history on the used object and on a freshly built one",
                    {"turn": ti, "used": T1[j][ti] if ti < len(T1[j]) else None, "fresh": tr[ti] if ti < len(tr) else None},
                    fresh_built_via="RailsConfig.from_content+RuntimeV1_0" if case.get("full") else "parse_colang_file+_load_flow_config",
                ),
            )
    if obs["steps_compared"] == 0:
        return fin("inconclusive", reason="monitor-not-reached")
    return fin("held", nontrivial=bool((shape["loops"] or shape["nested_if"]) and multi_turn_checked))



# ----------------------------------------------------------------------------- "the decision is a function of the history alone",
# through the RUNTIME OBJECT and across a failed call: a call whose decision computation raises (a condition over a
# variable nobody set) must not influence the decisions of later calls on the same RuntimeV1_0 instance.
def _errretry_program(rng):
    pre = []
    kinds = rng.sample(["selfset", "sub", "plainset", "exec"], rng.randint(0, 3))
    for k in kinds:
        if k == "selfset":
            pre.append("  $attempts = $attempts + 1")
        elif k == "sub":
            pre.append("  do sub a")
        elif k == "plainset":
            pre.append("  $mark = %d" % rng.randint(1, 9))
        else:
            pre.append("  $r = execute act a")
    thr = rng.choice([10, 100])
    tail = rng.choice(["", "  user i three\n  bot b three\n", "  $attempts = $attempts + 10\n  bot b tail\n"])
    src = (
        "define flow f main\n  user i one\n  bot b one\n  user i two\n" + "".join(l + "\n" for l in pre)
        + "  if $points > %d\n    bot b hi\n  else\n    bot b lo\n" % thr + tail
        + "\ndefine subflow sub a\n  $s = $s + 1\n  if $s > 1\n    bot b sub twice\n  else\n    bot b sub once\n"
    )
    return src, kinds, thr


def _play_rt(rt, script, hist=None, evmap=None):
    """Plays `script` (("ctx", dict) | ("user", intent, key)) against rt._compute_next_steps, answering actions.
    Event objects of script items are kept in `evmap` so that a later script can reuse the very same objects.
    Returns (per-call normalised decisions, raised text or None, hist)."""
    import asyncio

    ned, steps = _L["ned"], _L["steps"]
    hist = [] if hist is None else hist
    evmap = {} if evmap is None else evmap
    out = []
    for item in script:
        if item[0] == "ctx":
            ev = evmap.setdefault(item[2], ned("ContextUpdate", data=dict(item[1])))
            hist.append(ev)
            continue
        ev = evmap.setdefault(item[2], ned("UserIntent", intent=item[1]))
        hist.append(ev)
        for _ in range(12):
            steps.start(CALL_BUDGET)
            try:
                res = asyncio.run(rt._compute_next_steps(hist, []))
            except steps.StepBudgetExceeded as e:
                return out, "NONTERM " + str(e), hist
            except Exception as e:
                return out, "%s: %s" % (type(e).__name__, str(e)[:120]), hist
            finally:
                steps.stop()
            if not res:
                break
            out.append(_norm(res)[1])
            for s_ in res:
                hist.append(s_)
                if s_["type"] == "StartInternalSystemAction":
                    hist.append(ned("ContextUpdate", data={s_["action_result_key"]: 7}) if s_.get("action_result_key") else ned("ContextUpdate", data={}))
                    hist.append(ned("InternalSystemActionFinished", action_uid=s_["action_uid"], action_name=s_["action_name"], action_params=s_["action_params"],
                                    action_result_key=s_.get("action_result_key"), status="success", is_success=True, failure_reason="success", return_value=7, events=[], is_system_action=False))
    return out, None, hist


def run_errretry(case):
    if not _L:
        setup_worker()
    rng = random.Random("e%d" % case["pseed"])
    src, kinds, thr = _errretry_program(rng)
    pts = rng.choice([thr + 50, thr - 5])
    key = hashlib.sha1((src + repr(pts)).encode()).hexdigest()
    base = {"key": key, "nontrivial": bool(kinds), "sample": {"program": src, "points": pts}, "fam": "errretry"}
    obs = {"errretry_cases": 1, "failed_calls_observed": 0, "retry_decisions_compared": 0}

    def mk():
        cfg = _L["RailsConfig"].from_content(src, "models: []\n")
        return _L["RT"](cfg)

    try:
        used = mk()
    except Exception as e:
        return dict(base, verdict="inconclusive", reason="loader-reject", detail=str(e)[:300])
    init = ("ctx", {"attempts": 0, "s": 0}, "c0")
    evmap = {}
    # 1. the conversation up to the failing call ($points was never set)
    t1, raised, hist = _play_rt(used, [init, ("user", "i one", "u1"), ("user", "i two", "u2")], evmap=evmap)
    if raised is None:
        return dict(base, verdict="inconclusive", reason="expected:error-not-triggered", observed=obs)
    obs["failed_calls_observed"] = 1
    # 2. the caller repairs the context and retries: the history is the old one (the very same event objects) with a
    #    ContextUpdate inserted in front of the last user intent
    cut = hist.index(evmap["u2"])
    retry_hist = hist[:cut]
    script2 = [("ctx", {"points": pts}, "c1"), ("user", "i two", "u2"), ("user", "i three", "u3")]
    t_used, raised_u, _ = _play_rt(used, script2, hist=retry_hist, evmap=evmap)
    # 3. a fresh runtime is given only the repaired history
    fresh = mk()
    t_fresh, raised_f, _ = _play_rt(fresh, [init, ("user", "i one", "u1")] + script2)
    # 4. and the used runtime once more, with new event objects
    t_again, raised_a, _ = _play_rt(used, [init, ("user", "i one", "u1")] + script2)
    obs["retry_decisions_compared"] = len(t_fresh)
    exp = t_fresh
    # the fresh run also replays the first turn (`bot b one`), which the used runtime decided in step 1
    got_used = t1[:1] + t_used
    problems = []
    if raised_f is not None:
        return dict(base, verdict="inconclusive", reason="fresh-run-raised", detail=raised_f, observed=obs)
    if raised_u is not None or got_used != exp:
        problems.append({"what": "retry on the used runtime differs from the same history on a fresh runtime", "used": got_used, "fresh": exp, "raised": raised_u})
    if raised_a is not None or t_again != exp:
        problems.append({"what": "same history replayed on the used runtime differs from a fresh runtime", "used": t_again, "fresh": exp, "raised": raised_a})
    if problems:
        return dict(base, verdict="violated", mismatch_kind="history-dependent", observed=obs, features={"after_failed_call": True},
                    witness={"program": src, "points_supplied_on_retry": pts, "failed_call": raised, "problems": problems})
    return dict(base, verdict="held", observed=obs)


def classify(r):
    kind = r.get("mismatch_kind", "mismatch")
    f = r.get("features") or {}
    if kind in ("history-dependent", "used-vs-fresh"):
        return kind
    if kind == "NONTERM":
        return "runtime-nonterminating"
    if kind.startswith("EXC:"):
        return "exception:" + kind[4:]
    if f.get("flow_ended_on_start_before"):
        return "flow-finished-on-start-stays-active"
    return "decision-differs-from-reference" + (":after-leave" if f.get("after_leave") else "")


def cases(tier, seed):
    n = 2400 if tier == "quick" else 12000
    depths = [1, 2, 2, 2] if tier == "quick" else [1, 2, 2, 3, 3, 3]
    for i in range(n):
        yield {
            "id": i + 1,
            "pseed": seed * 10000000 + (0 if tier == "quick" else 5000000) + i,
            "depth": depths[i % len(depths)],
            "k": K_HIST,
            "full": i % 8 == 0,
        }
    m = 300 if tier == "quick" else 3000
    for i in range(m):
        yield {"id": n + i + 1, "fam": "errretry", "pseed": seed * 10000000 + i}
