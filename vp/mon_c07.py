"""C07 — and/or groups behave like the boolean formula they spell.

Differential monitor: the real parser/expander/interpreter runs `match|await|when
<group>` followed by a marker `send Done()`; the oracle evaluates the formula on
the set of events received so far after every event. The marker must appear at
exactly the first step at which the formula is true.
"""
import itertools
import random
import zlib

PROPERTY = "C07"
LEVEL = "exploration"
RULE = (
    "case = (statement kind in {match, await, when, match-finished}, and/or tree over distinct leaves, "
    "ordered subset of the leaves as event sequence, mode in {plain, noisy (irrelevant and repeated events), dups, aged (>5 s virtual idle time before every event), loop (statement inside `while True`, event sequences with repeats; every completion index compared)}); quick enumerates ALL trees with <=4 leaves x ALL ordered "
    "subsets (thorough: <=5 leaves, sampled 6-7); non-trivial = formula has both an `and` and an `or`, or >=3 leaves, "
    "and the marker's first-true index was actually compared; distinct = (kind, tree, sequence, mode)"
)
MIN_HELD = {"quick": 5000, "thorough": 50000}
EXHAUSTIVE = {"quick": True, "thorough": False}
ASSUMPTIONS = [
    "oracle: 6-line recursive evaluation of the and/or tree over the received set",
    "events are parameterless and pairwise distinct; flows fi are `match Ei()`",
    "tie-breaks (random.choice) are seeded per case; the formula semantics must not depend on them",
]
SAMPLE_EVERY = 1499
KINDS = ("match", "await", "when", "matchfin")


def trees(leaves):
    if len(leaves) == 1:
        yield leaves[0]
        return
    for i in range(1, len(leaves)):
        for l in trees(leaves[:i]):
            for r in trees(leaves[i:]):
                for op in ("and", "or"):
                    yield [op, l, r]


def render(t, leaf):
    if isinstance(t, str):
        return leaf(t)
    return "(" + render(t[1], leaf) + " " + t[0] + " " + render(t[2], leaf) + ")"


def evaluate(t, S):
    if isinstance(t, str):
        return t in S
    a, b = evaluate(t[1], S), evaluate(t[2], S)
    return (a and b) if t[0] == "and" else (a or b)


def dnf(t):
    if isinstance(t, str):
        return [[t]]
    a, b = dnf(t[1]), dnf(t[2])
    return a + b if t[0] == "or" else [x + y for x in a for y in b]


def ops(t):
    if isinstance(t, str):
        return set()
    return {t[0]} | ops(t[1]) | ops(t[2])


def leaves_of(t):
    if isinstance(t, str):
        return [t]
    return leaves_of(t[1]) + leaves_of(t[2])


def loop_program(t, kind):
    """the group statement inside `while True`: every completion re-activates it"""
    leaves = leaves_of(t)
    fname = lambda x: "f" + x.lower().replace("e", "x")  # noqa: E731
    flows = "".join("flow %s\n  match %s()\n\n" % (fname(x), x) for x in leaves)
    if kind == "match":
        return "flow main\n  while True\n    match %s\n    send Done()\n" % render(t, lambda x: x + "()")
    if kind == "await":
        return "flow main\n  while True\n    await %s\n    send Done()\n\n%s" % (render(t, fname), flows)
    if kind == "when":
        return "flow main\n  while True\n    when %s\n      send Done()\n\n%s" % (render(t, fname), flows)
    if kind == "matchfin":
        starts = "".join("    start %s as $r%s\n" % (fname(x), x.lower()) for x in leaves)
        return "flow main\n  while True\n%s    match %s\n    send Done()\n\n%s" % (starts, render(t, lambda x: "$r%s.Finished()" % x.lower()), flows)
    raise ValueError(kind)


def fail_program(t, kind):
    """member flows can also be ended from the outside (event Q<i> makes a helper send StopFlow for member i): a member that
    failed can never contribute to the formula any more"""
    leaves = leaves_of(t)
    fname = lambda x: "f" + x.lower().replace("e", "x")  # noqa: E731
    flows = "".join("flow %s\n  match %s()\n\n" % (fname(x), x) for x in leaves)
    killers = "".join("flow k%s\n  match Q%s()\n  send StopFlow(flow_id=\"%s\")\n\n" % (x[1:], x[1:], fname(x)) for x in leaves)
    kstart = "".join("  start k%s\n" % x[1:] for x in leaves)
    if kind == "await":
        body = "  start worker\n  match Never()\n\nflow worker\n  await %s\n  send Done()\n  match Never2()\n\n" % render(t, fname)
    elif kind == "when":
        body = "  start worker\n  match Never()\n\nflow worker\n  when %s\n    send Done()\n  else\n    send Gave()\n  match Never2()\n\n" % render(t, fname)
    else:
        raise ValueError(kind)
    return "flow main\n" + kstart + body + flows + killers


def program(t, kind, imm=()):
    leaves = leaves_of(t)
    # a member flow listed in `imm` never waits: it finishes while it is being started
    flows = "".join(("flow f%s\n  $v%s = 1\n\n" % (x.lower().replace("e", "x"), x.lower()[1:])) if x in imm else ("flow f%s\n  match %s()\n\n" % (x.lower().replace("e", "x"), x)) for x in leaves)
    fname = lambda x: "f" + x.lower().replace("e", "x")  # noqa: E731
    # flow names must not contain bare digits after a space; "fx0" is one token
    if kind == "match":
        return "flow main\n  match %s\n  send Done()\n  match Never()\n" % render(t, lambda x: x + "()")
    if kind == "await":
        return "flow main\n  await %s\n  send Done()\n  match Never()\n\n%s" % (render(t, fname), flows)
    if kind == "when":
        return "flow main\n  when %s\n    send Done()\n  match Never()\n\n%s" % (render(t, fname), flows)
    if kind == "matchfin":
        starts = "".join("  start %s as $r%s\n" % (fname(x), x.lower()) for x in leaves)
        return "flow main\n%s  match %s\n  send Done()\n  match Never()\n\n%s" % (
            starts,
            render(t, lambda x: "$r%s.Finished()" % x.lower()),
            flows,
        )
    raise ValueError(kind)


def _seqs(leaves, full):
    n = len(leaves)
    for k in range(1, n + 1):
        for seq in itertools.permutations(leaves, k):
            yield list(seq)


def cases(tier, seed):
    maxn = 4 if tier == "quick" else 5
    i = 0
    for kind in KINDS:
        for nl in range(1, maxn + 1):
            leaves = ["E%d" % j for j in range(nl)]
            for t in trees(leaves):
                for seq in _seqs(leaves, True):
                    # "aged": more than 5 s of (virtual) idle time pass before every event, so the interpreter's clean-up of
                    # long-finished flow instances runs between the members of a group finishing and the group completing
                    modes = ("noisy", "aged") if nl >= 4 else ("noisy", "plain", "aged")
                    if kind == "match" or nl == 1:
                        modes = tuple(m for m in modes if m != "aged") or ("plain",)
                    for mode in modes:
                        i += 1
                        yield {"id": i, "kind": kind, "tree": t, "seq": seq, "mode": mode}
    # member flows that finish without ever waiting (their Finished event belongs to the await/when statement that starts them)
    for kind in ("await", "when"):
        for nl in (2, 3):
            leaves = ["E%d" % j for j in range(nl)]
            for t in trees(leaves):
                for r in range(1, nl + 1):
                    for imm in itertools.combinations(leaves, r):
                        rest = [x for x in leaves if x not in imm]
                        seqs = [[]] + [list(p_) for k_ in range(1, len(rest) + 1) for p_ in itertools.permutations(rest, k_)]
                        for seq in seqs:
                            i += 1
                            yield {"id": i, "kind": kind, "tree": t, "seq": seq, "mode": "plain", "imm": list(imm)}
    # the same through the public API RuntimeV2_x.process_events (outgoing events are fed back): all trees with <=3 leaves
    for kind in KINDS:
        for nl in (2, 3):
            leaves = ["E%d" % j for j in range(nl)]
            for t in trees(leaves):
                for seq in _seqs(leaves, True):
                    i += 1
                    yield {"id": i, "kind": kind, "tree": t, "seq": seq, "mode": "noisy", "api": True}
    # the statement in a loop (re-activated after every completion): all trees with 2-3 leaves x all event sequences of
    # length 4 (2 leaves) / a third of those of length 5 (3 leaves); sampled: 3-5 leaves, length 5-12
    rngl = random.Random(3000 + seed)
    for kind in KINDS:
        for nl in (2, 3):
            leaves = ["E%d" % j for j in range(nl)]
            for t in trees(leaves):
                for seq in itertools.product(leaves, repeat=4 if nl == 2 else 5):
                    if nl == 3 and (tier == "quick") and rngl.random() > 0.34:
                        continue
                    i += 1
                    yield {"id": i, "kind": kind, "tree": t, "seq": list(seq), "mode": "loop"}
    for _ in range(600 if tier == "quick" else 12000):
        nl = rngl.randint(3, 5)
        leaves = ["E%d" % j for j in range(nl)]
        t = _rand_tree(rngl, leaves)
        seq = [rngl.choice(leaves + ["X"]) for _ in range(rngl.randint(5, 12))]
        i += 1
        yield {"id": i, "kind": rngl.choice(KINDS), "tree": t, "seq": seq, "mode": "loop", "api": rngl.random() < 0.15}
    # member flows that FAIL while the statement waits (ended from the outside): all trees with 2-3 leaves x sampled sequences of
    # finish / fail events, sampled 4 leaves
    rngf = random.Random(5000 + seed)
    for kind in ("await", "when"):
        for nl in (2, 3, 4):
            leaves = ["E%d" % j for j in range(nl)]
            for t in trees(leaves):
                if nl == 4 and rngf.random() > (0.25 if tier == "quick" else 1.0):
                    continue
                for _ in range(6 if tier == "quick" else 20):
                    toks = leaves + ["Q" + x[1:] for x in leaves]
                    seq = [rngf.choice(toks) for _ in range(rngf.randint(2, nl + 2))]
                    if not any(x.startswith("Q") for x in seq):
                        seq[rngf.randrange(len(seq))] = "Q" + rngf.choice(leaves)[1:]
                    i += 1
                    yield {"id": i, "kind": kind, "tree": t, "seq": seq, "mode": "fail"}
    # sampled larger formulas
    rng = random.Random(1000 + seed)
    nsamp = 1500 if tier == "quick" else 40000
    for _ in range(nsamp):
        nl = rng.randint(maxn + 1, 6 if tier == "quick" else 7)
        leaves = ["E%d" % j for j in range(nl)]
        t = _rand_tree(rng, leaves)
        k = rng.randint(1, nl)
        seq = rng.sample(leaves, k)
        i += 1
        yield {"id": i, "kind": rng.choice(KINDS), "tree": t, "seq": seq, "mode": rng.choice(["noisy", "plain", "dups", "aged"])}


def _rand_tree(rng, leaves):
    if len(leaves) == 1:
        return leaves[0]
    i = rng.randint(1, len(leaves) - 1)
    return [rng.choice(["and", "or"]), _rand_tree(rng, leaves[:i]), _rand_tree(rng, leaves[i:])]


def setup_worker():
    from . import v2h

    v2h.load()


def run_case(case):
    from . import v2h

    L = v2h.load()
    t, kind, seq, mode = case["tree"], case["kind"], case["seq"], case["mode"]
    if mode == "loop":
        return run_loop(case)
    if mode == "fail":
        return run_fail(case)
    imm = tuple(case.get("imm") or ())
    src = program(t, kind, imm)
    L["random"].reset(seed=zlib.crc32(repr((t, kind, seq)).encode()))
    L["clock"].reset()
    if mode == "noisy":
        full = ["X"] + seq[:1] + seq[:1] + seq[1:] + ["X"]
    elif mode == "dups":
        full = []
        for e in seq:
            full += [e, "X", e]
    else:
        full = list(seq)
    obs = {"events_fed": 0, "formulas_with_and_or": 0, "cases_with_idle_time_between_events": int(mode == "aged"), "cases_through_process_events": int(bool(case.get("api")))}
    groups = len(dnf(t))
    sample = {"kind": kind, "formula": render(t, lambda x: x), "events": full}
    base = {
        "key": repr((kind, t, seq, mode, imm, bool(case.get("api")))),
        "imm": list(imm),
        "imm_in_and_group": any(len(g) >= 2 and set(g) & set(imm) for g in dnf(t)),
        "nontrivial": (ops(t) == {"and", "or"} or len(leaves_of(t)) >= 3),
        "sample": sample,
        "kind": kind,
        "groups": groups,
    }
    api = None
    try:
        if case.get("api"):
            api = v2h.ApiSession(src)
            st = api.st
            first_out = api.out
        else:
            st = v2h.mk(src)
            first_out = st.outgoing_events
    except v2h.LoaderReject as e:
        return dict(base, verdict="inconclusive", reason="loader-reject", detail=str(e), nontrivial=False)
    fired = None
    if "Done" in v2h.types(first_out):
        fired = -1
    S = set(imm)
    exp = -1 if (imm and evaluate(t, S)) else None
    err = None
    for i, e in enumerate(full):
        if mode == "aged":
            L["clock"].advance(6.5)
        try:
            out = api.run({"type": e}) if api is not None else v2h.run(st, {"type": e})
        except Exception as ex:  # escaping exception = the statement failed to behave like the formula
            err = "%s: %s" % (type(ex).__name__, str(ex)[:120])
            break
        obs["events_fed"] += 1
        S.add(e)
        if exp is None and evaluate(t, S):
            exp = i
        if fired is None and "Done" in v2h.types(out):
            fired = i
    if ops(t) == {"and", "or"}:
        obs["formulas_with_and_or"] = 1
    obs["first_true_" + ("never" if exp is None else str(min(exp, 9)))] = 1
    obs["max_step_ratio"] = round(getattr(st, "_vp_max_ratio", 0.0), 4)
    sample["first_true_index"] = exp
    sample["marker_index"] = fired
    if err is not None or fired != exp:
        return dict(
            base,
            verdict="violated",
            observed=obs,
            witness={"program": src, "events": full, "expected_index": exp, "marker_index": fired, "exception": err, "dnf_groups": groups},
        )
    return dict(base, verdict="held", observed=obs)


def run_loop(case):
    """oracle: S = events received since the statement was (re-)activated; it completes - and the marker appears - at exactly
    the events at which the formula becomes true on S, after which S is empty again"""
    from . import steps, v2h

    L = v2h.load()
    t, kind, seq = case["tree"], case["kind"], case["seq"]
    src = loop_program(t, kind)
    L["random"].reset(seed=zlib.crc32(repr((t, kind, seq)).encode()))
    L["clock"].reset()
    groups = len(dnf(t))
    obs = {"events_fed": 0, "loop_cases": 1, "cases_through_process_events": int(bool(case.get("api")))}
    sample = {"kind": kind, "formula": render(t, lambda x: x), "events": seq, "loop": True}
    base = {"key": repr((kind, t, seq, "loop", bool(case.get("api")))), "imm": [], "nontrivial": (ops(t) == {"and", "or"} or len(leaves_of(t)) >= 3),
            "sample": sample, "kind": kind, "groups": groups, "loop": True}
    api = None
    try:
        if case.get("api"):
            api = v2h.ApiSession(src)
            st = api.st
        else:
            st = v2h.mk(src)
    except v2h.LoaderReject as e:
        return dict(base, verdict="inconclusive", reason="loader-reject", detail=str(e), nontrivial=False)
    S, exp, fired, err = set(), [], [], None
    for i, e in enumerate(seq):
        try:
            out = api.run({"type": e}) if api is not None else v2h.run(st, {"type": e})
        except steps.StepBudgetExceeded:
            return dict(base, verdict="inconclusive", reason="expected:nonterminating(C10)", nontrivial=False)
        except Exception as ex:
            err = "%s: %s" % (type(ex).__name__, str(ex)[:120])
            break
        obs["events_fed"] += 1
        S.add(e)
        if evaluate(t, S):
            exp.append(i)
            S = set()
        fired += [i] * v2h.types(out).count("Done")
    obs["loop_completions_%d" % min(len(exp), 4)] = 1
    abandoned = len(exp) >= 1 and groups >= 2
    obs["loop_cases_completing_with_another_group_partly_seen"] = int(abandoned)
    sample["completion_indices"] = exp
    sample["marker_indices"] = fired
    if err is not None or fired != exp:
        return dict(base, verdict="violated", observed=obs,
                    witness={"program": src, "events": seq, "expected_indices": exp, "marker_indices": fired, "exception": err, "dnf_groups": groups})
    return dict(base, verdict="held", observed=obs)


def run_fail(case):
    """oracle: a member that finished is true; a member that was ended before it finished is dead and stays false. The marker
    appears at exactly the first event at which the formula is true; if the formula can no longer become true (every
    and-group has a dead member) the statement gives up: `when` takes its else branch at that event, `await` fails its flow."""
    from . import steps, v2h

    L = v2h.load()
    t, kind, seq = case["tree"], case["kind"], case["seq"]
    src = fail_program(t, kind)
    L["random"].reset(seed=zlib.crc32(repr((t, kind, seq)).encode()))
    L["clock"].reset()
    groups = dnf(t)
    obs = {"events_fed": 0, "fail_cases": 1}
    sample = {"kind": kind, "formula": render(t, lambda x: x), "events": seq, "members_can_fail": True}
    base = {"key": repr((kind, t, seq, "fail")), "imm": [], "nontrivial": (ops(t) == {"and", "or"} or len(leaves_of(t)) >= 3), "sample": sample, "kind": kind, "groups": len(groups), "failmode": True}
    try:
        st = v2h.mk(src)
    except v2h.LoaderReject as e:
        return dict(base, verdict="inconclusive", reason="loader-reject", detail=str(e), nontrivial=False)
    true, dead = set(), set()
    exp_done = exp_gave = None
    got_done = got_gave = None
    err = None
    for i, e in enumerate(seq):
        try:
            out = v2h.run(st, {"type": e})
        except steps.StepBudgetExceeded:
            return dict(base, verdict="inconclusive", reason="expected:nonterminating(C10)", nontrivial=False)
        except Exception as ex:
            err = "%s: %s" % (type(ex).__name__, str(ex)[:120])
            break
        obs["events_fed"] += 1
        if exp_done is None and exp_gave is None:
            if e.startswith("E"):
                if e not in dead:
                    true.add(e)
            elif ("E" + e[1:]) not in true:
                dead.add("E" + e[1:])
            if evaluate(t, true):
                exp_done = i
            elif all(set(g) & dead for g in groups):
                exp_gave = i
        ty = v2h.types(out)
        if got_done is None and "Done" in ty:
            got_done = i
        if got_gave is None and "Gave" in ty:
            got_gave = i
    obs["fail_outcome_" + ("done" if exp_done is not None else "gave-up" if exp_gave is not None else "still-waiting")] = 1
    obs["fail_cases_with_dead_member_before_completion"] = int(exp_done is not None and bool(dead))
    sample.update(expected_done=exp_done, expected_gave_up=exp_gave, marker=got_done, else_marker=got_gave)
    bad = err is not None or got_done != exp_done or (kind == "when" and got_gave != exp_gave)
    if kind == "await" and exp_gave is not None and not bad:
        ws = st.flow_id_states.get("worker", [])
        status = getattr(ws[-1].status, "value", str(ws[-1].status)) if ws else "absent"
        if status not in ("stopped", "finished"):
            bad = True
            err = "the awaiting flow is still %s although no and-group can complete any more" % status
    if bad:
        return dict(base, verdict="violated", observed=obs, witness={"program": src, "events": seq, "expected_done": exp_done, "expected_gave_up": exp_gave, "marker_index": got_done,
                                                                      "else_marker_index": got_gave, "exception": err, "dnf_groups": len(groups)})
    return dict(base, verdict="held", observed=obs)


def classify(r):
    if r.get("failmode"):
        w = r.get("witness", {})
        return "members-fail:" + ("exception:" + w["exception"].split(":")[0] if w.get("exception") and ":" in w["exception"] and w["exception"].split(":")[0].isidentifier() else "outcome-differs:%s" % r.get("kind"))
    if r.get("loop"):
        w = r.get("witness", {})
        return "loop:" + ("exception:" + w["exception"].split(":")[0] if w.get("exception") else "completion-indices-differ:%s" % r.get("kind"))
    if r.get("imm") and r.get("kind") in ("await", "when") and r.get("imm_in_and_group"):
        # structural: a member flow that finishes while it is being started sits in an and-group with other members; the
        # statement starts the members one after the other and only then begins to wait for their Finished events
        return "and-group-member-finished-while-being-started"
    if r.get("kind") == "when" and r.get("groups", 1) > 1:
        return "when-case-with-or-group"
    w = r.get("witness", {})
    if w.get("exception"):
        return "exception:" + w["exception"].split(":")[0]
    return "marker-index-mismatch:%s" % r.get("kind")
